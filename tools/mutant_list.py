"""(property, file under src/gemseo, regex, replacement) - semantic mutants that break the property."""
MUTANTS = [
    # ---- C05 SimpleCache
    ("C05", "caches/simple_cache.py", r"if not self.__outputs:", "if self.__outputs:"),
    ("C05", "caches/simple_cache.py", r"        self.__jacobian = \{\}\n\n        if not", "        if not"),
    ("C05", "caches/simple_cache.py", r"self.__inputs = deepcopy_dict_of_arrays\(input_data\)\n        self.__outputs = deep", "self.__inputs = input_data\n        self.__outputs = deep"),
    ("C05", "utils/data_conversion.py", r"deep_copy\[key\] = value.copy\(\)", "deep_copy[key] = value"),
    ("C05", "caches/simple_cache.py", r"if not self.__is_cached\(input_data\):\n            return CacheEntry", "if self.__is_cached(input_data):\n            return CacheEntry"),
    # ---- C03 / C01 evaluation protocol
    ("C03", "algos/evaluation_counter.py", r"return self.current >= self.maximum", "return self.current > self.maximum"),
    ("C03", "algos/problem_function.py", r"hashed_xu = database.get_hashable_ndarray\(xu_vect\)\n        output_value", "hashed_xu = database.get_hashable_ndarray(xn_vect)\n        output_value"),
    ("C03", "algos/problem_function.py", r"            jac_n = self._normalize_grad\(jac_u\)", "            jac_n = jac_u"),
    ("C03", "algos/database.py", r"if self.__new_iter_listeners and outputs and current_outputs_is_empty:", "if self.__new_iter_listeners and outputs:"),
    ("C03", "algos/database.py", r"            stored_outputs.update\(outputs\)", "            self.__data[hashed_input_value] = outputs"),
    ("C03", "algos/problem_function.py", r"            if self.__store_jacobian:\n                database.store\(hashed_xu, \{name: jacobian\}\)", "            database.store(hashed_xu, {name: jacobian})"),
    ("C03", "algos/problem_function.py", r"                not database.get\(hashed_xu\)\n                and self._evaluation_counter.maximum_is_reached\n            \):\n                raise MaxIterReachedException\n\n            output_value = self._compute_output\(input_value\)",
     "                self._evaluation_counter.maximum_is_reached\n            ):\n                raise MaxIterReachedException\n\n            output_value = self._compute_output(input_value)"),
    ("C03", "algos/problem_function.py", r"            jac_u = self._unnormalize_grad\(jac_n\)", "            jac_u = jac_n"),
    ("C03", "algos/problem_function.py", r"        for func in self._output_evaluation_sequence:\n            input_value = func\(input_value\)", "        for func in self._output_evaluation_sequence:\n            func(input_value)"),
    # ---- C02 DesignSpace
    ("C02", "algos/design_space.py", r"indices.stop - size,\n                \)\n\n        del self.normalize", "indices.stop,\n                )\n\n        del self.normalize"),
    ("C02", "algos/design_space.py", r"        del self.normalize\[name\]\n", ""),
    ("C02", "algos/design_space.py", r"            if variable_name == name:\n                variable_is_reached = True\n            elif variable_is_reached:", "            if variable_name == name:\n                variable_is_reached = True\n            else:"),
    ("C02", "algos/design_space.py", r"            dictionary.clear\(\)\n            dictionary.update\(renamed_dictionary\)", "            del dictionary[current_name]\n            dictionary[new_name] = renamed_dictionary[new_name]"),
    ("C02", "algos/design_space.py", r"        self.__norm_data_is_computed = False\n        # The normalized current value depends on the bounds.\n        self.__clear_dependent_data\(\)\n\n    def set_upper", "        self.__norm_data_is_computed = False\n\n    def set_upper"),
    ("C02", "algos/design_space.py", r"            out\[\.\.\., norm_inds\] -= self.__lower_bounds_array\[norm_inds\]", "            out[..., norm_inds] += self.__lower_bounds_array[norm_inds]"),
    ("C02", "algos/design_space.py", r"            out\[\.\.\., norm_inds\] \*= self._norm_factor_inv\[norm_inds\]", "            out[..., norm_inds] *= self._norm_factor[norm_inds]"),
    ("C02", "algos/design_space.py", r"            use_out = False\n            out = x_vect.copy\(\)", "            use_out = False\n            out = x_vect"),
    ("C02", "algos/design_space.py", r"            out\[\.\.\., norm_inds\] \+= lower_bounds\[norm_inds\]", "            out[..., norm_inds] -= lower_bounds[norm_inds]"),
    ("C02", "algos/design_space.py", r"        rounded_x_vect\[\.\.\., are_integers\] = np_round\(x_vect\[\.\.\., are_integers\]\)", "        rounded_x_vect[..., are_integers] = x_vect[..., are_integers]"),
    ("C02", "algos/design_space.py", r"            or self.__current_value.keys\(\) != self._variables.keys\(\)\n", ""),
    # ---- C16 forward finite differences
    ("C16", "utils/derivatives/finite_differences.py", r"input_perturbations\[input_indices, range\(n_indices\)\] \+ step\n            > upper_bounds\[input_indices\]", "input_perturbations[input_indices, range(n_indices)]\n            >= upper_bounds[input_indices]"),
    ("C16", "utils/derivatives/finite_differences.py", r"            -step,\n            step,\n        \)", "            step,\n            -step,\n        )"),
    ("C16", "utils/derivatives/finite_differences.py", r"input_perturbations\[:, perturbation_index\], \*\*kwargs\n            \)\n            g_approx = \(perturbated_output - initial_output\) / step\[perturbation_index\]", "input_perturbations[:, perturbation_index], **kwargs\n            )\n            g_approx = (perturbated_output - initial_output) * step[perturbation_index]"),
    ("C16", "utils/derivatives/finite_differences.py", r"            input_perturbations\[input_indices, range\(n_indices\)\] \+= step\n", "            input_perturbations[input_indices, range(n_indices)] -= step\n"),
    ("C16", "utils/derivatives/finite_differences.py", r"        input_perturbations\[input_indices, range\(n_indices\)\] \+= steps", "        input_perturbations[range(n_indices), input_indices] += steps"),
    ("C16", "utils/derivatives/finite_differences.py", r"        initial_output = self.f_pointer\(input_values, \*\*kwargs\)\n        for", "        initial_output = self.f_pointer(input_perturbations[:, 0], **kwargs)\n        for"),
]
