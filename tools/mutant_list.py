"""(property, file under src/gemseo, regex, replacement) - semantic mutants that break the property."""
MUTANTS = [
    # ---- C05 SimpleCache
    ("C05", "caches/simple_cache.py", r"if not self.__outputs:", "if self.__outputs:"),
    ("C05", "caches/simple_cache.py", r"        self.__jacobian = \{\}\n\n        if not", "        if not"),
    ("C05", "caches/simple_cache.py", r"self.__inputs = deepcopy_dict_of_arrays\(input_data\)\n        self.__outputs = deep", "self.__inputs = input_data\n        self.__outputs = deep"),
    ("C05", "utils/data_conversion.py", r"deep_copy\[key\] = value.copy\(\)", "deep_copy[key] = value"),
    ("C05", "caches/simple_cache.py", r"if not self.__is_cached\(input_data\):\n            return CacheEntry", "if self.__is_cached(input_data):\n            return CacheEntry"),
    # ---- C03 / C01 evaluation protocol
    ("C03", "algos/evaluation_counter.py", r"return self.current >= self.maximum", "return self.current > self.maximum"),
    ("C03", "algos/problem_function.py", r"hashed_xu = database.get_hashable_ndarray\(xu_vect\)\n        output_value", "hashed_xu = database.get_hashable_ndarray(xn_vect)\n        output_value"),
    ("C03", "algos/problem_function.py", r"            jac_n = self._normalize_grad\(jac_u\)", "            jac_n = jac_u"),
    ("C03", "algos/database.py", r"if self.__new_iter_listeners and outputs and current_outputs_is_empty:", "if self.__new_iter_listeners and outputs:"),
    ("C03", "algos/database.py", r"            stored_outputs.update\(outputs\)", "            self.__data[hashed_input_value] = outputs"),
    ("C03", "algos/problem_function.py", r"            if self.__store_jacobian:\n                database.store\(hashed_xu, \{name: jacobian\}\)", "            database.store(hashed_xu, {name: jacobian})"),
    ("C03", "algos/problem_function.py", r"                not database.get\(hashed_xu\)\n                and self._evaluation_counter.maximum_is_reached\n            \):\n                raise MaxIterReachedException\n\n            output_value = self._compute_output\(input_value\)",
     "                self._evaluation_counter.maximum_is_reached\n            ):\n                raise MaxIterReachedException\n\n            output_value = self._compute_output(input_value)"),
    ("C03", "algos/problem_function.py", r"            jac_u = self._unnormalize_grad\(jac_n\)", "            jac_u = jac_n"),
    ("C03", "algos/problem_function.py", r"        for func in self._output_evaluation_sequence:\n            input_value = func\(input_value\)", "        for func in self._output_evaluation_sequence:\n            func(input_value)"),
    # ---- C02 DesignSpace
    ("C02", "algos/design_space.py", r"indices.stop - size,\n                \)\n\n        del self.normalize", "indices.stop,\n                )\n\n        del self.normalize"),
    ("C02", "algos/design_space.py", r"        del self.normalize\[name\]\n", ""),
    ("C02", "algos/design_space.py", r"            if variable_name == name:\n                variable_is_reached = True\n            elif variable_is_reached:", "            if variable_name == name:\n                variable_is_reached = True\n            else:"),
    ("C02", "algos/design_space.py", r"            dictionary.clear\(\)\n            dictionary.update\(renamed_dictionary\)", "            del dictionary[current_name]\n            dictionary[new_name] = renamed_dictionary[new_name]"),
    ("C02", "algos/design_space.py", r"        self.__norm_data_is_computed = False\n        # The normalized current value depends on the bounds.\n        self.__clear_dependent_data\(\)\n\n    def set_upper", "        self.__norm_data_is_computed = False\n\n    def set_upper"),
    ("C02", "algos/design_space.py", r"            out\[\.\.\., norm_inds\] -= self.__lower_bounds_array\[norm_inds\]", "            out[..., norm_inds] += self.__lower_bounds_array[norm_inds]"),
    ("C02", "algos/design_space.py", r"            out\[\.\.\., norm_inds\] \*= self._norm_factor_inv\[norm_inds\]", "            out[..., norm_inds] *= self._norm_factor[norm_inds]"),
    ("C02", "algos/design_space.py", r"            use_out = False\n            out = x_vect.copy\(\)", "            use_out = False\n            out = x_vect"),
    ("C02", "algos/design_space.py", r"            out\[\.\.\., norm_inds\] \+= lower_bounds\[norm_inds\]", "            out[..., norm_inds] -= lower_bounds[norm_inds]"),
    ("C02", "algos/design_space.py", r"        rounded_x_vect\[\.\.\., are_integers\] = np_round\(x_vect\[\.\.\., are_integers\]\)", "        rounded_x_vect[..., are_integers] = x_vect[..., are_integers]"),
    ("C02", "algos/design_space.py", r"            or self.__current_value.keys\(\) != self._variables.keys\(\)\n", ""),
    # ---- C16 forward finite differences
    ("C16", "utils/derivatives/finite_differences.py", r"input_perturbations\[input_indices, range\(n_indices\)\] \+ step\n            > upper_bounds\[input_indices\]", "input_perturbations[input_indices, range(n_indices)]\n            >= upper_bounds[input_indices]"),
    ("C16", "utils/derivatives/finite_differences.py", r"            -step,\n            step,\n        \)", "            step,\n            -step,\n        )"),
    ("C16", "utils/derivatives/finite_differences.py", r"input_perturbations\[:, perturbation_index\], \*\*kwargs\n            \)\n            g_approx = \(perturbated_output - initial_output\) / step\[perturbation_index\]", "input_perturbations[:, perturbation_index], **kwargs\n            )\n            g_approx = (perturbated_output - initial_output) * step[perturbation_index]"),
    ("C16", "utils/derivatives/finite_differences.py", r"            input_perturbations\[input_indices, range\(n_indices\)\] \+= step\n", "            input_perturbations[input_indices, range(n_indices)] -= step\n"),
    ("C16", "utils/derivatives/finite_differences.py", r"        input_perturbations\[input_indices, range\(n_indices\)\] \+= steps", "        input_perturbations[range(n_indices), input_indices] += steps"),
    ("C16", "utils/derivatives/finite_differences.py", r"        initial_output = self.f_pointer\(input_values, \*\*kwargs\)\n        for", "        initial_output = self.f_pointer(input_perturbations[:, 0], **kwargs)\n        for"),
    # ---- C08 dependency graph / execution sequence / coupling sets / chain
    ("C08", "core/dependency_graph.py", r"if disc_i != disc_j:", "if disc_i == disc_i:"),
    ("C08", "core/dependency_graph.py", r"coupled_io = outputs_i & inputs_j", "coupled_io = outputs_i | inputs_j"),
    ("C08", "core/dependency_graph.py", r"graph_add_edge\(disc_i, disc_j, io=coupled_io\)", "graph_add_edge(disc_j, disc_i, io=coupled_io)"),
    ("C08", "core/dependency_graph.py", r"for disc_j, \(inputs_j, _\) in", "for disc_j, (_, inputs_j) in"),
    ("C08", "core/dependency_graph.py", r"                    if coupled_io:\n", "                    if not coupled_io:\n"),
    ("C08", "core/dependency_graph.py", r"index = disciplines.index\(component\)", "index = -disciplines.index(component)"),
    ("C08", "core/dependency_graph.py", r"ordered_components \+= \[disc_indexes\[index\]\]", "ordered_components = [disc_indexes[index]]"),
    ("C08", "core/dependency_graph.py", r"disc_indexes\[index\] = component", "disc_indexes[0] = component"),
    ("C08", "core/dependency_graph.py", r"return list\(reversed\(execution_sequence\)\)", "return list(execution_sequence)"),
    ("C08", "core/dependency_graph.py", r"execution_sequence \+= \[parallel_tasks\]", "execution_sequence = [parallel_tasks]"),
    ("C08", "core/dependency_graph.py", r"for node_id in leaves\n", "for node_id in leaves[1:]\n"),
    ("C08", "core/dependency_graph.py", r"condensed_graph.remove_nodes_from\(leaves\)", "condensed_graph.remove_nodes_from(leaves[1:])"),
    ("C08", "core/dependency_graph.py", r"if graph.out_degree\(n\) == 0\]", "if graph.out_degree(n) >= 0]"),
    ("C08", "core/dependency_graph.py", r"condensed_graph.remove_nodes_from\(leaves\)", "condensed_graph.remove_nodes_from([])"),
    ("C08", "core/dependency_graph.py", r"couplings \+= \[\(from_disc, to_disc, sorted\(edge_names\)\)\]", "couplings += [(to_disc, from_disc, sorted(edge_names))]"),
    ("C08", "core/dependency_graph.py", r"couplings \+= \[\(from_disc, to_disc, sorted\(edge_names\)\)\]", "couplings = [(from_disc, to_disc, sorted(edge_names))]"),
    ("C08", "core/coupling_structure.py", r"            self_c_vars -= set\(states\)\n", "            pass\n"),
    ("C08", "core/coupling_structure.py", r"return len\(self_c_vars\) > 0", "return len(self_c_vars) > 1"),
    ("C08", "core/coupling_structure.py", r"self._all_couplings = sorted\(inputs & outputs\)", "self._all_couplings = sorted(inputs | outputs)"),
    ("C08", "core/coupling_structure.py", r"            outputs.update\(discipline.io.output_grammar\)\n        self._all", "            outputs = set(discipline.io.output_grammar)\n        self._all"),
    ("C08", "core/coupling_structure.py", r"if output in discipline.io.output_grammar:", "if output in discipline.io.input_grammar:"),
    ("C08", "core/coupling_structure.py", r"return sorted\(name for name in output_names if name in couplings\)", "return sorted(name for name in output_names if name not in couplings)"),
    ("C08", "core/coupling_structure.py", r"input_names = discipline.io.input_grammar\n        couplings = self.strong_couplings if strong", "input_names = discipline.io.input_grammar\n        couplings = self.all_couplings if strong"),
    ("C08", "core/chains/chain.py", r"self.io.data.update\(discipline.execute\(self.io.data\)\)", "discipline.execute(self.io.data)"),
    ("C08", "core/chains/chain.py", r"self.io.data.update\(discipline.execute\(self.io.data\)\)", "self.io.data.update(self.disciplines[0].execute(self.io.data))"),
    # ---- C01 (same protocol functions as C03)
    ('C01', 'algos/problem_function.py', 'hashed_xu = database.get_hashable_ndarray\\(xu_vect\\)\\n        output_value', 'hashed_xu = database.get_hashable_ndarray(xn_vect)\n        output_value'),
    ('C01', 'algos/problem_function.py', '            jac_n = self._normalize_grad\\(jac_u\\)', '            jac_n = jac_u'),
    ('C01', 'algos/database.py', 'if self.__new_iter_listeners and outputs and current_outputs_is_empty:', 'if self.__new_iter_listeners and outputs:'),
    ('C01', 'algos/database.py', '            stored_outputs.update\\(outputs\\)', '            self.__data[hashed_input_value] = outputs'),
    ('C01', 'algos/problem_function.py', '            if self.__store_jacobian:\\n                database.store\\(hashed_xu, \\{name: jacobian\\}\\)', '            database.store(hashed_xu, {name: jacobian})'),
    ('C01', 'algos/problem_function.py', '                not database.get\\(hashed_xu\\)\\n                and self._evaluation_counter.maximum_is_reached\\n            \\):\\n                raise MaxIterReachedException\\n\\n            output_value = self._compute_output\\(input_value\\)', '                self._evaluation_counter.maximum_is_reached\n            ):\n                raise MaxIterReachedException\n\n            output_value = self._compute_output(input_value)'),
    ('C01', 'algos/problem_function.py', '            jac_u = self._unnormalize_grad\\(jac_n\\)', '            jac_u = jac_n'),
    ('C01', 'algos/problem_function.py', '        for func in self._output_evaluation_sequence:\\n            input_value = func\\(input_value\\)', '        for func in self._output_evaluation_sequence:\n            func(input_value)'),
    ("C03", "algos/base_driver_library.py", r"        self._problem.evaluation_counter.current \+= 1\n", "        self._problem.evaluation_counter.current += 2\n"),
    # ---- C05 BaseFullCache / MemoryFullCache (contracts/c05_full_cache.py)
    ("C05", "caches/base_full_cache.py", r"                self._last_accessed_index.value = index\n", "                pass\n"),
    ("C05", "caches/base_full_cache.py", r"self._hashes_to_indices\[data_hash\] = append\(indices, self._max_index.value\)", "self._hashes_to_indices[data_hash] = array([self._max_index.value])"),
    ("C05", "caches/base_full_cache.py", r"            self._hashes_to_indices\[data_hash\] = array\(\[self._max_index.value\]\)", "            self._hashes_to_indices[data_hash + 1] = array([self._max_index.value])"),
    ("C05", "caches/base_full_cache.py", r"elif self._has_group\(self._last_accessed_index.value, group\):", "elif self._has_group(self._max_index.value, group):"),
    ("C05", "caches/base_full_cache.py", r"if self._cache_inputs\(input_data, self.Group.OUTPUTS\):", "if self._cache_inputs(input_data, self.Group.JACOBIAN):"),
    ("C05", "caches/base_full_cache.py", r"            self.Group.OUTPUTS,\n            self._last_accessed_index.value,", "            self.Group.OUTPUTS,\n            self._max_index.value,"),
    ("C05", "caches/base_full_cache.py", r"            flat_jacobian_data,\n            self.Group.JACOBIAN,", "            jacobian_data,\n            self.Group.JACOBIAN,"),
    ("C05", "caches/base_full_cache.py", r"                jacobian_data = self._read_data\(index, self.Group.JACOBIAN\)\n                return CacheEntry\(input_data, output_data, jacobian_data\)\n\n        return CacheEntry\(input_data, \{\}, \{\}\)\n\n    @synchronized",
     "                jacobian_data = self._read_data(index, self.Group.JACOBIAN)\n                return CacheEntry(input_data, {}, jacobian_data)\n\n        return CacheEntry(input_data, {}, {})\n\n    @synchronized"),
    ("C05", "caches/base_full_cache.py", r"                    input_data, cached_input_data, self._tolerance\n", "                    input_data, cached_input_data\n"),
    ("C05", "caches/base_full_cache.py", r"        self._hashes_to_indices.clear\(\)\n        self._max_index.value = 0\n", "        self._hashes_to_indices.clear()\n"),
    ("C05", "caches/base_full_cache.py", r"self._read_data\(self._last_accessed_index.value, self.Group.OUTPUTS\),", "self._read_data(self._max_index.value, self.Group.OUTPUTS),"),
    ("C05", "caches/base_full_cache.py", r"    def __len__\(self\) -> int:\n        return self._max_index.value", "    def __len__(self) -> int:\n        return len(self._hashes_to_indices)"),
    ("C05", "caches/base_full_cache.py", r"            if indices is None:\n                return CacheEntry\(input_data, \{\}, \{\}\)\n\n            return self._read_input_output_data\(indices, input_data\)", "            if indices is None:\n                return CacheEntry(input_data, {}, {})\n\n            return self._read_input_output_data(indices[1:], input_data)"),
    ("C05", "caches/memory_full_cache.py", r"return group in self.__data\[index\]", "return self.Group.INPUTS in self.__data[index]"),
    ("C05", "caches/memory_full_cache.py", r"data = self.__data\[index\].get\(group, \{\}\)", "data = self.__data[index].get(self.Group.OUTPUTS, {})"),
    ("C05", "caches/memory_full_cache.py", r"        data = self.__data\[index\]\n        # Copy the arrays too", "        data = {}\n        # Copy the arrays too"),
    ("C05", "caches/memory_full_cache.py", r"        super\(\).clear\(\)\n        self.__data.clear\(\)", "        super().clear()"),
    # (`self.__data.setdefault(index, {})` became an EQUIVALENT mutant: _initialize_entry is only called for an index nothing is stored under -
    #  precondition `index-unused`, proved at its call site from the invariant clause `nothing-stored-beyond-max-index`)
    ("C05", "caches/memory_full_cache.py", r"        self.__data\[index\] = \{\}", "        pass"),
    ("C05", "caches/memory_full_cache.py", r"if group == self.Group.JACOBIAN and data:", "if group == self.Group.OUTPUTS and data:"),
    # ---- C13 parallel execution (callable_parallel_execution.py)
    ("C13", "core/parallel_execution/callable_parallel_execution.py", r"if len\(self.callables\) > 1:", "if len(self.callables) > 2:"),
    ("C13", "core/parallel_execution/callable_parallel_execution.py", r"callable_ = self.callables\[task_index\]", "callable_ = self.callables[-1]"),
    ("C13", "core/parallel_execution/callable_parallel_execution.py", r"return callable_\(input_\)", "return callable_(task_index)"),
    ("C13", "core/parallel_execution/callable_parallel_execution.py", r"            queue_out.put\(\(task_index, err\)\)\n", "            pass\n"),
    ("C13", "core/parallel_execution/callable_parallel_execution.py", r"queue_out.put\(\(task_index, output\)\)", "queue_out.put((0, output))"),
    ("C13", "core/parallel_execution/callable_parallel_execution.py", r"            queue_in.task_done\(\)\n            continue\n", "            queue_in.task_done()\n"),
    ("C13", "core/parallel_execution/callable_parallel_execution.py", r"            queue_out.put\(\(task_index, err\)\)\n            queue_in.task_done\(\)\n", "            queue_out.put((task_index, err))\n"),
    ("C13", "core/parallel_execution/callable_parallel_execution.py", r"ordered_outputs\[index\] = output", "ordered_outputs[n_outputs] = output"),
    ("C13", "core/parallel_execution/callable_parallel_execution.py", r"callback\(index, output\)", "callback(n_outputs, output)"),
    ("C13", "core/parallel_execution/callable_parallel_execution.py", r"callback\(index, output\)", "callback(index, output); callback(index, output)"),
    ("C13", "core/parallel_execution/callable_parallel_execution.py", r"queue_in.put\(\(task_index, inputs\[task_index\]\)\)", "queue_in.put((task_index, inputs[0]))"),
    ("C13", "core/parallel_execution/callable_parallel_execution.py", r"list\(range\(n_tasks\)\)\[::-1\]", "list(range(n_tasks - 1))[::-1]"),
    ("C13", "core/parallel_execution/callable_parallel_execution.py", r"for _ in processes:\n            queue_in.put\(None\)", "for _ in processes:\n            pass"),
    ("C13", "core/parallel_execution/callable_parallel_execution.py", r"                if isinstance\(output, self.__exceptions_to_re_raise\):\n                    stop = True", "                stop = True"),
    ("C13", "core/parallel_execution/callable_parallel_execution.py", r"args=\(task_callables, queue_in, queue_out\)", "args=(task_callables, queue_out, queue_in)"),
    ("C13", "core/parallel_execution/callable_parallel_execution.py", r"            process.start\(\)\n", "            pass\n"),
    ("C13", "core/parallel_execution/callable_parallel_execution.py", r"_TaskCallables\(self.workers\)", "_TaskCallables(self.workers[::-1])"),
    ("C13", "core/parallel_execution/callable_parallel_execution.py", r"            n_outputs \+= 1\n", "            n_outputs += 1\n            stop = n_outputs == n_tasks - 1\n"),
    # ---- C09 (set level): differentiated inputs/outputs
    ("C09", "core/discipline/discipline.py", r"set\(self._differentiated_input_names\).union\(", "set().union("),
    ("C09", "core/discipline/discipline.py", r"filter\(output_grammar.data_converter.is_continuous, output_names\)", "output_names"),
    ("C09", "core/discipline/discipline.py", r"if input_names and not self.io.input_grammar.has_names\(input_names\):", "if input_names and self.io.input_grammar.has_names(input_names):"),
    ("C09", "core/discipline/discipline.py", r"        if not output_names:\n            output_names = output_grammar\n", ""),
    ("C09", "core/derivatives/chain_rule.py", r"        if diff_in:\n            disc.add_differentiated_inputs\(diff_in\)", "        if diff_in:\n            disc.add_differentiated_inputs(diff_out)"),
    ("C09", "core/derivatives/chain_rule.py", r"        if diff_out:\n            disc.add_differentiated_outputs\(diff_out\)", "        if diff_in:\n            pass"),
    ("C09", "core/derivatives/chain_rule.py", r"disc_1_couplings\[outputs_dest_edge_index\].extend\(coupl_io\)", "disc_1_couplings[inputs_source_edge_index].extend(coupl_io)"),
    ("C09", "core/derivatives/chain_rule.py", r"inputs_source_edge_index = 1\n        outputs_dest_edge_index = 0", "inputs_source_edge_index = 0\n        outputs_dest_edge_index = 1"),
    ("C09", "core/derivatives/chain_rule.py", r"                diff_io\[disc_2\] = disc_2_couplings\n", "                pass\n"),
    ("C09", "core/derivatives/chain_rule.py", r"disc_2_couplings\[inputs_source_edge_index\].extend\(coupl_io\)", "disc_2_couplings[outputs_dest_edge_index].extend(coupl_io)"),
    # ---- C05 BaseDiscipline cache protocol (contracts/c05_discipline.py)
    ("C05", "core/discipline/base_discipline.py", r"        if self.cache is not None:\n            self._store_cache\(input_data_for_cache\)", "        if self.cache is not None:\n            pass"),
    ("C05", "core/discipline/base_discipline.py", r"            self._store_cache\(input_data_for_cache\)", "            self._store_cache(self.io.data)"),
    ("C05", "core/discipline/base_discipline.py", r"        self.io.data = cache_entry.inputs\n        self.io.data.update\(cache_entry.outputs\)", "        self.io.data = cache_entry.inputs"),
    ("C05", "core/discipline/base_discipline.py", r"        self.io.data = cache_entry.inputs\n        self.io.data.update\(cache_entry.outputs\)", "        self.io.data = cache_entry.outputs\n        self.io.data.update(cache_entry.inputs)"),
    ("C05", "core/discipline/base_discipline.py", r"        if not cache_entry.outputs:\n            return False", "        if not cache_entry.inputs:\n            return False"),
    ("C05", "core/discipline/base_discipline.py", r"            del output_data\[name\]", "            pass"),
    ("C05", "core/discipline/base_discipline.py", r"input_data_\[auto_coupled_name\] = deepcopy\(value\)", "input_data_[auto_coupled_name] = value"),
    ("C05", "core/discipline/base_discipline.py", r"        input_data_ = input_data.copy\(\)", "        input_data_ = input_data"),
    ("C05", "core/discipline/base_discipline.py", r"        else:\n            self._execute_monitored\(\)\n", "        else:\n            self._execute_monitored()\n            self._execute_monitored()\n"),
    ("C05", "core/discipline/base_discipline.py", r"            if self.__can_load_cache\(input_data\):\n                self.io.output_grammar", "            if self.__can_load_cache(input_data) and False:\n                self.io.output_grammar"),
    ("C09", "core/derivatives/chain_rule.py", r"common_data = set\(output_names\).intersection\(output_grammar\)", "common_data = set(output_names).intersection(input_grammar)"),
    ("C09", "core/derivatives/chain_rule.py", r"diff_io_init_disc\[1\].extend\(common_data\)", "diff_io_init_disc[0].extend(common_data)"),
    ("C09", "core/derivatives/chain_rule.py", r"diff_ios\[disc\] = \(list\(common_data\), \[\]\)", "diff_ios[disc] = ([], list(common_data))"),
    ("C09", "core/derivatives/chain_rule.py", r"            input_sources.append\(disc\)\n", "            pass\n"),
    # ---- C20 serialization (core/serializable.py and the before-hooks)
    ("C20", "core/serializable.py", r"            state\[attribute_name\] = attribute_value\n\n        return state", "            state[attribute_name] = attribute_value\n\n        return self.__dict__"),
    ("C20", "core/serializable.py", r"                attribute_value = attribute_value.value\n", "                pass\n"),
    ("C20", "core/serializable.py", r"            state\[attribute_name\] = attribute_value\n", "            state[attribute_name] = self.__dict__[attribute_name]\n"),
    ("C20", "core/serializable.py", r"                attribute_value = to_os_specific\(attribute_value\)", "                continue"),
    ("C20", "core/serializable.py", r"            if attribute_name not in self.__dict__:\n                self.__dict__\[attribute_name\] = attribute_value", "            if True:\n                self.__dict__[attribute_name] = attribute_value"),
    ("C20", "core/serializable.py", r"                self.__dict__\[attribute_name\].value = attribute_value", "                pass"),
    ("C20", "core/serializable.py", r"        # Initialize all Synchronized attributes first.\n        self._init_shared_memory_attrs_before\(\)\n", "        # Initialize all Synchronized attributes first.\n"),
    ("C20", "core/serializable.py", r"                    self.__dict__\[attribute_name\] = Path\(attribute_value\)", "                    pass"),
    ("C20", "algos/problem_function.py", r"        self._n_calls = Value\(\"i\", 0\)", "        self._n_calls = 0"),
    ("C20", "core/execution_statistics.py", r"        self.__n_executions = Value\(\"i\", 0\)\n", "        self.__n_executions = self.__duration\n"),
    ("C20", "core/execution_status.py", r"    def _init_shared_memory_attrs_before\(self\) -> None:\n        self.__observers = set\(\)", "    def _init_shared_memory_attrs_before(self) -> None:\n        pass"),
    # ---- C15 grammars (RequiredNames, Defaults, SimpleGrammar, BaseGrammar template methods)
    # NB: on the pinned tree C15 already exits 1 (genuine defects); use tools/mutants_rel.py C15 to compare against the baseline violations
    ('C15', 'core/grammars/required_names.py', '        self.__grammar._check_name\\(name\\)\\n        self.__names.add\\(name\\)', '        self.__names.add(name)'),
    ('C15', 'core/grammars/required_names.py', '        self.__names.discard\\(name\\)', '        pass'),
    ('C15', 'core/grammars/required_names.py', 'return self.__names.difference\\(other\\)', 'return self.__names.union(other)'),
    ('C15', 'core/grammars/required_names.py', 'return self.__names.difference\\(other\\)', 'return self.__names'),
    ('C15', 'core/grammars/required_names.py', 'return name in self.__names', 'return name not in self.__names'),
    ('C15', 'core/grammars/required_names.py', '        self.__grammar._check_name\\(\\*self.__names\\)\\n', ''),
    ('C15', 'core/grammars/required_names.py', 'return len\\(self.__names\\)', 'return len(self.__names) + 1'),
    ('C15', 'core/grammars/defaults.py', 'if name not in self.__grammar:', 'if name in self.__data:'),
    ('C15', 'core/grammars/defaults.py', '        del self.__data\\[key\\]', '        self.__data.pop(key, None)'),
    ('C15', 'core/grammars/defaults.py', 'obj.__data = copy\\(self.__data\\)', 'obj.__data = self.__data'),
    ('C15', 'core/grammars/defaults.py', '        self.__data\\[name\\] = value', '        self.__data.setdefault(name, value)'),
    ('C15', 'core/grammars/defaults.py', '        if data:\\n            self.update\\(data\\)', '        if data:\n            self.__data.update(data)'),
    ('C15', 'core/grammars/simple_grammar.py', 'self.__names_to_types\\[new_name\\] = self.__names_to_types.pop\\(current_name\\)', 'self.__names_to_types[new_name] = self.__names_to_types[current_name]'),
    ('C15', 'core/grammars/simple_grammar.py', 'grammar.__names_to_types = self.__names_to_types.copy\\(\\)', 'grammar.__names_to_types = self.__names_to_types'),
    ('C15', 'core/grammars/simple_grammar.py', 'if element_name in excluded_names:\\n                continue', 'if element_name in excluded_names:\n                pass'),
    ('C15', 'core/grammars/simple_grammar.py', 'self.__names_to_types\\[element_name\\] = collections.abc.Mapping', 'self.__names_to_types[element_name] = element_type'),
    ('C15', 'core/grammars/simple_grammar.py', '            self.__check_type\\(element_name, element_type\\)\\n', ''),
    ('C15', 'core/grammars/simple_grammar.py', '                and not isinstance\\(data\\[element_name\\], element_type\\)', '                and isinstance(data[element_name], element_type)'),
    ('C15', 'core/grammars/simple_grammar.py', '                and element_type is not None\\n', ''),
    ('C15', 'core/grammars/simple_grammar.py', '                data_is_valid = False', '                data_is_valid = True'),
    ('C15', 'core/grammars/simple_grammar.py', '            del self.__names_to_types\\[element_name\\]', '            pass'),
    ('C15', 'core/grammars/simple_grammar.py', 'if name not in self.__names_to_types:', 'if name in self.__names_to_types:'),
    ('C15', 'core/grammars/simple_grammar.py', '        if merge:', '        if not merge:'),
    ('C15', 'core/grammars/simple_grammar.py', 'if obj is not None and not isinstance\\(obj, type\\):', 'if not isinstance(obj, type):'),
    ('C15', 'core/grammars/simple_grammar.py', 'dict.fromkeys\\(names, ndarray\\)', 'dict.fromkeys(names, None)'),
    ('C15', 'core/grammars/simple_grammar.py', '        del self.__names_to_types\\[name\\]', '        self.__names_to_types.pop(name, None)'),
    ('C15', 'core/grammars/simple_grammar.py', '            self._required_names.clear\\(\\)\\n', ''),
    ('C15', 'core/grammars/simple_grammar.py', '        self.__update\\(grammar.to_simple_grammar\\(\\), excluded_names\\)', '        self.__update(grammar.to_simple_grammar())'),
    ('C15', 'core/grammars/base_grammar.py', '        self._required_names.discard\\(name\\)\\n', ''),
    ('C15', 'core/grammars/base_grammar.py', '        self._defaults.pop\\(name, None\\)\\n', ''),
    ('C15', 'core/grammars/base_grammar.py', '        self._required_names \\|= names_to_types.keys\\(\\)', '        pass'),
    ('C15', 'core/grammars/base_grammar.py', '        self._required_names \\|= data.keys\\(\\)', '        pass'),
    ('C15', 'core/grammars/base_grammar.py', '        self._required_names \\|= set\\(names\\)', '        pass'),
    ('C15', 'core/grammars/base_grammar.py', '        if missing_names:', '        if not missing_names:'),
    ('C15', 'core/grammars/base_grammar.py', '            if raise_exception:', '            if not raise_exception:'),
    ('C15', 'core/grammars/base_grammar.py', '            data_is_valid = self._validate\\(data, error_message\\)', '            data_is_valid = True'),
    ('C15', 'core/grammars/base_grammar.py', '        self._required_names &= set\\(names\\)\\n', ''),
    ('C15', 'core/grammars/base_grammar.py', '            del self._defaults\\[name\\]', '            pass'),
    ('C15', 'core/grammars/base_grammar.py', '        self._check_name\\(\\*names\\)\\n', ''),
    ('C15', 'core/grammars/base_grammar.py', '            self._required_names.remove\\(current_name\\)\\n', ''),
    ('C15', 'core/grammars/base_grammar.py', '        if current_name in self._required_names:', '        if current_name not in self._required_names:'),
    ('C15', 'core/grammars/base_grammar.py', '            self._defaults\\[new_name\\] = self._defaults.pop\\(current_name\\)', '            self._defaults[current_name] = self._defaults.pop(current_name)'),  # (pattern follows fix 384a71e)
    ('C15', 'core/grammars/base_grammar.py', 'k: v for k, v in grammar._defaults.items\\(\\) if k not in excluded_names', 'k: v for k, v in grammar._defaults.items() if k in excluded_names'),
    ('C15', 'core/grammars/base_grammar.py', 'self._required_names \\|= \\(grammar.keys\\(\\) - excluded_names\\).intersection\\(\\n            grammar._required_names.get_names_difference\\(excluded_names\\)\\n        \\)', 'self._required_names |= grammar._required_names.get_names_difference(())'),
    ('C15', 'core/grammars/base_grammar.py', '        if not grammar:\\n            return\\n', ''),
    ('C15', 'core/grammars/base_grammar.py', '        self.to_namespaced\\[name\\] = new_name\\n', ''),
    ('C15', 'core/grammars/base_grammar.py', '        if not name:\\n            msg = \\"The grammar name cannot be empty.\\"\\n            raise ValueError\\(msg\\)\\n', ''),
    ('C15', 'core/grammars/base_grammar.py', '        self.__update_namespaces_from_grammar\\(grammar\\)\\n', ''),
    ('C15', 'core/grammars/base_grammar.py', '        self._required_names = RequiredNames\\(self\\)', '        pass'),
    ('C15', 'core/grammars/base_grammar.py', '        self._defaults = Defaults\\(self, \\{\\}\\)', '        pass'),
    ('C15', 'core/grammars/base_grammar.py', '        self._defaults = Defaults\\(self, data\\)', '        self._defaults = Defaults(self, {})'),
    ('C15', 'core/grammars/base_grammar.py', 'issuperset\\(names\\)', 'issubset(names)'),
    ('C15', 'core/grammars/base_grammar.py', '        self.from_namespaced\\[new_name\\] = name', '        self.from_namespaced[name] = new_name'),
    ('C15', 'core/grammars/base_grammar.py', '        grammar._defaults.update\\(self._defaults\\)\\n', ''),
    ('C15', 'core/grammars/base_grammar.py', 'grammar.to_namespaced = copy\\(self.to_namespaced\\)', 'grammar.to_namespaced = self.to_namespaced'),
    ("C09", "core/derivatives/chain_rule.py", r"diff_ios_merged\[disc_source\]\[1\].extend\(diff_outputs_of_disc\)", "diff_ios_merged[disc_source][1].extend(diff_inputs_of_disc)"),
    ("C09", "core/derivatives/chain_rule.py", r"diff_ios_merged\[disc_source\] = \(diff_inputs_of_disc, diff_outputs_of_disc\)", "diff_ios_merged[disc_source] = (diff_outputs_of_disc, diff_inputs_of_disc)"),
    ("C09", "core/derivatives/chain_rule.py", r"diff_inputs = set\(in_out_1\[0\]\).intersection\(in_out_2\[0\]\)", "diff_inputs = set(in_out_1[0]).intersection(in_out_2[1])"),
    ("C09", "core/derivatives/chain_rule.py", r"if diff_outputs and disc_ios_init\[0\]:", "if diff_inputs and disc_ios_init[0]:"),
    ("C09", "core/derivatives/chain_rule.py", r"            diff_ios_merged\[disc\]\[1\].extend\(diff_outputs\)\n", ""),
    ("C09", "core/derivatives/chain_rule.py", r"_bfs_one_way_diff_io\(graph, source_output_disc, reverse=True\)", "_bfs_one_way_diff_io(graph, source_output_disc, reverse=False)"),
    ("C09", "core/derivatives/chain_rule.py", r"_bfs_one_way_diff_io\(graph, source_input_disc, reverse=False\)", "_bfs_one_way_diff_io(graph, source_output_disc, reverse=False)"),
    ("C09", "core/derivatives/chain_rule.py", r"    _merge_diff_io_special\(\n        source_input_disc, source_output_disc, init_diff_ios, diff_ios_merged\n    \)\n", ""),
    # ---- C04 optimum of the recorded history
    ("C04", "core/mdo_functions/collections/constraints.py", r"return np_all\(np_abs\(constraint_value\) <= self.__tolerances.equality\)", "return np_all(constraint_value <= self.__tolerances.equality)"),
    ("C04", "core/mdo_functions/collections/constraints.py", r"        return np_all\(constraint_value <= self.__tolerances.inequality\)", "        return np_all(constraint_value <= self.__tolerances.equality)"),
    ("C04", "core/mdo_functions/collections/constraints.py", r"            if constraint_value is None or not self.is_constraint_satisfied\(", "            if constraint_value is not None and not self.is_constraint_satisfied("),
    ("C04", "algos/optimization_history.py", r"            if obj_value < f_opt:", "            if obj_value > f_opt:"),
    ("C04", "algos/optimization_history.py", r"                x_opt = feas_x\[i\]", "                x_opt = feas_x[0]"),
    ("C04", "algos/optimization_history.py", r"                    c_opt\[c_name\] = output_values.get\(c_name\)", "                    c_opt[c_name] = feas_f[0].get(c_name)"),
    ("C04", "algos/optimization_history.py", r"            if self.__constraints.is_point_feasible\(output_values\):\n                x_history.append", "            if not self.__constraints.is_point_feasible(output_values):\n                x_history.append"),
    ("C04", "algos/optimization_history.py", r"        best_i = int\(argmin\(array\(viol_criteria\)\)\)", "        best_i = 0"),
    ("C04", "algos/optimization_history.py", r"        return x_history\[best_i\], f_opt, is_feasible\[best_i\], outputs_opt", "        return x_history[-1], f_opt, is_feasible[best_i], outputs_opt"),
    ("C04", "algos/optimization_history.py", r"            return self.Solution\(f_opt, x_opt, False, c_opt, c_opt_grad\)", "            return self.Solution(f_opt, x_opt, True, c_opt, c_opt_grad)"),
    # ---- C10 function algebra, linear functions, constraint aggregations (baseline has known failing clauses: use tools/mutants_rel.py C10)
    ("C10", "core/mdo_functions/_operations.py", r"second_operand = second_operand.func\(input_value\)", "second_operand = self._first_operand.func(input_value)"),
    ("C10", "core/mdo_functions/_operations.py", r"return self._operator\(self._first_operand.func\(input_value\), second_operand\)", "return self._operator(second_operand, self._first_operand.func(input_value))"),
    ("C10", "core/mdo_functions/_operations.py", r'if self._operator_repr == "\+":\n            return self._first_operand._jac', 'if self._operator_repr == "-":\n            return self._first_operand._jac'),
    ("C10", "core/mdo_functions/_operations.py", r"if self._second_operand_is_number:\n            return self._first_operand._jac\(input_value\)", "if self._second_operand_is_number:\n            return 2 * self._first_operand._jac(input_value)"),
    ("C10", "core/mdo_functions/_operations.py", r"                return self._operator\(first_jac, self._second_operand\)", "                return first_jac"),
    ("C10", "core/mdo_functions/_operations.py", r"                return self._operator\(first_jac, self._second_operand\)", "                first_jac *= self._second_operand\n                return first_jac"),
    ("C10", "core/mdo_functions/_operations.py", r"tile\(self._second_operand, \(atleast_2d\(first_jac\).shape\[1\], 1\)\).T,", "tile(self._second_operand, (atleast_2d(first_jac).shape[1], 1)),"),
    ("C10", "core/mdo_functions/_operations.py", r"return first_jac \* second_func \+ second_jac \* first_func", "return first_jac * second_func + second_jac * second_func"),
    ("C10", "core/mdo_functions/_operations.py", r"return first_jac \* second_func \+ second_jac \* first_func", "return first_jac * second_func - second_jac * first_func"),
    ("C10", "core/mdo_functions/_operations.py", r"return \(first_jac \* second_func - second_jac \* first_func\) / second_func\*\*2", "return (first_jac * second_func - second_jac * first_func) / second_func"),
    ("C10", "core/mdo_functions/_operations.py", r"return \(first_jac \* second_func - second_jac \* first_func\) / second_func\*\*2", "return (first_jac * second_func + second_jac * first_func) / second_func**2"),
    # reverting the repair 8b9981c (rows of the Jacobians scaled by the other function's components)
    ("C10", "core/mdo_functions/_operations.py", r"first_func = atleast_1d\(first_func\)\[:, newaxis\]\n            second_func = atleast_1d\(second_func\)\[:, newaxis\]", "first_func = atleast_1d(first_func)\n            second_func = atleast_1d(second_func)"),
    ("C10", "core/mdo_functions/_operations.py", r"first_jac.ndim == 2:", "first_jac.ndim == 1:"),
    ("C10", "core/mdo_functions/_operations.py", r"            second_func = atleast_1d\(second_func\)\[:, newaxis\]\n", "            second_func = atleast_1d(second_func)\n"),
    ("C10", "core/mdo_functions/_operations.py", r"            first_func = atleast_1d\(first_func\)\[:, newaxis\]\n", ""),
    ("C10", "core/mdo_functions/mdo_function.py", r"return -self.evaluate\(x_vect\)", "return self.evaluate(x_vect)"),
    ("C10", "core/mdo_functions/mdo_function.py", r"return -self.jac\(x_vect\)", "return self.jac(x_vect)"),
    ("C10", "core/mdo_functions/mdo_function.py", r"output_value = self.last_eval = self._func\(x_vect\)", "output_value = self._func(x_vect)"),
    ("C10", "core/mdo_functions/mdo_function.py", r"return -self.evaluate\(x_vect\)", "value = self.evaluate(x_vect)\n        value *= -1.0\n        return value"),
    ("C10", "core/mdo_functions/mdo_linear_function.py", r"value = self._coefficients @ x_vect \+ self._value_at_zero", "value = self._coefficients @ x_vect - self._value_at_zero"),
    ("C10", "core/mdo_functions/mdo_linear_function.py", r"value = self._coefficients @ x_vect \+ self._value_at_zero", "value = self._coefficients @ x_vect"),
    ("C10", "core/mdo_functions/mdo_linear_function.py", r"        if value.size == 1:\n            value = value\[0\]\n", ""),
    ("C10", "core/mdo_functions/mdo_linear_function.py", r"return self._coefficients\[0, :\]", "return self._coefficients[:, 0]"),
    ("C10", "core/mdo_functions/mdo_linear_function.py", r"\[0, :\]\n        return self._coefficients\n", "[0, :]\n        return -self._coefficients\n"),
    ("C10", "algos/aggregation/core.py", r"    return np_sum\(scale \* orig_val\*\*2\)", "    return np_sum(scale * orig_val)"),
    ("C10", "algos/aggregation/core.py", r"    return np_sum\(scale \* orig_val\*\*2\)", "    orig_val *= orig_val\n    return np_sum(scale * orig_val)"),
    ("C10", "algos/aggregation/core.py", r"    return np_sum\(\(2 \* scale \* orig_val\).flatten\(\) \* orig_jac.T, axis=1\)", "    return np_sum((scale * orig_val).flatten() * orig_jac.T, axis=1)"),
    ("C10", "algos/aggregation/core.py", r"    return np_sum\(\(2 \* scale \* orig_val\).flatten\(\) \* orig_jac.T, axis=1\)", "    return np_sum((2 * scale * orig_val).flatten() * orig_jac.T, axis=0)"),
    ("C10", "algos/aggregation/core.py", r"jac = full\(\(1, orig_val.size\), 2.0\)", "jac = full((1, orig_val.size), 1.0)"),
    ("C10", "algos/aggregation/core.py", r"jac\[:, indices\] = 2.0 \* scale \* orig_val\[indices\]\n", "jac[:, indices] = 2.0 * scale * orig_val[indices] + 1.0\n"),
    ("C10", "algos/aggregation/core.py", r"    return np_sum\(scale \* \(orig_val\*\*2\) \* heaviside\(orig_val.real, 0\)\)", "    return np_sum(scale * (orig_val**2))"),
    ("C10", "algos/aggregation/core.py", r"\(2 \* scale \* orig_val \* heaviside\(orig_val.real, 0\)\).flatten\(\)", "(2 * scale * orig_val * heaviside(-orig_val.real, 0)).flatten()"),
    ("C10", "algos/aggregation/core.py", r"jac = atleast_2d\(2 \* scale \* orig_val \* heaviside\(orig_val.real, 0.0\)\)", "jac = atleast_2d(2 * scale * orig_val * heaviside(-orig_val.real, 0.0))"),
    ("C10", "algos/aggregation/core.py", r"return array\(\[np_max\(orig_val\)\]\)", "return array([orig_val[0]])"),
    ("C10", "algos/aggregation/core.py", r"i_max = np_argmax\(orig_val\)", "i_max = 0"),
    ("C10", "algos/aggregation/core.py", r"return atleast_2d\(orig_jac\)\[i_max, :\]", "return atleast_2d(orig_jac)[0, :]"),
    ("C10", "algos/aggregation/core.py", r"    return m \+ \(1.0 / rho\) \* log\(sum\(np_exp\(rho \* \(orig_val \+ 1.0 - m\)\)\)\) - 1.0", "    return m + (1.0 / rho) * log(sum(np_exp(rho * (orig_val + 1.0 - m))))"),
    ("C10", "algos/aggregation/core.py", r"compute_upper_bound_ks_agg\(orig_val, indices, rho, scale\) - log\(alpha\) / rho", "compute_upper_bound_ks_agg(orig_val, indices, rho, scale) + log(alpha) / rho"),
    ("C10", "algos/aggregation/core.py", r"    weights = np_exp\(rho \* \(orig_val \+ 1.0 - m\)\).T / div\n    return np_sum", "    weights = np_exp(rho * (orig_val + 1.0 - m)).T\n    return np_sum"),
    ("C10", "algos/aggregation/core.py", r"der = atleast_2d\(multiply\(weights, scale\)\)", "der = atleast_2d(weights)"),
    ("C10", "algos/aggregation/core.py", r"    iks /= sum\(np_exp\(rho \* \(orig_val \+ 1.0 - m\)\)\)", "    iks *= sum(np_exp(rho * (orig_val + 1.0 - m)))"),
    ("C10", "algos/aggregation/core.py", r"    return \(-iks_den_der / iks_den\*\*2\) \* iks_num \+ iks_num_der / iks_den\n", "    return (iks_den_der / iks_den**2) * iks_num + iks_num_der / iks_den\n"),
    ("C10", "algos/aggregation/core.py", r"    iks_d = multiply\(iks_d, scale\)\n", ""),
]

# ---- C17: formulation index bookkeeping (mask / unmask / local offsets), FunctionFromDiscipline
MUTANTS += [
    ("C17", "formulations/base_formulation.py", r"^            start = end$", "            start = end + 1"),
    ("C17", "formulations/base_formulation.py", r"^            end \+= size$", "            end += 1"),
    ("C17", "formulations/base_formulation.py", r"names_to_indices\[name\] = \(start, end, size\)", "names_to_indices[name] = (end, start, size)"),
    ("C17", "formulations/base_formulation.py", r"names_to_indices\[name\] = \(start, end, size\)", "names_to_indices[name] = (start, end, end)"),
    ("C17", "formulations/base_formulation.py", r"= arange\(i_min, i_max\)", "= arange(i_min + 1, i_max + 1)"),
    ("C17", "formulations/base_formulation.py", r"^                i_masked_min = i_masked_max$", "                i_masked_min = i_masked_max - 1"),
    ("C17", "formulations/base_formulation.py", r"i_masked_max \+= loc_size", "i_masked_max += 1"),
    ("C17", "formulations/base_formulation.py", r"total_size = sum\(variable_sizes\[var\] for var in masking_data_names\)", "total_size = sum(variable_sizes[var] for var in design_space)"),
    ("C17", "formulations/base_formulation.py", r"return x_vect\[x_mask\]", "return x_vect[x_mask + 1]"),
    ("C17", "formulations/base_formulation.py", r"i_x \+= n_x", "i_x += 1"),
    ("C17", "formulations/base_formulation.py", r"if key in masking_data_names:", "if key not in masking_data_names:"),
    ("C17", "formulations/base_formulation.py", r"= x_masked\[\.\.\., i_x : i_x \+ n_x\]", "= x_masked[..., i_min:i_max]"),
    ("C17", "formulations/base_formulation.py", r"x_unmask = copy\(x_full\)", "x_unmask = x_full"),
    ("C17", "formulations/base_formulation.py", r"total_size = sum\(variable_sizes\[var\] for var in all_data_names\)", "total_size = sum(variable_sizes[var] for var in masking_data_names)"),
    ("C17", "formulations/base_formulation.py", r"return self.optimization_problem.design_space.variable_names$", "return self.optimization_problem.design_space.variable_names[1:]"),
    ("C17", "core/mdo_functions/function_from_discipline.py", r"evaluate\(x_vect\[self._input_mask\]\)", "evaluate(x_vect)"),
    ("C17", "core/mdo_functions/function_from_discipline.py", r"self.__input_names, self.__all_input_names\n", "self.__differentiated_input_names, self.__all_input_names\n"),
    ("C17", "core/mdo_functions/function_from_discipline.py", r"            self.__all_differentiated_input_names,\n        \)", "            self.__differentiated_input_names,\n        )"),
    ("C17", "core/mdo_functions/function_from_discipline.py", r"self.__discipline_adapter.jac\(x_vect\[self._input_mask\]\),", "self.__discipline_adapter.jac(x_vect),"),
    # ---- C07 Jacobian assembly: block placement, inverse slicing, derivation mode
    ("C07", "core/derivatives/jacobian_assembly.py", r"            row \+= self.sizes\[function\]", "            row += 1"),
    ("C07", "core/derivatives/jacobian_assembly.py", r"if is_residual and function == variable:", "if function == variable:"),
    ("C07", "core/derivatives/jacobian_assembly.py", r"fill_diagonal\(jacobian_copy, jacobian.diagonal\(\) - 1\)", "fill_diagonal(jacobian_copy, jacobian.diagonal() + 1)"),
    ("C07", "core/derivatives/jacobian_assembly.py", r"jacobian_copy.setdiag\(jacobian.diagonal\(\) - 1\)", "jacobian_copy.setdiag(jacobian.diagonal())"),
    ("C07", "core/derivatives/jacobian_assembly.py", r"jacobian = -eye\(variable_size, dtype=int\)", "jacobian = eye(variable_size, dtype=int)"),
    ("C07", "core/derivatives/jacobian_assembly.py", r"jacobian_copy = jacobian.copy\(\)", "jacobian_copy = jacobian"),
    ("C07", "core/derivatives/jacobian_assembly.py", r"                column \+= variable_size", "                if jacobian is not None:\n                    column += variable_size"),
    ("C07", "core/derivatives/jacobian_assembly.py", r"row_index=row_index,\n                            column_index=column_index,", "row_index=column_index,\n                            column_index=row_index,"),
    ("C07", "core/derivatives/jacobian_assembly.py", r"column_slice=slice\(column, column \+ jacobian.shape\[1\]\)", "column_slice=slice(column, column + jacobian.shape[0])"),
    ("C07", "core/derivatives/jacobian_assembly.py", r"total_jacobian\[position.row_index\]\[position.column_index\] = csr_matrix\(", "total_jacobian[position.column_index][position.row_index] = csr_matrix("),
    ("C07", "core/derivatives/jacobian_assembly.py", r"total_jacobian_0\[j\] = csr_matrix\(\(function_sizes_0, variable_size\)\)", "total_jacobian_0[j] = csr_matrix((variable_size, function_sizes_0))"),
    ("C07", "core/derivatives/jacobian_assembly.py", r"total_jacobian\[i\]\[0\] = csr_matrix\(\(function_size, variable_sizes_0\)\)", "total_jacobian[i][0] = csr_matrix((function_size, function_size))"),
    ("C07", "core/derivatives/jacobian_assembly.py", r"functions, variables, is_residual=is_residual\n", "functions, variables, is_residual=False\n"),
    ("C07", "core/derivatives/jacobian_assembly.py", r"        jacobian_generator = self._get_jacobian_generator\(\n            functions, variables,", "        jacobian_generator = self._get_jacobian_generator(\n            variables, functions,"),
    ("C07", "core/derivatives/jacobian_assembly.py", r"        if n_variables <= n_functions:", "        if n_variables < n_functions:"),
    ("C07", "core/derivatives/jacobian_assembly.py", r"            return cls.DerivationMode.DIRECT\n        return cls.DerivationMode.ADJOINT", "            return cls.DerivationMode.ADJOINT\n        return cls.DerivationMode.DIRECT"),
    ("C07", "core/derivatives/jacobian_assembly.py", r"        if mode != cls.DerivationMode.AUTO:\n            return mode", "        if mode == cls.DerivationMode.DIRECT:\n            return mode"),
    ("C07", "core/derivatives/jacobian_assembly.py", r"return sum\(self.sizes\[name\] for name in names\)", "return sum(self.sizes[name] for name in names) + 1"),
    ("C07", "core/derivatives/jacobian_assembly.py", r"                i_out \+= size", "                i_out += 1"),
    ("C07", "core/derivatives/jacobian_assembly.py", r"function_jac\[:, i_out : i_out \+ size\]", "function_jac[:, i_out : i_out + size + 1]"),
    ("C07", "core/derivatives/jacobian_assembly.py", r"        for function, function_jac in coupled_system.items\(\):\n            i_out = 0", "        i_out = 0\n        for function, function_jac in coupled_system.items():"),
    ("C07", "core/derivatives/jacobian_assembly.py", r"sub_jac\[variable\] = function_jac\[:, i_out : i_out \+ size\]", "sub_jac[variable] = function_jac[:, i_out : i_out + size].T"),
    ("C07", "core/derivatives/jacobian_assembly.py", r"            return self._assemble_jacobian_as_matrix\(\n                functions,\n                variables,", "            return self._assemble_jacobian_as_matrix(\n                variables,\n                functions,"),
    # ---- C11 HDF export bookkeeping (algos/_hdf_database.py)
    ("C11", "algos/_hdf_database.py", r"if existing_array is None or not array_equal\(", "if existing_array is not None and not array_equal("),
    ("C11", "algos/_hdf_database.py", r"        if str_index_dataset in design_vars_group:", "        if str_index_dataset not in design_vars_group:"),
    ("C11", "algos/_hdf_database.py", r"            keys_group\[name\]\.resize\(\(offset \+ len\(keys\),\)\)", "            keys_group[name].resize((len(keys),))"),
    ("C11", "algos/_hdf_database.py", r"            keys_group\[name\]\[offset:\] = keys", "            keys_group[name][0:] = keys"),
    ("C11", "algos/_hdf_database.py", r"            offset = len\(values_group\[name\]\)\n", "            offset = 0\n"),
    ("C11", "algos/_hdf_database.py", r"            values_group\[name\]\.resize\(\(offset \+ len\(values\),\)\)", "            values_group[name].resize((offset + len(values) + 1,))"),
    ("C11", "algos/_hdf_database.py", r"            str\(idx_sub_group\), data=self\.__to_real\(value\), dtype=float64", "            str(index_dataset), data=self.__to_real(value), dtype=float64"),
    ("C11", "algos/_hdf_database.py", r'sub_group_name = f"arr_\{index_dataset\}"', 'sub_group_name = f"arr_{idx_sub_group}"'),
    ("C11", "algos/_hdf_database.py", r"zip\(output_keys_sorted, range\(len\(output_values\)\)\)", "zip(output_keys_sorted, range(1, len(output_values) + 1))"),
    ("C11", "algos/_hdf_database.py", r"            if isinstance\(value, \(ndarray, list\)\):\n                self\.__add_hdf_vector_output", "            if not isinstance(value, (ndarray, list)):\n                self.__add_hdf_vector_output"),
    ("C11", "algos/_hdf_database.py", r"        if values:\n            self\.__add_hdf_scalar_output", "        if not values:\n            self.__add_hdf_scalar_output"),
    ("C11", "algos/_hdf_database.py", r"            idx_value = output_name_to_idx\[name\]", "            idx_value = output_name_to_idx[output_keys_sorted[0]]"),
    ("C11", "algos/_hdf_database.py", r"            if name not in existing_output_names\n", "            if name in existing_output_names\n"),
    ("C11", "algos/_hdf_database.py", r"missing_ids = list\(range\(len\(existing_output_names\), len\(output_values\)\)\)", "missing_ids = list(range(0, len(output_values)))"),
    ("C11", "algos/_hdf_database.py", r"        if name not in keys_group:\n            msg", "        if name in keys_group:\n            msg"),
    ("C11", "algos/_hdf_database.py", r"        if added_values:\n", "        if not added_values:\n"),
    ("C11", "algos/_hdf_database.py", r"        self\.__add_hdf_input_dataset\(index_dataset, design_vars_group, input_values\)\n", "        pass\n"),
    # ---- C18 RBF kernel derivatives
    ("C18", "mlearning/regression/algos/rbf.py", r"            return 3 \* norm_input_data \* input_data\n", "            return 3 * norm_input_data * input_data / eps**3\n"),
    ("C18", "mlearning/regression/algos/rbf.py", r"            return 5 \* norm_input_data\*\*3 \* input_data\n", "            return 5 * norm_input_data**2 * input_data\n"),
    ("C18", "mlearning/regression/algos/rbf.py", r"                \* input_data\n                / \(norm_input_data \+ cls.TOL\)", "                * input_data\n                / eps\n                / (norm_input_data + cls.TOL)"),
    ("C18", "mlearning/regression/algos/rbf.py", r"return input_data / eps\*\*2 / sqrt\(\(norm_input_data / eps\) \*\* 2 \+ 1\)", "return input_data / eps / sqrt((norm_input_data / eps) ** 2 + 1)"),
    ("C18", "mlearning/regression/algos/rbf.py", r"return -2 \* input_data / eps\*\*2 \* exp", "return -input_data / eps**2 * exp"),
    ("C18", "mlearning/regression/algos/rbf.py", r"\(\(norm_input_data / eps\) \*\* 2 \+ 1\) \*\* 1.5", "((norm_input_data / eps) ** 2 + 1) ** 0.5"),
    ("C18", "mlearning/regression/algos/rbf.py", r"                \* \(1 \+ 2 \* log\(norm_input_data \+ cls.TOL\)\)", "                * (1 + log(norm_input_data + cls.TOL))"),
    # ---- C07 coupled system: direct / adjoint modes over the abstract matrix ring
    ("C07", "core/derivatives/jacobian_assembly.py", r"            self.linear_problem.rhs = -dres_dx\[:, var_index\]", "            self.linear_problem.rhs = dres_dx[:, var_index]"),
    ("C07", "core/derivatives/jacobian_assembly.py", r"            dy_dx\[:, var_index\] = self.linear_problem.solution", "            dy_dx[:, 0] = self.linear_problem.solution"),
    ("C07", "core/derivatives/jacobian_assembly.py", r"            jac\[fun\] = dfun_dx\[fun\].toarray\(\) \+ dfun_dy\[fun\].dot\(dy_dx\)\n        return jac\n\n    def _adjoint_mode\(", "            jac[fun] = dfun_dx[fun].toarray() - dfun_dy[fun].dot(dy_dx)\n        return jac\n\n    def _adjoint_mode("),
    ("C07", "core/derivatives/jacobian_assembly.py", r"        self.linear_problem = LinearProblem\(dres_dy\)\n", "        self.linear_problem = LinearProblem(dres_dx)\n"),
    ("C07", "core/derivatives/jacobian_assembly.py", r"                self.linear_problem.rhs = -dfunction_dy\[fun_component, :\].T", "                self.linear_problem.rhs = dfunction_dy[fun_component, :].T"),
    ("C07", "core/derivatives/jacobian_assembly.py", r"adjoint = self.linear_problem.solution\n                self.n_linear_resolutions \+= 1\n                jac\[fun\]\[fun_component, :\] = \(\n                    dfunction_dx\[fun_component, :\] \+ \(dres_dx.T.dot\(adjoint\)\).T",
     "adjoint = self.linear_problem.solution\n                self.n_linear_resolutions += 1\n                jac[fun][fun_component, :] = (\n                    dfunction_dx[fun_component, :] + (dres_dx.dot(adjoint)).T"),
    ("C07", "core/derivatives/jacobian_assembly.py", r"        self.linear_problem = LinearProblem\(dres_dy_t\)", "        self.linear_problem = LinearProblem(dres_dy_t.T)"),
    ("C07", "core/derivatives/jacobian_assembly.py", r"adjoint = self.linear_problem.solution\n                self.n_linear_resolutions \+= 1\n                jac\[fun\]\[fun_component, :\] = \(", "adjoint = self.linear_problem.solution\n                self.n_linear_resolutions += 1\n                jac[fun][0, :] = ("),
    ("C07", "core/derivatives/jacobian_assembly.py", r"adjoint = self.linear_problem.solution\n                self.n_linear_resolutions \+= 1\n                jac\[fun\]\[fun_component, :\] = \(\n                    dfunction_dx\[fun_component, :\] \+",
     "adjoint = self.linear_problem.solution\n                self.n_linear_resolutions += 1\n                jac[fun][fun_component, :] = (\n                    dfunction_dx[0, :] +"),
]
MUTANTS += [
    ("C17", "core/mdo_functions/consistency_constraint.py", r"return \(coupl - x_sw\) / self.__norm_fact", "return (coupl + x_sw) / self.__norm_fact"),
    ("C17", "core/mdo_functions/consistency_constraint.py", r"        return coupl - x_sw$", "        return x_sw - coupl"),
    ("C17", "core/mdo_functions/consistency_constraint.py", r"return \(coupl - x_sw\) / self.__norm_fact", "return (coupl - x_sw) * self.__norm_fact"),
    ("C17", "formulations/base_formulation.py", r"for name in optim_variable_names if name in input_names\]", "for name in optim_variable_names if name not in input_names]"),
    # ---- C01 preprocessing: EvaluationProblem._preprocess_function / preprocess_functions, MDOLinearFunction.normalize
    ("C01", "algos/evaluation_problem.py", r"round_ints = any\(", "round_ints = all("),
    ("C01", "algos/evaluation_problem.py", r"is_function_input_normalized_ = False", "is_function_input_normalized_ = True"),
    ("C01", "algos/evaluation_problem.py", r"                functions\[index\] = function\n", "                pass\n"),
    ("C01", "algos/evaluation_problem.py", r"        if self._functions_are_preprocessed:\n            return\n\n        if round_ints", "        if round_ints"),
    ("C01", "algos/evaluation_problem.py", r"variable_type == DesignSpace.DesignVariableType.INTEGER", "variable_type == DesignSpace.DesignVariableType.FLOAT"),
    ("C01", "algos/evaluation_problem.py", r"                    getattr\(self, function_name\),\n                    is_function_input_normalized=is_function_input_normalized,", "                    getattr(self, function_name),\n                    is_function_input_normalized=False,"),
    ("C01", "algos/evaluation_problem.py", r"func_seq = \(ds.unnormalize_vect, ds.round_vect, function.func\)", "func_seq = (ds.unnormalize_vect, function.func)"),
    ("C01", "algos/evaluation_problem.py", r"jac_seq = \(ds.round_vect, function.jac, \*args\)", "jac_seq = (ds.round_vect, function.jac, *args, ds.normalize_grad)"),
    ("C01", "algos/evaluation_problem.py", r"self.database if use_database else None", "self.database"),
    ("C01", "algos/evaluation_problem.py", r"args = \(\) if support_sparse_jacobian else", "args = () if not support_sparse_jacobian else"),
    ("C01", "algos/evaluation_problem.py", r"            jac_seq = \(ds.unnormalize_vect, function.jac, \*args, ds.normalize_grad\)", "            jac_seq = (ds.unnormalize_vect, function.jac, ds.normalize_grad, *args)"),
    ("C01", "algos/evaluation_problem.py", r"elif is_function_input_normalized:\n            expects_normalized_inputs = True", "elif is_function_input_normalized:\n            expects_normalized_inputs = False"),
    ("C01", "algos/evaluation_problem.py", r"            and not round_ints\n", "            and round_ints\n"),
    ("C01", "algos/evaluation_problem.py", r"            function = function.normalize\(self.design_space\)\n", "            pass\n"),
    ("C01", "algos/evaluation_problem.py", r"            isinstance\(function, MDOLinearFunction\)\n            and not round_ints\n            and is_function_input_normalized\n", "            isinstance(function, MDOLinearFunction)\n            and not round_ints\n"),
    ("C01", "core/mdo_functions/mdo_linear_function.py", r"shift = where\(norm_policies, input_space.get_lower_bounds\(\), 0.0\)", "shift = where(norm_policies, input_space.get_upper_bounds(), 0.0)"),
    ("C01", "core/mdo_functions/mdo_linear_function.py", r"coefficients = multiply\(self.coefficients, norm_factors\)", "coefficients = self.coefficients"),
    ("C01", "core/mdo_functions/mdo_linear_function.py", r"coefficients = multiply\(self.coefficients, norm_factors\)", "self._coefficients *= norm_factors\n            coefficients = self._coefficients"),
    ("C01", "core/mdo_functions/mdo_linear_function.py", r"coefficients = deepcopy\(self.coefficients\)", "coefficients = self.coefficients.tocsr()"),
    ("C01", "core/mdo_functions/mdo_linear_function.py", r"coefficients.data \*= norm_factors\[coefficients.indices\]", "coefficients.data *= shift[coefficients.indices]"),
    ("C01", "core/mdo_functions/mdo_linear_function.py", r"        value_at_zero = self.evaluate\(shift\)\n        function = MDOLinearFunction\(\n            coefficients,", "        value_at_zero = self.evaluate(shift)\n        function = MDOLinearFunction(\n            self.coefficients,"),
    ("C01", "core/mdo_functions/mdo_linear_function.py", r"        function.expects_normalized_inputs = True\n", "        function.expects_normalized_inputs = False\n"),
    ("C01", "core/mdo_functions/mdo_linear_function.py", r"            input_space.get_upper_bounds\(\) - input_space.get_lower_bounds\(\),\n            1.0,", "            input_space.get_upper_bounds() - input_space.get_lower_bounds(),\n            0.0,"),
    ("C01", "core/mdo_functions/mdo_linear_function.py", r"value = self._coefficients @ x_vect \+ self._value_at_zero", "value = self._coefficients @ x_vect - self._value_at_zero"),
    ("C01", "core/mdo_functions/mdo_linear_function.py", r"            return self._coefficients\[0, :\]", "            return self._coefficients[:, 0]"),
    ("C01", "core/mdo_functions/mdo_linear_function.py", r"        if value.size == 1:\n            value = value\[0\]\n", ""),
]
MUTANTS += [
    ("C17", "formulations/idf.py", r"if not strong_couplings.issubset\(variable_names\):", "if strong_couplings.issubset(variable_names):"),
    ("C17", "formulations/idf.py", r"strong_couplings = set\(self.all_couplings\)", "strong_couplings = set(self.all_couplings[1:])"),
]

MUTANTS += [
    # ---- C17 IDF normalization factor (protects the repair of the degenerate factor)
    ("C17", "formulations/idf.py", r"            factor\[~isfinite\(factor\) \| \(factor == 0.0\)\] = 1.0\n", ""),
    ("C17", "formulations/idf.py", r"            factor\[~isfinite\(factor\) \| \(factor == 0.0\)\] = 1.0", "            factor[~isfinite(factor)] = 1.0"),
    ("C17", "formulations/idf.py", r"            factor\[~isfinite\(factor\) \| \(factor == 0.0\)\] = 1.0", "            factor[isfinite(factor) | (factor == 0.0)] = 1.0"),
]

MUTANTS += [
    # ---- C15 JSONGrammar cache-invalidation protocol (contracts/c15_json_grammar.py)
    ("C15", "core/grammars/json_grammar.py", r"        del self.__schema_builder\[name\]\n        self.__init_dependencies\(\)", "        del self.__schema_builder[name]\n        self.__validator = None"),
    ("C15", "core/grammars/json_grammar.py", r"        del self.__schema_builder\[name\]\n        self.__init_dependencies\(\)", "        del self.__schema_builder[name]\n        self.__schema = {}"),
    ("C15", "core/grammars/json_grammar.py", r"            self.__schema_builder.properties.pop\(current_name\)\n        \)\n        self.__init_dependencies\(\)", "            self.__schema_builder.properties.pop(current_name)\n        )"),
    ("C15", "core/grammars/json_grammar.py", r"self.__schema_builder.properties\[new_name\] = \(", "self.__schema_builder.properties[current_name] = ("),
    ("C15", "core/grammars/json_grammar.py", r"        self.__schema_builder = MutableMappingSchemaBuilder\(\)\n        self.__init_dependencies\(\)", "        self.__schema_builder = MutableMappingSchemaBuilder()\n        self.__validator = None"),
    ("C15", "core/grammars/json_grammar.py", r"            del self.__schema_builder\[element_name\]\n        self.__init_dependencies\(\)", "            del self.__schema_builder[element_name]"),
    ("C15", "core/grammars/json_grammar.py", r"for element_name in self.__schema_builder.keys\(\) - names:", "for element_name in self.__schema_builder.keys() - names:\n            break\n        for element_name in ():"),
    ("C15", "core/grammars/json_grammar.py", r"        self.__validator = None\n        self.__schema = \{\}", "        self.__validator = None"),
    ("C15", "core/grammars/json_grammar.py", r"        self.__validator = None\n        self.__schema = \{\}", "        self.__schema = {}"),
    ("C15", "core/grammars/json_grammar.py", r"            self.__schema_builder.add_object\(\{name: \[0.0\]\}, not merge\)\n        self.__schema_builder.required.clear\(\)\n        self.__init_dependencies\(\)", "            self.__schema_builder.add_object({name: [0.0]}, not merge)\n        self.__schema_builder.required.clear()"),
    ("C15", "core/grammars/json_grammar.py", r"            self.__schema_builder.add_object\(\{name: \[0.0\]\}, not merge\)\n        self.__schema_builder.required.clear\(\)", "            self.__schema_builder.add_object({name: [0.0]}, not merge)"),
    ("C15", "core/grammars/json_grammar.py", r"self.__schema_builder.add_object\(self.__cast_data_mapping\(data\), not merge\)\n        self.__schema_builder.required.clear\(\)\n        self.__init_dependencies\(\)", "self.__schema_builder.add_object(self.__cast_data_mapping(data), not merge)\n        self.__schema_builder.required.clear()\n        self.__validator = None"),
    ("C15", "core/grammars/json_grammar.py", r"        self.__schema_builder.add_schema\(schema_builder, not merge\)\n        self.__init_dependencies\(\)", "        self.__schema_builder.add_schema(schema_builder, not merge)\n        self.__schema = {}"),
    ("C15", "core/grammars/json_grammar.py", r"            schema_builder = deepcopy\(grammar.__schema_builder\)", "            schema_builder = grammar.__schema_builder"),
    ("C15", "core/grammars/json_grammar.py", r"                if name in schema_builder:\n                    del schema_builder\[name\]", "                if name in schema_builder:\n                    pass"),
    ("C15", "core/grammars/json_grammar.py", r"        self.__schema_builder.add_schema\(schema, not merge\)\n        self.__init_dependencies\(\)\n        self._required_names \|=", "        self.__schema_builder.add_schema(schema, not merge)\n        self.__validator = None\n        self._required_names |="),
    ("C15", "core/grammars/json_grammar.py", r'        self._required_names \|= set\(schema.get\("required", \(\)\)\)\n        self.__schema_builder.required.clear\(\)', '        self._required_names |= set(schema.get("required", ()))'),
    ("C15", "core/grammars/json_grammar.py", r"        if not self.__schema or self._required_names", "        if not self.__validator or self._required_names"),
    ("C15", "core/grammars/json_grammar.py", r"        yield\n        self.__schema_builder.required.clear\(\)", "        yield"),
    # (compiling `self.__schema_builder.to_schema()` instead of the cache is an EQUIVALENT mutant: the builder's own required set is empty outside schema/to_json)
    ("C15", "core/grammars/json_grammar.py", r'        schema.pop\("required", None\)\n', ""),
    ("C15", "core/grammars/json_grammar.py", r"        if self.__validator is None:\n            self._create_validator\(\)", "        if self.__validator is None and not self.__schema:\n            self._create_validator()"),
    ("C15", "core/grammars/json_grammar.py", r"            return False\n\n        return True", "            return True\n\n        return True"),
    ("C15", "core/grammars/json_grammar.py", r"        return self.__schema_builder\[name\]", "        return self.__schema_builder.get(name)"),
    # ---- C20 JSONGrammar.__getstate__ (contracts/c20_state.py)
    ("C20", "core/grammars/json_grammar.py", r'        state\["defaults"\] = dict\(state.pop\("_defaults"\)\)', '        state.setdefault("defaults", dict(state.pop("_defaults")))'),
    ("C20", "core/grammars/json_grammar.py", r'        state\["defaults"\] = dict\(state.pop\("_defaults"\)\)', '        state["_defaults"] = dict(state.pop("_defaults"))'),
    ("C20", "core/grammars/json_grammar.py", r'        del state\[f"_\{self.__class__.__name__\}__schema_builder"\]', '        del state[f"_{self.__class__.__name__}__schema"]'),
    ("C20", "core/grammars/json_grammar.py", r'        del state\[f"_\{self.__class__.__name__\}__validator"\]\n', ''),
    ("C20", "core/grammars/json_grammar.py", r"        state = dict\(self.__dict__\)", "        state = self.__dict__"),
    # ---- C20 HDF5Cache state (contracts/c20_state.py)
    ("C20", "caches/hdf5_cache.py", r'"hdf_node_path": self.__hdf_node_path,', '"hdf_node_path": self.name,'),
    ("C20", "caches/hdf5_cache.py", r'"hdf_file_path": self.__hdf_file.hdf_file_path,', '"hdf_file_path": self.__hdf_node_path,'),
    ("C20", "caches/hdf5_cache.py", r'            "name": self.name,\n        \}\n\n    def __setstate__', '        }\n\n    def __setstate__'),
    ("C20", "caches/hdf5_cache.py", r"        self.__hdf_node_path = hdf_node_path\n", "        self.__hdf_node_path = name or hdf_node_path\n"),
    ("C20", "caches/hdf5_cache.py", r"HDF5FileSingleton\(str\(hdf_file_path\)\)", "HDF5FileSingleton(str(hdf_node_path))"),
    ("C20", "caches/hdf5_cache.py", r"super\(\).__init__\(tolerance, name or hdf_node_path\)", "super().__init__(tolerance, hdf_node_path)"),
    ("C20", "caches/hdf5_cache.py", r"        self.__class__.__init__\(self, \*\*state\)", '        self.__class__.__init__(self, state["tolerance"], state["name"], state["hdf_file_path"])'),
]

MUTANTS += [
    # ---- C20 JSONGrammar.__setstate__ (contracts/c20_state.py)
    ("C20", "core/grammars/json_grammar.py", r'        self._defaults.update\(cast\("StrKeyMapping", state.pop\("defaults"\)\)\)', '        state.pop("defaults")'),
    ("C20", "core/grammars/json_grammar.py", r"        self.__dict__.update\(state\)\n", ""),
    ("C20", "core/grammars/json_grammar.py", r'        self.__schema_builder.add_schema\(\n            state\[f"_\{self.__class__.__name__\}__schema"\], True\n        \)\n', ""),
    ("C20", "core/grammars/json_grammar.py", r"        # That will create the missing attributes.\n        self.clear\(\)\n        self.__dict__.update\(state\)", "        self.__dict__.update(state)\n        self.clear()"),
]

MUTANTS += [
    # ---- C15 JSONGrammar._update_from_types / to_json
    ("C15", "core/grammars/json_grammar.py", r"        self.__schema_builder.add_schema\(schema, not merge\)\n        self.__init_dependencies\(\)\n\n    def _clear", "        self.__schema_builder.add_schema(schema, not merge)\n        self.__validator = None\n\n    def _clear"),
    ("C15", "core/grammars/json_grammar.py", r"        self.__schema_builder.add_schema\(schema, not merge\)\n        self.__init_dependencies\(\)\n\n    def _clear", "        self.__init_dependencies()\n\n    def _clear"),
    ("C15", "core/grammars/json_grammar.py", r'            "properties": properties,\n', ''),
    ("C15", "core/grammars/json_grammar.py", r'            "type": "object",\n            "properties": properties,\n', '            "type": "object",\n            "properties": properties,\n            "required": list(properties),\n'),
    ("C15", "core/grammars/json_grammar.py", r"        with self.__sync_required_names\(\):\n            return cast", "        self.__schema_builder.required.update(self._required_names)\n        if True:\n            return cast"),
]
MUTANTS += [
    # C09 chains (contracts/c09_chains.py): request cache of MDOChain, sums of the additive chain
    ("C09", "core/chains/chain.py", r"if self._last_diff_inouts != diff_ios:", "if self._last_diff_inouts == diff_ios:"),
    ("C09", "core/chains/chain.py", r"diff_ios = \(set\(input_names\), set\(output_names\)\)", "diff_ios = (set(input_names), set(input_names))"),
    ("C09", "core/chains/chain.py", r"self._coupling_structure.graph.graph, input_names, output_names\n", "self._coupling_structure.graph.graph, output_names, input_names\n"),
    ("C09", "core/chains/chain.py", r"if self._last_diff_inouts != diff_ios:", "if self._last_diff_inouts is None or not diff_ios[0] <= self._last_diff_inouts[0]:"),
    ("C09", "core/chains/chain.py", r"            self._last_diff_inouts = diff_ios\n", "            self._last_diff_inouts = (diff_ios[1], diff_ios[0])\n"),
    ("C09", "core/chains/additive_chain.py", r"= sum\(disciplinary_jacobians\)", "= disciplinary_jacobians[0]"),
    ("C09", "core/chains/additive_chain.py", r"= sum\(disciplinary_jacobians\)", "= -sum(disciplinary_jacobians)"),
    ("C09", "core/chains/additive_chain.py", r"                    if input_name in discipline.jac.get\(output_name, \(\)\)", "                    if input_name not in discipline.jac.get(output_name, ())"),
    ("C09", "core/chains/additive_chain.py", r"                    for discipline in self.disciplines\n                    if input_name", "                    for discipline in self.disciplines[1:]\n                    if input_name"),
    ("C09", "core/chains/additive_chain.py", r"            self.jac\[output_name\] = \{\}\n", "            pass\n"),
    ("C09", "core/chains/additive_chain.py", r"                if disciplinary_jacobians:\n", "                if disciplinary_jacobians:\n                    first_jacobian = disciplinary_jacobians[0]\n                    first_jacobian *= 2.0\n"),
    # reverting the repair ee4b1a3 (KeyError / AssertionError when a discipline has no Jacobian entry for a summed output)
    ("C09", "core/chains/additive_chain.py", r"discipline.jac.get\(output_name, \(\)\)", "discipline.jac[output_name]"),
    ("C09", "core/chains/additive_chain.py", r"                if disciplinary_jacobians:\n", "                assert disciplinary_jacobians\n                if True:\n"),
    # ---- C16 / C13 parallel forward differences (contracts/c16_approx.py)
    ("C13", "utils/derivatives/finite_differences.py", r"step = full\(n_perturbations, step\)\n\n        self._function_kwargs", "step = full(n_perturbations, self.step)\n\n        self._function_kwargs"),
    ("C13", "utils/derivatives/finite_differences.py", r"functions = \[self._wrap_function\] \* \(n_perturbations \+ 1\)", "functions = [self._wrap_function] * n_perturbations"),
    ("C13", "utils/derivatives/finite_differences.py", r"perturbated_output = initial_and_perturbated_outputs\[perturbation_index \+ 1\]", "perturbated_output = initial_and_perturbated_outputs[perturbation_index]"),
    ("C16", "utils/derivatives/finite_differences.py", r"initial_output = initial_and_perturbated_outputs\[0\]", "initial_output = initial_and_perturbated_outputs[1]"),
    ("C13", "utils/derivatives/finite_differences.py", r"execute\(\[\n            input_values,\n            \*perturbated_inputs,\n        \]\)", "execute([\n            *perturbated_inputs,\n            input_values,\n        ])"),
    ("C16", "utils/derivatives/finite_differences.py", r"perturbation_index \+ 1\]\n            g_approx = \(perturbated_output - initial_output\) / step\[perturbation_index\]", "perturbation_index + 1]\n            g_approx = (perturbated_output - initial_output) * step[perturbation_index]"),
    ("C16", "utils/derivatives/finite_differences.py", r"            input_perturbations\[:, perturbation_index\]\n            for perturbation_index in range\(n_perturbations\)", "            input_perturbations[:, 0]\n            for perturbation_index in range(n_perturbations)"),
    # ---- C16 Jacobian-check indices (contracts/c16_approx.py)
    ("C16", "utils/derivatives/derivatives_approx.py", r"            variable_position \+= variable_size", "            variable_position += len(indices_sequence[-1])"),
    ("C16", "utils/derivatives/derivatives_approx.py", r"                variable_index \+ variable_position\n", "                variable_index\n"),
    ("C16", "utils/derivatives/derivatives_approx.py", r"        variable_position = 0\n", "        variable_position = 1\n"),
    ("C16", "utils/derivatives/derivatives_approx.py", r"            if indices_sequence\[-1\] in \(Ellipsis, None\):\n                indices_sequence\[-1\] = variable_indices", "            if indices_sequence[-1] in (Ellipsis, None):\n                indices_sequence[-1] = []"),
    ("C16", "utils/derivatives/derivatives_approx.py", r"indices.get\(variable_name, variable_indices\)", "indices.get(variable_name, [])"),
    ("C16", "utils/derivatives/derivatives_approx.py", r"indices_sequence\[-1\] = variable_indices\[indices_sequence\[-1\]\]", "indices_sequence[-1] = variable_indices"),
    ("C16", "utils/derivatives/derivatives_approx.py", r"            names_to_indices\[variable_name\] = indices_sequence\[-1\]\n", "            names_to_indices[variable_name] = variable_indices\n"),
    # ---- C05/C11 HDF5 cache file (caches/_hdf5_file_singleton.py)
    ("C11", "caches/_hdf5_file_singleton.py", r"        value = value\.tocsr\(\)\n", "        if not hasattr(value, \"indptr\"):\n            value = value.tocsr()\n"),
    ("C11", "caches/_hdf5_file_singleton.py", r"dataset\.attrs\.create\(self\.__SparseMatricesAttribute\.INDICES, value\.indices\)", "dataset.attrs.create(self.__SparseMatricesAttribute.INDICES, value.indptr)"),
    ("C11", "caches/_hdf5_file_singleton.py", r"        dataset\.attrs\.create\(self\.__SparseMatricesAttribute\.SPARSE, True\)\n", "        pass\n"),
    ("C11", "caches/_hdf5_file_singleton.py", r"return csr_array\(\(dataset, indices, indptr\), shape\)", "return csr_array((dataset, indptr, indices), shape)"),
    ("C05", "caches/_hdf5_file_singleton.py", r"                        elif isinstance\(value, sparse_classes\):\n                            self\.__write_sparse_array\(entry_group, name, value\)\n", ""),
    ("C05", "caches/_hdf5_file_singleton.py", r"entry_group\.create_dataset\(name, data=value\.astype\(\"bytes\"\)\)", "entry_group.create_dataset(name, data=to_real(value))"),
    ("C05", "caches/_hdf5_file_singleton.py", r"            entry_group = entry\.require_group\(group\)", "            entry_group = entry.require_group(self.HASH_TAG + group)"),
    ("C05", "caches/_hdf5_file_singleton.py", r"                if entry\.get\(self\.HASH_TAG\) is None:", "                if entry.get(self.HASH_TAG) is not None:"),
    ("C05", "caches/_hdf5_file_singleton.py", r"                if dataset\.attrs\.get\(self\.__SparseMatricesAttribute\.SPARSE\):\n", "                if not dataset.attrs.get(self.__SparseMatricesAttribute.SPARSE):\n"),
    ("C05", "caches/_hdf5_file_singleton.py", r"                if value\.dtype\.type is bytes_:\n", "                if value.dtype.type is str_:\n"),
    ("C05", "caches/_hdf5_file_singleton.py", r"            entry = root\[str\(index\)\]\n", "            entry = root[str(index + 1)]\n"),
    ("C05", "caches/_hdf5_file_singleton.py", r"        return entry\.get\(group\) is not None", "        return entry.get(group) is None"),
    # ---- C16 centered differences: perturbation matrix (contracts/c16_approx.py)
    ("C16", "utils/derivatives/centered_differences.py", r"input_perturbations\[input_indices, range\(n_indices, 2 \* n_indices\)\] -= step", "input_perturbations[input_indices, range(n_indices, 2 * n_indices)] += step"),
    ("C16", "utils/derivatives/centered_differences.py", r"            input_perturbations\[input_indices, range\(n_indices\)\] \+= step\n", "            input_perturbations[input_indices, range(n_indices)] += 2 * step\n"),
    ("C16", "utils/derivatives/centered_differences.py", r"            input_perturbations\[input_indices, range\(n_indices, 2 \* n_indices\)\] -= step\n            return input_perturbations, step", "            input_perturbations[input_indices, range(n_indices, 2 * n_indices)] -= step\n            return input_perturbations, 2 * step"),
]

# ---- C14 DOE libraries (contracts/c14_doe.py)
MUTANTS += [
    # Seeder.get_seed
    ("C14", "utils/seeder.py", r"        self\.default_seed \+= 1\n", "        self.default_seed += 2\n"),
    ("C14", "utils/seeder.py", r"return self\.default_seed if seed is None else seed", "return self.default_seed - 1 if seed is None else seed"),
    ("C14", "utils/seeder.py", r"        self\.default_seed \+= 1\n        return self\.default_seed if seed is None else seed", "        if seed is None:\n            self.default_seed += 1\n        return self.default_seed if seed is None else seed"),
    ("C14", "utils/seeder.py", r"return self\.default_seed if seed is None else seed", "return seed if seed is None else self.default_seed"),
    # integer-normalisation flag helpers
    ("C14", "algos/doe/base_doe_library.py", r"        enabled = not design_space\.enable_integer_variables_normalization\n", "        enabled = design_space.enable_integer_variables_normalization\n"),
    ("C14", "algos/doe/base_doe_library.py", r"        if enabled:\n            design_space\.enable_integer_variables_normalization = True\n", "        if enabled:\n            pass\n"),
    ("C14", "algos/doe/base_doe_library.py", r"        if enabled:\n            design_space\.enable_integer_variables_normalization = False\n", "        if not enabled:\n            design_space.enable_integer_variables_normalization = False\n"),
    ("C14", "algos/doe/base_doe_library.py", r"        if enabled:\n            design_space\.enable_integer_variables_normalization = False\n", "        if enabled:\n            design_space.enable_integer_variables_normalization = True\n"),
    ("C14", "algos/doe/base_doe_library.py", r"        if enabled:\n            design_space\.enable_integer_variables_normalization = True\n\n        return enabled", "        if enabled:\n            design_space.enable_integer_variables_normalization = True\n\n        return True"),
    # __check_unnormalization_capability
    ("C14", "algos/doe/base_doe_library.py", r"hstack\(list\(design_space\.normalize\.values\(\)\)\) == 0\)", "hstack(list(design_space.normalize.values())) == 1)"),
    ("C14", "algos/doe/base_doe_library.py", r"        if components:\n            msg", "        if not components:\n            msg"),
    ("C14", "algos/doe/base_doe_library.py", r"        if not cls\._USE_UNIT_HYPERCUBE or isinstance\(design_space, ParameterSpace\):", "        if cls._USE_UNIT_HYPERCUBE or isinstance(design_space, ParameterSpace):"),
    ("C14", "algos/doe/base_doe_library.py", r"hstack\(list\(design_space\.normalize\.values\(\)\)\) == 0\)\[0\]\)", "hstack(list(design_space.normalize.values())[1:]) == 0)[0])"),
    # compute_doe
    ("C14", "algos/doe/base_doe_library.py", r"        if unit_sampling:\n            return unit_samples\n", "        if not unit_sampling:\n            return unit_samples\n"),
    ("C14", "algos/doe/base_doe_library.py", r"        samples = design_space\.untransform_vect\(unit_samples, no_check=True\)\n        if isinstance\(design_space, DesignSpace\):\n            self\.__reset_integer_variables_normalization\(\n                design_space, integer_normalization_enabled\n            \)\n", "        samples = design_space.untransform_vect(unit_samples, no_check=True)\n"),
    ("C14", "algos/doe/base_doe_library.py", r"                integer_normalization_enabled = \(\n                    self\.__enable_integer_variables_normalization\(design_space\)\n                \)\n", "                integer_normalization_enabled = False\n"),
    ("C14", "algos/doe/base_doe_library.py", r"        samples = design_space\.untransform_vect\(unit_samples, no_check=True\)\n        if isinstance", "        samples = design_space.untransform_vect(unit_samples, no_check=True)\n        samples = unit_samples\n        if isinstance"),
    ("C14", "algos/doe/base_doe_library.py", r"        samples = design_space\.untransform_vect\(unit_samples, no_check=True\)\n        if isinstance\(design_space, DesignSpace\):\n            self\.__reset_integer_variables_normalization\(\n                design_space, integer_normalization_enabled\n            \)\n", "        if isinstance(design_space, DesignSpace):\n            self.__reset_integer_variables_normalization(\n                design_space, integer_normalization_enabled\n            )\n        samples = design_space.untransform_vect(unit_samples, no_check=True)\n"),
    ("C14", "algos/doe/base_doe_library.py", r"            model_to_exclude=BaseDOESettings,\n", "            model_to_exclude=DOEAlgorithmDescription,\n"),
    # _pre_run / __convert_unit_samples_to_samples
    ("C14", "algos/doe/base_doe_library.py", r"        self\.__reset_integer_variables_normalization\(\n            design_space, integer_normalization_enabled\n        \)\n        self\._init_iter_observer", "        self._init_iter_observer"),
    ("C14", "algos/doe/base_doe_library.py", r"        self\.samples = self\.__convert_unit_samples_to_samples\(problem\)\n", "        self.samples = self.unit_samples\n"),
    ("C14", "algos/doe/base_doe_library.py", r"        integer_normalization_enabled = self\.__enable_integer_variables_normalization\(\n            design_space\n        \)\n", "        integer_normalization_enabled = False\n"),
    ("C14", "algos/doe/base_doe_library.py", r"        self\.samples = self\.__convert_unit_samples_to_samples\(problem\)\n        self\.__reset_integer_variables_normalization\(\n            design_space, integer_normalization_enabled\n        \)\n", "        self.__reset_integer_variables_normalization(\n            design_space, integer_normalization_enabled\n        )\n        self.samples = self.__convert_unit_samples_to_samples(problem)\n"),
    ("C14", "algos/doe/base_doe_library.py", r"        samples = design_space\.untransform_vect\(self\.unit_samples, no_check=True\)\n", "        samples = design_space.untransform_vect(self.unit_samples * 2, no_check=True)\n"),
    ("C14", "algos/doe/base_doe_library.py", r"        samples = design_space\.untransform_vect\(self\.unit_samples, no_check=True\)\n", "        samples = design_space.untransform_vect(self.samples, no_check=True)\n"),
]
MUTANTS += [
    # ---- C18 transformers / pipeline / surrogate discipline (contracts/c18_transformers.py)
    ("C18", "mlearning/transformers/scaler/scaler.py", r"return data @ diag\(self.coefficient\) \+ self.offset", "return data @ diag(self.coefficient) - self.offset"),
    ("C18", "mlearning/transformers/scaler/scaler.py", r"return data @ diag\(self.coefficient\) \+ self.offset", "return data @ diag(1 / self.coefficient) + self.offset"),
    ("C18", "mlearning/transformers/scaler/scaler.py", r"\(data - self.offset\) @ diag\(1 / self.coefficient\)", "(data + self.offset) @ diag(1 / self.coefficient)"),
    ("C18", "mlearning/transformers/scaler/scaler.py", r"\(data - self.offset\) @ diag\(1 / self.coefficient\)", "(data - self.offset) @ diag(self.coefficient)"),
    ("C18", "mlearning/transformers/scaler/scaler.py", r"return tile\(diag\(self.coefficient\), \(len\(data\), 1, 1\)\)", "return tile(diag(1 / self.coefficient), (len(data), 1, 1))"),
    ("C18", "mlearning/transformers/scaler/scaler.py", r"return tile\(diag\(1 / self.coefficient\), \(len\(data\), 1, 1\)\)", "return tile(diag(self.coefficient), (len(data), 1, 1))"),
    ("C18", "mlearning/transformers/scaler/scaler.py", r"return tile\(diag\(self.coefficient\), \(len\(data\), 1, 1\)\)", "return tile(diag(self.coefficient), (1, 1, 1))"),
    ("C18", "mlearning/transformers/scaler/scaler.py", r"data.shape\[-1\], self.parameters\[self.__COEFFICIENT\]\[0\]", "data.shape[0], self.parameters[self.__COEFFICIENT][0]"),
    ("C18", "mlearning/transformers/scaler/scaler.py", r"data.shape\[-1\], self.parameters\[self.__OFFSET\]\[0\]", "data.shape[-1], self.parameters[self.__COEFFICIENT][0]"),
    ("C18", "mlearning/transformers/scaler/scaler.py", r"self.parameters\[self.__OFFSET\] = atleast_1d\(value\)", "self.parameters[self.__COEFFICIENT] = atleast_1d(value)"),
    ("C18", "mlearning/transformers/scaler/min_max_scaler.py", r"where\(is_constant, 1 / where\(l_b == 0, 1, l_b\), 1 / delta\)", "where(is_constant, 1 / delta, 1 / where(l_b == 0, 1, l_b))"),
    ("C18", "mlearning/transformers/scaler/min_max_scaler.py", r"where\(l_b == 0, 1, l_b\)", "where(l_b == 0, 0, l_b)"),
    ("C18", "mlearning/transformers/scaler/min_max_scaler.py", r"-l_b / delta\)", "l_b / delta)"),
    ("C18", "mlearning/transformers/scaler/min_max_scaler.py", r"where\(l_b == 0, 0.5, -0.5\)", "where(l_b == 0, -0.5, 0.5)"),
    ("C18", "mlearning/transformers/scaler/min_max_scaler.py", r"delta = data.max\(0\) - l_b", "delta = data.max(0)"),
    ("C18", "mlearning/transformers/scaler/standard_scaler.py", r"where\(mean == 0, 0, -1\)", "where(mean == 0, -1, 0)"),
    ("C18", "mlearning/transformers/scaler/standard_scaler.py", r"-mean / std\)", "-mean * std)"),
    ("C18", "mlearning/transformers/scaler/standard_scaler.py", r"1 / where\(mean == 0, 1, mean\), 1 / std\)", "1 / where(mean == 0, 1, mean), std)"),
    ("C18", "mlearning/transformers/scaler/standard_scaler.py", r"is_constant = std == 0", "is_constant = std != 0"),
    ("C18", "mlearning/transformers/pipeline.py", r"data = transformer.transform\(data\)\n        return data", "data = transformer.inverse_transform(data)\n        return data"),
    ("C18", "mlearning/transformers/pipeline.py", r"data = transformer.inverse_transform\(data\)\n        return data", "data = transformer.transform(data)\n        return data"),
    ("C18", "mlearning/transformers/pipeline.py", r"data = transformer.transform\(data\)\n        return data", "transformer.transform(data)\n        return data"),
    ("C18", "mlearning/transformers/pipeline.py", r"jacobian = transformer.compute_jacobian\(data\) @ jacobian", "jacobian = jacobian @ transformer.compute_jacobian(data)"),
    ("C18", "mlearning/transformers/pipeline.py", r"            jacobian = transformer.compute_jacobian\(data\) @ jacobian\n            data = transformer.transform\(data\)\n", "            data = transformer.transform(data)\n            jacobian = transformer.compute_jacobian(data) @ jacobian\n"),
    ("C18", "mlearning/transformers/pipeline.py", r"jacobian = transformer.compute_jacobian_inverse\(data\) @ jacobian", "jacobian = jacobian @ transformer.compute_jacobian_inverse(data)"),
    ("C18", "mlearning/transformers/pipeline.py", r"jacobian = transformer.compute_jacobian_inverse\(data\) @ jacobian", "jacobian = transformer.compute_jacobian(data) @ jacobian"),
    ("C18", "mlearning/transformers/pipeline.py", r"data = transformer.inverse_transform\(data\)\n        return jacobian", "data = transformer.transform(data)\n        return jacobian"),
    ("C18", "mlearning/transformers/pipeline.py", r"jacobian = eye\(data.shape\[-1\]\)\n        for transformer in self.transformers:", "jacobian = eye(data.shape[0])\n        for transformer in self.transformers:"),
    ("C18", "disciplines/surrogate.py", r"output_data\[name\] = value.flatten\(\)", "output_data[name] = value"),
    ("C18", "disciplines/surrogate.py", r"output_data\[name\] = value.flatten\(\)", "output_data[name] = value.flatten()\n            break"),
    ("C18", "disciplines/surrogate.py", r"        self._init_jacobian\(input_names, output_names, self.InitJacobianType.EMPTY\)\n        self.jac = self.regression_model.predict_jacobian\(self.io.get_input_data\(\)\)", "        self.jac = self.regression_model.predict_jacobian(self.io.get_input_data())\n        self._init_jacobian(input_names, output_names, self.InitJacobianType.EMPTY)"),
    ("C18", "disciplines/surrogate.py", r"self.jac = self.regression_model.predict_jacobian\(self.io.get_input_data\(\)\)", "self.regression_model.predict_jacobian(self.io.get_input_data())"),
    # ---- C16 centered differences: quotients (contracts/c16_approx.py)
    ("C16", "utils/derivatives/centered_differences.py", r"\(f\(input_plus, \*\*kwargs\) - f\(input_minus, \*\*kwargs\)\)", "(f(input_minus, **kwargs) - f(input_plus, **kwargs))"),
    ("C16", "utils/derivatives/centered_differences.py", r"                / norm\(input_plus - input_minus\)\n            \)\.real\n            for input_plus, input_minus in zip", "                / norm(input_plus)\n            ).real\n            for input_plus, input_minus in zip"),
    ("C16", "utils/derivatives/centered_differences.py", r"        n_perturbations_ = int\(len\(input_perturbations\) / 2\)\n        f = self.f_pointer", "        n_perturbations_ = int(len(input_perturbations) / 2) - 1\n        f = self.f_pointer"),
    ("C16", "utils/derivatives/centered_differences.py", r"for input_plus, input_minus in zip\(\n                input_perturbations\[:n_perturbations_\],\n                input_perturbations\[n_perturbations_ : 2 \* n_perturbations_\]", "for input_plus, input_minus in zip(\n                input_perturbations[:n_perturbations_],\n                input_perturbations[:n_perturbations_]"),
]

MUTANTS += [
    # DiagonalDOE._generate_unit_samples
    ("C14", "algos/doe/diagonal_doe/diagonal_doe.py", r"                start = 1\.0\n                end = 0\.0\n", "                start = 0.0\n                end = 1.0\n"),
    ("C14", "algos/doe/diagonal_doe/diagonal_doe.py", r"linspace\(start, end, n_samples\)", "linspace(start, end, n_samples + 1)"),
    ("C14", "algos/doe/diagonal_doe/diagonal_doe.py", r"if str\(index\) in reverse or name_by_index\[index\] in reverse:", "if str(index) in reverse and name_by_index[index] in reverse:"),
    ("C14", "algos/doe/diagonal_doe/diagonal_doe.py", r"            start \+= size\n", "            start += 1\n"),
    ("C14", "algos/doe/diagonal_doe/diagonal_doe.py", r"                name_by_index\[index\] = name\n", "                name_by_index[index + 1] = name\n"),
    ("C14", "algos/doe/diagonal_doe/diagonal_doe.py", r"            size = design_space\.get_size\(name\)\n", "            size = design_space.get_size(name) + 1\n"),
    ("C14", "algos/doe/diagonal_doe/diagonal_doe.py", r"                start = 0\.0\n                end = 1\.0\n", "                start = 0.0\n                end = 2.0\n"),
    ("C14", "algos/doe/diagonal_doe/diagonal_doe.py", r"if str\(index\) in reverse or name_by_index\[index\] in reverse:", "if str(index + 1) in reverse or name_by_index[index] in reverse:"),
]
MUTANTS += [
    # ---- C18 MOERegressor, hard classification (contracts/c18_transformers.py)
    ("C18", "mlearning/regression/algos/moe.py", r"jacobians\[inds_kls\] = self.regress_models\[klass\].predict_jacobian\(", "jacobians[inds_kls] = self.regress_models[klass]._predict_jacobian("),
    ("C18", "mlearning/regression/algos/moe.py", r"jacobians\[inds_kls\] = self.regress_models\[klass\].predict_jacobian\(", "jacobians[inds_kls] = self.regress_models[0].predict_jacobian("),
    ("C18", "mlearning/regression/algos/moe.py", r"inds_kls = \(classes == klass\).nonzero\(\)\[0\]", "inds_kls = (classes != klass).nonzero()[0]"),
    ("C18", "mlearning/regression/algos/moe.py", r"output_data\[:, i\] = self.regress_models\[i\].predict\(input_data\)", "output_data[:, i] = self.regress_models[i]._predict(input_data)"),
    ("C18", "mlearning/regression/algos/moe.py", r"output_data\[:, i\] = self.regress_models\[i\].predict\(input_data\)", "output_data[:, i] = self.regress_models[0].predict(input_data)"),
    ("C18", "mlearning/regression/algos/moe.py", r"output_data\[:, i\] = self.regress_models\[i\].predict\(input_data\)", "output_data[:, 0] = self.regress_models[i].predict(input_data)"),
    # ---- C11 HDFDatabase.to_file
    ("C11", "algos/_hdf_database.py", r"                    output_values = database\[input_values\]\n                    index_dataset = input_values_to_idx", "                    output_values = database[input_values]\n                    if not output_values:\n                        continue\n                    index_dataset = input_values_to_idx"),
    ("C11", "algos/_hdf_database.py", r"value: key for key, value in enumerate\(database\.keys\(\)\)", "value: key for key, value in enumerate(database.keys(), 1)"),
    ("C11", "algos/_hdf_database.py", r"                    if str\(index_dataset\) in design_vars_grp:", "                    if str(index_dataset) not in design_vars_grp:"),
    ("C11", "algos/_hdf_database.py", r"                    index_dataset \+= 1", "                    index_dataset += 2"),
    ("C11", "algos/_hdf_database.py", r"        self\.__pending_arrays\.clear\(\)", "        pass"),
    ("C11", "algos/_hdf_database.py", r'h5py\.File\(file_path, "a" if append else "w"\)', 'h5py.File(file_path, "a")'),
    ("C11", "algos/_hdf_database.py", r"            if append and len\(design_vars_grp\) != 0:", "            if append and len(design_vars_grp) == 0:"),
    # ---- C08 strong / weak coupling sets (contracts/c08_coupling.py)
    ("C08", "core/coupling_structure.py", r"                elif add_self_coupled:", "                if add_self_coupled:"),
    ("C08", "core/coupling_structure.py", r"                if len\(component\) > 1:\n                    strong_disc_update", "                if len(component) > 2:\n                    strong_disc_update"),
    ("C08", "core/coupling_structure.py", r"                        if self.is_self_coupled\(discipline\):\n                            strong_disc_update", "                        if not self.is_self_coupled(discipline):\n                            strong_disc_update"),
    ("C08", "core/coupling_structure.py", r"                    strong_disc_update\(component\)  # type", "                    strong_disc_update(component[:1])  # type"),
    ("C08", "core/coupling_structure.py", r"strong_couplings.update\(set\(inputs\) & set\(outputs\)\)", "strong_couplings.update(set(inputs) | set(outputs))"),
    ("C08", "core/coupling_structure.py", r"outputs = itertools.chain\(\*\(disc.io.output_grammar for disc in group\)\)", "outputs = itertools.chain(*(disc.io.output_grammar for disc in self.disciplines))"),
    ("C08", "core/coupling_structure.py", r"strong_couplings.update\(set\(inputs\) & set\(outputs\)\)", "strong_couplings = set(inputs) & set(outputs)"),
    ("C08", "core/coupling_structure.py", r"for group in self.get_strongly_coupled_disciplines\(by_group=True\):\n            inputs = itertools.chain\(\*\(disc.io.input_grammar for disc in group\)\)", "for group in self.get_strongly_coupled_disciplines(by_group=True):\n            inputs = itertools.chain(*(disc.io.output_grammar for disc in group))"),
    ("C08", "core/coupling_structure.py", r"if len\(component\) == 1 and not self.is_self_coupled\(component\[0\]\):", "if len(component) == 1:"),
    ("C08", "core/coupling_structure.py", r"if len\(component\) == 1 and not self.is_self_coupled\(component\[0\]\):", "if not self.is_self_coupled(component[0]):"),
    ("C08", "core/coupling_structure.py", r"                    weak_disciplines.append\(component\[0\]\)  # noqa: PERF401", "                    weak_disciplines = [component[0]]"),
    ("C08", "core/coupling_structure.py", r"weak_couplings.update\(weak_discipline.io.output_grammar\)", "weak_couplings.update(weak_discipline.io.input_grammar)"),
    ("C08", "core/coupling_structure.py", r"weak_couplings.update\(weak_discipline.io.output_grammar\)", "weak_couplings = set(weak_discipline.io.output_grammar)"),
]

# ---- C03 driver side (contracts/c03_driver.py): execute / listeners / iteration observer / early-stopping result
MUTANTS += [
    ("C03", "algos/base_driver_library.py", r"            except TerminationCriterion as termination_criterion:", "            except MaxIterReachedException as termination_criterion:"),
    ("C03", "algos/base_driver_library.py", r"        self\._clear_listeners\(problem\)\n        if is_optimization_problem:", "        if is_optimization_problem:"),
    ("C03", "algos/base_driver_library.py", r"                if is_optimization_problem:\n                    problem: OptimizationProblem\n                    result = self\._get_early_stopping_result\(\n                        problem, termination_criterion\n                    \)", "                pass"),
    ("C03", "algos/base_driver_library.py", r"        listeners\.append\(self\._new_iteration_callback\)\n", "        pass\n"),
    ("C03", "algos/base_driver_library.py", r"        # Clear the state of _problem; the cache of the AlgoFactory can be used\.\n        self\._problem = None\n", ""),
    ("C03", "algos/base_driver_library.py", r"                self\._pre_run\(problem, \*\*settings\)\n                args = ", "                args = "),
    ("C03", "algos/base_driver_library.py", r"        result = None\n        with \(", "        result = None\n        self._pre_run(problem, **settings)\n        with ("),
    ("C03", "algos/base_driver_library.py", r"                # The listener was not in the database\.\n                self\.__new_iter_listeners\.add\(listener\)", "                pass"),
    ("C03", "algos/base_driver_library.py", r"            if problem\.database\.add_new_iter_listener\(listener\):", "            if not problem.database.add_new_iter_listener(listener):"),
    ("C03", "algos/base_driver_library.py", r"        self\.__new_iter_listeners\.clear\(\)\n", "        pass\n"),
    ("C03", "algos/base_driver_library.py", r"new_iter_listeners=self\.__new_iter_listeners or None, store_listeners=None", "new_iter_listeners=None, store_listeners=None"),
    ("C03", "algos/base_driver_library.py", r"        problem\.evaluation_counter\.maximum = max_iter\n", "        problem.evaluation_counter.maximum = max_iter + 1\n"),
    ("C03", "algos/base_driver_library.py", r"            0 if self\.__reset_iteration_counters else problem\.evaluation_counter\.current", "            problem.evaluation_counter.current"),
    ("C03", "algos/base_driver_library.py", r"        if isinstance\(termination_criterion, MaxIterReachedException\):", "        if isinstance(termination_criterion, MaxTimeReached):"),
    ("C03", "algos/base_driver_library.py", r"        return self\._get_result\(problem, message, None\)", "        return None"),
    ("C03", "algos/base_driver_library.py", r'        message \+= "GEMSEO stopped the driver\."\n', ""),
    ("C03", "algos/base_driver_library.py", r"problem, message=message, status=status, optimizer_name=self\._algo_name", "problem, message=status, status=message, optimizer_name=self._algo_name"),
    ("C03", "algos/database.py", r"        if function in listeners:\n            return False", "        if function in listeners:\n            return True"),
    ("C03", "algos/database.py", r"            for listener in new_iter_listeners:\n                self\.__new_iter_listeners\.remove\(listener\)", "            for listener in new_iter_listeners:\n                pass"),
    ("C03", "algos/database.py", r"            new_iter_listeners = self\.__new_iter_listeners\n            self\.__new_iter_listeners = \[\]", "            new_iter_listeners = self.__new_iter_listeners"),
    ("C03", "algos/stop_criteria.py", r"class MaxTimeReached\(TerminationCriterion\):", "class MaxTimeReached(Exception):"),
]

MUTANTS += [
    # CustomDOE._generate_unit_samples / _USE_UNIT_HYPERCUBE
    ("C14", "algos/doe/custom_doe/custom_doe.py", r"        if samples\.shape\[1\] != dimension:", "        if samples.shape[0] != dimension:"),
    ("C14", "algos/doe/custom_doe/custom_doe.py", r"        if samples\.shape\[1\] != dimension:", "        if samples.shape[1] > dimension:"),
    ("C14", "algos/doe/custom_doe/custom_doe.py", r"        return apply_along_axis\(design_space\.transform_vect, axis=1, arr=samples\)", "        return apply_along_axis(design_space.transform_vect, axis=1, arr=samples * 2)"),
    ("C14", "algos/doe/custom_doe/custom_doe.py", r"        return apply_along_axis\(design_space\.transform_vect, axis=1, arr=samples\)", "        return samples"),
    ("C14", "algos/doe/custom_doe/custom_doe.py", r"    _USE_UNIT_HYPERCUBE: ClassVar\[bool\] = False", "    _USE_UNIT_HYPERCUBE: ClassVar[bool] = True"),
    # DesignSpace.unnormalize_vect / round_vect on a batch of unit samples (numerical level)
    ("C14", "algos/design_space.py", r"            out\[\.\.\., norm_inds\] \+= lower_bounds\[norm_inds\]", "            out[..., norm_inds] -= lower_bounds[norm_inds]"),
    ("C14", "algos/design_space.py", r"            out\[\.\.\., norm_inds\] \*= self\._norm_factor\[norm_inds\]\n\n        if minus_lb:", "            out[..., norm_inds] *= self._norm_factor_inv[norm_inds]\n\n        if minus_lb:"),
    ("C14", "algos/design_space.py", r"            self\.round_vect\(out, copy=False\)", "            self.round_vect(out, copy=True)"),
    ("C14", "algos/design_space.py", r"        if minus_lb and not self\.__no_integer:\n            self\.round_vect", "        if minus_lb and self.__no_integer:\n            self.round_vect"),
    ("C14", "algos/design_space.py", r"        rounded_x_vect\[\.\.\., are_integers\] = np_round\(x_vect\[\.\.\., are_integers\]\)", "        rounded_x_vect[..., are_integers] = x_vect[..., are_integers]"),
    ("C14", "algos/design_space.py", r"        rounded_x_vect\[\.\.\., are_integers\] = np_round\(x_vect\[\.\.\., are_integers\]\)", "        rounded_x_vect[..., ~are_integers] = np_round(x_vect[..., ~are_integers])"),
    ("C14", "algos/design_space.py", r"        rounded_x_vect = x_vect\.copy\(\) if copy else x_vect", "        rounded_x_vect = x_vect.copy()"),
]

MUTANTS += [
    # ---- C17 (c17_build): IDF._build_constraints / IDF.__init__ / get_top_level_disciplines
    ("C17", "formulations/idf.py", r"                        constraint,\n                        zeros", "                        constraint.coupling_function,\n                        zeros"),
    ("C17", "formulations/idf.py", r"            if couplings:\n", "            if not couplings:\n"),
    ("C17", "formulations/idf.py", r"                discipline, strong=False\n", "                discipline, strong=True\n"),
    ("C17", "formulations/idf.py", r"                if discipline_adapter\.is_linear:", "                if not discipline_adapter.is_linear:"),
    ("C17", "formulations/idf.py", r"                        f_type=constraint\.ConstraintType\.EQ,", "                        f_type=constraint.ConstraintType.INEQ,"),
    ("C17", "formulations/idf.py", r"zeros\(discipline_adapter\.input_dimension\)", "zeros(discipline_adapter.input_dimension + 1)"),
    ("C17", "formulations/idf.py", r"                self\.optimization_problem\.add_constraint\(constraint\)", "                self.optimization_problem.add_constraint(constraint)\n                self.optimization_problem.add_constraint(constraint)"),
    ("C17", "formulations/idf.py", r"^                self\.optimization_problem\.add_constraint\(constraint\)", "            self.optimization_problem.add_constraint(constraint)"),
    ("C17", "formulations/idf.py", r"        for discipline in self\.disciplines:\n            couplings", "        for discipline in self.disciplines[1:]:\n            couplings"),
    ("C17", "formulations/idf.py", r"ConsistencyConstraint\(couplings, self\)", "ConsistencyConstraint(self.all_couplings, self)"),
    ("C17", "formulations/idf.py", r"        self\._update_design_space\(\)\n        self\.normalize_constraints = self\._settings\.normalize_constraints\n        self\._build_constraints\(\)",
     "        self.normalize_constraints = self._settings.normalize_constraints\n        self._build_constraints()\n        self._update_design_space()"),
    ("C17", "formulations/idf.py", r"        self\.normalize_constraints = self\._settings\.normalize_constraints\n        self\._build_constraints\(\)",
     "        self._build_constraints()\n        self.normalize_constraints = self._settings.normalize_constraints"),
    ("C17", "formulations/idf.py", r"        self\.all_couplings = self\.coupling_structure\.all_couplings", "        self.all_couplings = self.coupling_structure.strong_couplings"),
    ("C17", "formulations/idf.py", r"        self\._build_constraints\(\)\n", "        pass\n"),
    ("C17", "formulations/idf.py", r"        self\.coupling_structure = CouplingStructure\(disciplines\)", "        self.coupling_structure = CouplingStructure(disciplines[1:])"),
    ("C17", "formulations/idf.py", r"        if self\._parallel_exec is not None:\n            return \(self\._parallel_exec,\)", "        if self._parallel_exec is None:\n            return (self._parallel_exec,)"),
    ("C17", "formulations/idf.py", r"        # Otherwise the disciplines are top level\n        return self\.disciplines", "        return self.disciplines[:1]"),
    # ---- C17 (c17_build): which variables stay in the design space
    ("C17", "formulations/base_formulation.py", r"            if name not in all_inputs:", "            if name in all_inputs:"),
    ("C17", "formulations/base_formulation.py", r"        for name in design_space\.variable_names:\n            if name not in all_inputs:", "        for name in design_space.variable_names[1:]:\n            if name not in all_inputs:"),
    ("C17", "formulations/base_formulation.py", r"for disc in disciplines for var in disc\.io\.input_grammar\}", "for disc in disciplines for var in disc.io.output_grammar}"),
    ("C17", "formulations/base_formulation.py", r"        disciplines = self\.get_top_level_disciplines\(\)\n        all_inputs", "        disciplines = self.disciplines\n        all_inputs"),
    ("C17", "formulations/base_formulation.py", r"                design_space\.remove_variable\(name\)\n                LOGGER", "                pass\n                LOGGER"),
    ("C17", "formulations/mdf.py", r"        self\._remove_couplings_from_ds\(\)\n", "        pass\n"),
    ("C17", "formulations/mdf.py", r"        # Cleanup\n        self\._remove_unused_variables\(\)", "        pass"),
    ("C17", "formulations/mdf.py", r"        return \(self\.mda,\)", "        return self.disciplines"),
]

MUTANTS += [
    # ---- reverts of the five JSONGrammar repairs (0717736, 63aba35, 02afd7d, e774076, 034df8e)
    ("C15", "core/grammars/json_grammar.py", r"        schema = dict\(self.schema\)", "        schema = self.schema"),
    ("C15", "core/grammars/json_schema.py", r"            required = strategy._required = set\(\)", "            return set()"),
    ("C15", "core/grammars/json_grammar.py", r'self._required_names \|= set\(schema.get\("required", \(\)\)\)', "self._required_names |= self.__schema_builder.required"),
    ("C15", "core/grammars/json_grammar.py", r'        if not self.__schema or self._required_names != set\(\n            self.__schema.get\("required", \(\)\)\n        \):', "        if not self.__schema:"),
    ("C15", "core/grammars/json_grammar.py", r'self._required_names != set\(\n            self.__schema.get\("required", \(\)\)', 'self._required_names > set(\n            self.__schema.get("required", ())'),
    ("C20", "core/grammars/json_grammar.py", r"        # The required names are handled by the base class.\n        self.__schema_builder.required.clear\(\)\n", ""),
    ("C20", "core/grammars/json_grammar.py", r"        # The required names are handled by the base class.\n        self.__schema_builder.required.clear\(\)\n        self._defaults.update", "        self._defaults.update(state.pop('defaults'))\n        self.__schema_builder.required.clear()\n        self.__schema_builder.add_schema(state[f'_{self.__class__.__name__}__schema'], True)\n        state.setdefault"),
]

MUTANTS += [
    # ---- C15 live views of the schema builder (c15_json_grammar.BuilderRequired / BuilderProperties)
    ("C15", "core/grammars/json_schema.py", r"            required = strategy._required = set\(\)", "            required = set()"),
    ("C15", "core/grammars/json_schema.py", r'        return cast\("set\[str\]", required\)', '        return set(required)'),
    ("C15", "core/grammars/json_schema.py", r"                self._root_node._active_strategies\[0\]._properties,", "                dict(self._root_node._active_strategies[0]._properties),"),
    # ---- C16 complex step (contracts/c16_complex.py): reverts of fde9871 + semantic mutants
    ("C16", "utils/derivatives/complex_step.py", r"/ input_perturbations\[:, perturbation_index\]\.imag\.sum\(\)\n            \)\n\n        return gradient", "/ input_perturbations[perturbation_index, perturbation_index].imag\n            )\n\n        return gradient"),
    ("C13", "utils/derivatives/complex_step.py", r"/ input_perturbations\[:, perturbation_index\]\.imag\.sum\(\)\n            for perturbation_index", "/ input_perturbations[perturbation_index, perturbation_index].imag\n            for perturbation_index"),
    ("C16", "utils/derivatives/complex_step.py", r"where\(input_values == 0\.0, 1\.0, input_values\)\[input_indices\]", "where(input_values == 0.0, 0.0, input_values)[input_indices]"),
    ("C16", "utils/derivatives/complex_step.py", r"\] = 1j \* x_nnz \* step", "] = 1j * x_nnz"),
    ("C16", "utils/derivatives/complex_step.py", r"input_perturbations\[input_indices, range\(n_indices\)\] = 1j", "input_perturbations[range(n_indices), input_indices] = 1j"),
    ("C16", "utils/derivatives/complex_step.py", r"perturbated_output\.imag\n", "perturbated_output.real\n"),
    ("C13", "utils/derivatives/complex_step.py", r"            perturbed_outputs\[perturbation_index\]\.imag\n", "            perturbed_outputs[0].imag\n"),
    ("C13", "utils/derivatives/complex_step.py", r"functions = \[self._wrap_function\] \* n_perturbations", "functions = [self._wrap_function] * (n_perturbations - 1)"),
    # ---- C16 centered differences with a design space (contracts/c16_centered.py): reverts of 04a9b48 + semantic mutants
    ("C16", "utils/derivatives/centered_differences.py", r"\+ step\n            > upper_bounds\[input_indices\],", "+ step\n            > upper_bounds,"),
    ("C16", "utils/derivatives/centered_differences.py", r"input_perturbations\[input_indices, range\(n_indices\)\] \+ step\n            > upper_bounds\[input_indices\],", "input_perturbations[input_indices, range(n_indices)]\n            >= upper_bounds[input_indices],"),
    ("C16", "utils/derivatives/centered_differences.py", r"2 \* n_indices\)\] - step\n            < lower_bounds\[input_indices\],", "2 * n_indices)]\n            <= lower_bounds[input_indices],"),
    ("C16", "utils/derivatives/centered_differences.py", r"            0,\n            -step,\n        \)", "            -step,\n            0,\n        )"),
    ("C16", "utils/derivatives/centered_differences.py", r"steps = concatenate\(\[steps_plus, steps_minus\], axis=-1\)", "steps = concatenate([steps_minus, steps_plus], axis=-1)"),
]
MUTANTS += [
    # C09 MDOChain.copy_jacs (deep, fresh copies)
    ("C09", "core/chains/chain.py", r"output_jacobian_copy\[input_name\] = derivatives.copy\(\)", "output_jacobian_copy[input_name] = derivatives"),
    ("C09", "core/chains/chain.py", r"                jacobian_copy\[output_name\] = output_jacobian_copy\n", "                jacobian_copy[output_name] = output_jacobian\n"),
    ("C09", "core/chains/chain.py", r"output_jacobian_copy\[input_name\] = derivatives.copy\(\)", "output_jacobian_copy[output_name] = derivatives.copy()"),
    ("C09", "core/chains/chain.py", r"                jacobian_copy\[output_name\] = output_jacobian_copy\n", "                pass\n"),
]

# ---- C03 driver side: sequential DOE loop, tolerance testers, optimizers' callback
MUTANTS += [
    ("C03", "algos/doe/base_doe_library.py", r"                    output_value, jacobian_value = self\._evaluate_functions\(input_value\)\n", "                    output_value, jacobian_value = self._evaluate_functions(input_value)\n                    output_value, jacobian_value = self._evaluate_functions(input_value)\n"),
    ("C03", "algos/doe/base_doe_library.py", r"                    output_value, jacobian_value = self\._evaluate_functions\(input_value\)\n", "                    output_value, jacobian_value = self._evaluate_functions(self.samples[0])\n"),
    ("C03", "algos/doe/base_doe_library.py", r"                    for callback in callbacks:\n                        callback\(index, \(output_value, jacobian_value\)\)\n", "                    break\n"),
    ("C03", "algos/doe/base_doe_library.py", r"            design_vector=input_value,\n            preprocess_design_vector=False,", "            design_vector=None,\n            preprocess_design_vector=False,"),
    ("C03", "algos/doe/base_doe_library.py", r"                except ValueError:  # noqa: PERF203\n", "                except KeyError:  # noqa: PERF203\n"),
    ("C03", "algos/stop_criteria.py", r"        if raise_exception and tolerance_criterion_is_reached:", "        if raise_exception or tolerance_criterion_is_reached:"),
    ("C03", "algos/stop_criteria.py", r"            raise self\.termination_criterion\n\n        return tolerance_criterion_is_reached", "            raise self.termination_criterion\n\n        return False"),
    ("C03", "algos/stop_criteria.py", r"absolute=x_tol_abs, relative=x_tol_rel, n_last_iterations=n_x", "absolute=x_tol_rel, relative=x_tol_abs, n_last_iterations=n_x"),
    ("C03", "algos/stop_criteria.py", r"absolute=f_tol_abs, relative=f_tol_rel, n_last_iterations=n_x\n    \)\n    return tester\.check\(opt_problem\)", "absolute=f_tol_abs, relative=f_tol_rel, n_last_iterations=n_x\n    )\n    return tester.check(opt_problem, raise_exception=True)"),
    ("C03", "algos/stop_criteria.py", r"termination_criterion: TerminationCriterion = field\(default=XtolReached, init=False\)", "termination_criterion: TerminationCriterion = field(default=FtolReached, init=False)"),
    ("C03", "algos/opt/base_optimization_library.py", r"        super\(\)\._new_iteration_callback\(x_vect\)\n", ""),
    ("C03", "algos/opt/base_optimization_library.py", r"        self\._f_tol_tester\.check\(self\._problem, raise_exception=True\)\n", "        self._f_tol_tester.check(self._problem, raise_exception=False)\n"),
    ("C03", "algos/opt/base_optimization_library.py", r"        self\._f_tol_tester\.check\(self\._problem, raise_exception=True\)\n        self\._x_tol_tester\.check\(self\._problem, raise_exception=True\)", "        self._x_tol_tester.check(self._problem, raise_exception=True)\n        self._f_tol_tester.check(self._problem, raise_exception=True)"),
    # ---- C11 HDFDatabase.update_from_file (index level)
    ("C11", "algos/_hdf_database.py", r"database\.store\(array\(design_vars_grp\[str_index\]\), scalar_dict\)", 'database.store(array(design_vars_grp["0"]), scalar_dict)'),
    ("C11", "algos/_hdf_database.py", r"                str_index = str\(raw_index\)", "                str_index = str(raw_index + 1)"),
    ("C11", "algos/_hdf_database.py", r"keys\[int\(k\)\]: array\(v\)", "keys[int(k) + 1]: array(v)"),
]

# ---- C03 known findings (a) / (b): the same clauses broken OUTSIDE the recorded failing regions must still be reported
MUTANTS += [
    ("C03", "algos/lagrange_multipliers.py", r"        self\.active_lb_names = \[\]\n", "        opt_problem.evaluation_counter.current += 1\n        self.active_lb_names = []\n"),
    ("C03", "algos/lagrange_multipliers.py", r"        self\.active_lb_names = \[\]\n", "        opt_problem.evaluation_counter.maximum = 0\n        self.active_lb_names = []\n"),
    ("C03", "algos/evaluation_problem.py", r"        if current_iter:\n            self\.evaluation_counter\.current = 0", "        if not current_iter:\n            self.evaluation_counter.current = 0"),
    ("C03", "algos/optimization_problem.py", r"            current_iter=current_iter,\n            design_space=design_space,", "            current_iter=True,\n            design_space=design_space,"),
    # ---- C07 Jacobian operators (linear-operator wrappers) and the CSR self-coupling alias
    ("C07", "core/derivatives/jacobian_assembly.py", r"jacobian_copy = jacobian.copy\(\)", "jacobian_copy = jacobian.tocsr() if isinstance(jacobian, sparse_classes) else jacobian.copy()"),
    ("C07", "core/derivatives/jacobian_operator.py", r"return self.__operator.rmatvec\(x\).real", "return self.__operator.matvec(x).real"),
    ("C07", "core/derivatives/jacobian_operator.py", r"return self.__operator.matvec\(x\).real", "return self.__operator.matvec(x)"),
    ("C07", "core/derivatives/jacobian_operator.py", r"return self.__operator.rmatvec\(x\)  #", "return self.__operator.matvec(x)  #"),
    ("C07", "core/derivatives/jacobian_operator.py", r"operator.shape\[::-1\]", "operator.shape"),
    ("C07", "core/derivatives/jacobian_operator.py", r"return self._operand_1.rmatvec\(x\) \+ self._operand_2.rmatvec\(x\)", "return self._operand_1.rmatvec(x) + self._operand_2.matvec(x)"),
    ("C07", "core/derivatives/jacobian_operator.py", r"return self._operand_1.rmatvec\(x\) \+ self._operand_2.T @ x", "return self._operand_1.rmatvec(x) + self._operand_2 @ x"),
    ("C07", "core/derivatives/jacobian_operator.py", r"return self._operand_1.matvec\(x\) - self._operand_2.matvec\(x\)", "return self._operand_1.matvec(x) + self._operand_2.matvec(x)"),
    ("C07", "core/derivatives/jacobian_operator.py", r"return self._operand_2.rmatvec\(self._operand_1.T @ x\)", "return self._operand_2.rmatvec(self._operand_1 @ x)"),
    ("C07", "core/derivatives/jacobian_operator.py", r"return self._operand_2.rmatvec\(self._operand_1.rmatvec\(x\)\)", "return self._operand_1.rmatvec(self._operand_2.rmatvec(x))"),
    ("C07", "core/derivatives/jacobian_operator.py", r"return self._operand_1.matvec\(self._operand_2 @ x\)", "return self._operand_2 @ self._operand_1.matvec(x)"),
    ("C07", "core/derivatives/jacobian_operator.py", r"\(operand_1.shape\[0\], operand_2.shape\[1\]\)", "(operand_1.shape[0], operand_2.shape[0])"),
    ("C07", "core/derivatives/jacobian_operator.py", r"return _SumOperationWithArray\(self, other\)", "return _SumOperation(self, other)"),
    ("C07", "core/derivatives/jacobian_operator.py", r"return _ComposedOperationArrayOperator\(other, self\)", "return _ComposedOperationArrayOperator(self, other)"),
    ("C07", "core/derivatives/jacobian_operator.py", r"return _AdjointJacobianOperator\(self\)", "return _RealJacobianOperator(self)"),
    ("C07", "core/derivatives/jacobian_operator.py", r"return self - _IdentityOperator\(self.shape\[0\]\)", "return self - _IdentityOperator(self.shape[1])"),
    ("C07", "core/derivatives/jacobian_operator.py", r"return self._operand_1.rmatvec\(x\) - self._operand_2.T @ x", "return self._operand_1.rmatvec(x) - self._operand_2 @ x"),
]

MUTANTS += [
    # ---- C17 (c17_build): MDF.__init__
    ("C17", "formulations/mdf.py", r"        self\._update_design_space\(\)\n        self\._build_objective_from_disc\(objective_name, discipline=self\.mda\)",
     "        self._build_objective_from_disc(objective_name, discipline=self.mda)"),
    ("C17", "formulations/mdf.py", r"        self\.mda = self\.__mda_factory\.create\(\n            self\._settings\.main_mda_name,\n            self\.disciplines,\n            settings_model=self\._settings\.main_mda_settings,\n        \)\n        self\._update_design_space\(\)",
     "        self._update_design_space()\n        self.mda = self.__mda_factory.create(\n            self._settings.main_mda_name,\n            self.disciplines,\n            settings_model=self._settings.main_mda_settings,\n        )"),
    ("C17", "formulations/mdf.py", r"        # No couplings in design space \(managed by MDA\)\n        self\._remove_couplings_from_ds\(\)\n        # Cleanup\n        self\._remove_unused_variables\(\)",
     "        self._remove_unused_variables()"),
]

# ---- C07 (continued): cache of the minimal couplings, LU variants, dispatchers, Newton step
MUTANTS += [
    ("C07", "core/derivatives/jacobian_assembly.py", r"if self.__last_diff_inouts != diff_ios:", "if self.__last_diff_inouts[1] != diff_ios[1]:"),
    ("C07", "core/derivatives/jacobian_assembly.py", r"            self.__last_diff_inouts = diff_ios\n", ""),
    ("C07", "core/derivatives/jacobian_assembly.py", r"minimal_couplings = set\(couplings\).intersection\(", "minimal_couplings = set(couplings).union("),
    ("C07", "core/derivatives/jacobian_assembly.py", r"self.__minimal_couplings = minimal_couplings.difference\(states\)", "self.__minimal_couplings = minimal_couplings"),
    ("C07", "core/derivatives/jacobian_assembly.py", r"coupling_structure, variables, functions\n            \)", "coupling_structure, functions, variables\n            )"),
    ("C07", "core/derivatives/jacobian_assembly.py", r"rhs = -dres_dx\[:, var_index\].todense\(\)", "rhs = dres_dx[:, var_index].todense()"),
    ("C07", "core/derivatives/jacobian_assembly.py", r"lhs = csc_matrix\(dres_dy\)", "lhs = csc_matrix(dres_dy.T)"),
    ("C07", "core/derivatives/jacobian_assembly.py", r"rhs = -dfunction_dy\[fun_component, :\].todense\(\).T", "rhs = -dfunction_dy[fun_component, :].todense()"),
    ("C07", "core/derivatives/jacobian_assembly.py", r"solve = factorized\(dres_dy_t\)", "solve = factorized(dres_dy_t.T)"),
    ("C07", "core/derivatives/jacobian_assembly.py", r"dy_dx\[:, var_index\] = sol.squeeze\(\)", "dy_dx[:, 0] = sol.squeeze()"),
    ("C07", "core/derivatives/jacobian_assembly.py", r"functions, n_variables, n_couplings, dres_dx, dres_dy, dfun_dx, dfun_dy\n", "functions, n_variables, n_couplings, dres_dx, dres_dy, dfun_dy, dfun_dx\n"),
    ("C07", "core/derivatives/jacobian_assembly.py", r"                functions, dres_dx, dres_dy_t, dfun_dx, dfun_dy\n", "                functions, dres_dy_t, dres_dx, dfun_dx, dfun_dy\n"),
    ("C07", "core/derivatives/jacobian_assembly.py", r"self.n_direct_modes \+= 1", "self.n_direct_modes += 2"),
    ("C07", "core/derivatives/jacobian_assembly.py", r"linear_problem = LinearProblem\(dres_dy, -residuals\)", "linear_problem = LinearProblem(dres_dy, residuals)"),
    ("C07", "core/derivatives/jacobian_assembly.py", r"            residual_names,\n            couplings,\n            is_residual=True,", "            residual_names,\n            couplings,\n            is_residual=False,"),
    ("C07", "core/derivatives/jacobian_assembly.py", r"residual_names = resolved_residual_names or couplings", "residual_names = couplings"),
]

# ---- C04 (continued): result assembly, database look-ups by iteration (contracts/c04_result.py)
MUTANTS += [
    ("C04", "algos/optimization_result.py", r"            f_opt = -f_opt\n", "            f_opt = f_opt\n"),
    ("C04", "algos/optimization_result.py", r"            and not problem.use_standardized_objective\n", "            and problem.use_standardized_objective\n"),
    ("C04", "algos/optimization_result.py", r"            and not problem.minimize_objective\n", ""),
    ("C04", "algos/optimization_result.py", r"optimum_index = problem.database.get_iteration\(x_opt\) - 1", "optimum_index = problem.database.get_iteration(x_opt)"),
    ("C04", "algos/optimization_result.py", r"            is_feasible=is_feas,", "            is_feasible=True,"),
    ("C04", "algos/optimization_result.py", r"            constraint_values=c_opt,", "            constraint_values=c_opt_grad,"),
    ("C04", "algos/optimization_result.py", r"x_0 = problem.database.get_x_vect\(1\)", "x_0 = problem.database.get_x_vect(-1)"),
    ("C04", "algos/optimization_result.py", r"            objective_name = problem.objective.original_name", "            objective_name = problem.objective.name"),
    ("C04", "algos/optimization_result.py", r"return cls\(n_obj_call=0, \*\*fields_\)", "return cls(n_obj_call=1, **fields_)"),
    ("C04", "algos/optimization_result.py", r"        if not problem.database:\n            return", "        if problem.database:\n            return"),
    ("C04", "algos/optimization_result.py", r"            x_opt=x_opt,", "            x_opt=x_0,"),
    ("C04", "algos/optimization_result.py", r"            n_obj_call=problem.objective.n_calls,", "            n_obj_call=problem.objective.n_calls + 1,"),
    ("C04", "algos/database.py", r"                return index \+ 1\n", "                return index\n"),
    ("C04", "algos/database.py", r"            if key == hashed_input_value:\n", "            if key != hashed_input_value:\n"),
    ("C04", "algos/database.py", r"        if iteration > 0:\n            return iteration - 1", "        if iteration > 0:\n            return iteration"),
    ("C04", "algos/database.py", r"        return len_self \+ iteration", "        return len_self + iteration - 1"),
    ("C04", "algos/database.py", r"iteration_index, iteration_index \+ 1\)\)", "iteration_index + 1, iteration_index + 2))"),
    ("C04", "algos/optimization_history.py", r"            c_opt = \{c.name: f_history.get\(c.name\) for c in constraints\}\n            func", "            c_opt = {c.name: f_history.get(Database.get_gradient_name(c.name)) for c in constraints}\n            func"),
    ("C04", "algos/optimization_history.py", r"            return self.Solution\(f_opt, x_opt, False, c_opt, c_opt_grad\)", "            return self.Solution(None, x_opt, False, c_opt, c_opt_grad)"),
]
MUTANTS += [
    # ---- C05 HDF5Cache: behavioural subtyping against the BaseFullCache storage contracts (contracts/c05_more.py)
    ("C05", "caches/hdf5_cache.py", r"return self.__hdf_file.has_group\(index, group, self.__hdf_node_path\)", "return self.__hdf_file.has_group(index, self.Group.INPUTS, self.__hdf_node_path)"),
    ("C05", "caches/hdf5_cache.py", r"data = self.__hdf_file.read_data\(index, group, self.__hdf_node_path\)", "data = self.__hdf_file.read_data(index, self.Group.OUTPUTS, self.__hdf_node_path)"),
    ("C05", "caches/hdf5_cache.py", r"data = self.__hdf_file.read_data\(index, group, self.__hdf_node_path\)", "data = self.__hdf_file.read_data(index + 1, group, self.__hdf_node_path)"),
    ("C05", "caches/hdf5_cache.py", r"        if group == self.Group.JACOBIAN and data:\n            data = nest_flat", "        if group == self.Group.OUTPUTS and data:\n            data = nest_flat"),
    ("C05", "caches/hdf5_cache.py", r"        self.__hdf_file.write_data\(\n            values,\n            group,\n            index,", "        self.__hdf_file.write_data(\n            values,\n            group,\n            index - 1,"),
    ("C05", "caches/hdf5_cache.py", r"        self.__hdf_file.write_data\(\n            values,\n            group,", "        self.__hdf_file.write_data(\n            values,\n            self.Group.INPUTS,"),
    ("C05", "caches/hdf5_cache.py", r"        self.__hdf_file.write_data\(\n            values,\n            group,\n            index,\n            self.__hdf_node_path,\n        \)", "        pass"),
]

MUTANTS += [
    # ---- C20 per-class state protocol (contracts/c20_classes.py): hooks, overriding __setstate__ methods, class-hierarchy lemmas
    ("C20", "algos/doe/base_doe_library.py", r"def _init_shared_memory_attrs_after\(self\) -> None:\n        self\.lock = RLock\(\)", "def _init_shared_memory_attrs_after(self) -> None:\n        pass"),
    ("C20", "algos/doe/base_doe_library.py", r'_ATTR_NOT_TO_SERIALIZE: ClassVar\[set\[str\]\] = \{"lock"\}', '_ATTR_NOT_TO_SERIALIZE: ClassVar[set[str]] = {"lock", "samples"}'),
    ("C20", "algos/doe/base_doe_library.py", r'_ATTR_NOT_TO_SERIALIZE: ClassVar\[set\[str\]\] = \{"lock"\}', '_ATTR_NOT_TO_SERIALIZE: ClassVar[set[str]] = set()'),
    ("C20", "disciplines/analytic.py", r"super\(\)\.__setstate__\(state\)\n        self\._sympy_funcs = \{\}\n", "super().__setstate__(state)\n"),
    ("C20", "disciplines/analytic.py", r"        super\(\)\.__setstate__\(state\)\n", ""),
    ("C20", "disciplines/analytic.py", r'        "_sympy_jac_funcs",\n    \]\)', '        "_sympy_jac_funcs",\n        "expressions",\n    ])'),
    ("C20", "disciplines/analytic.py", r"\Z", "\n\nclass _Extra(Discipline):\n    _ATTR_NOT_TO_SERIALIZE = Discipline._ATTR_NOT_TO_SERIALIZE.union([\"foo\"])\n\n    def __init__(self):\n        super().__init__()\n        self.foo = 1\n"),
    ("C20", "problems/mdo/sobieski/disciplines.py", r"        self\.sobieski_problem = SobieskiProblem\(self\.dtype\)", "        self.sobieski_problem = None"),
    ("C20", "problems/mdo/sobieski/disciplines.py", r"        super\(\)\.__setstate__\(state\)\n", ""),
    ("C20", "problems/mdo/sobieski/disciplines.py", r'            "sobieski_problem",\n        \],', '            "sobieski_problem",\n            "dtype",\n        ],'),
    ("C20", "utils/directory_creator.py", r"            self\.__counter = 1", "            self.__counter = 0"),
    ("C20", "utils/directory_creator.py", r"            self\.__lock = Lock\(\)\n", ""),
    ("C20", "utils/directory_creator.py", r'self\.__counter = Value\("i", self\.__get_initial_counter\(\)\)', "self.__counter = self.__get_initial_counter()"),
    ("C20", "algos/_progress_bars/custom_tqdm_progress_bar.py", r'        del state\["fp"\]', '        del state["n"]'),
    ("C20", "algos/_progress_bars/custom_tqdm_progress_bar.py", r"        state = self\.__dict__\.copy\(\)", "        state = self.__dict__"),
    ("C20", "algos/_progress_bars/custom_tqdm_progress_bar.py", r"        self\.__dict__\.update\(state\)\n", ""),
    ("C20", "algos/_progress_bars/custom_tqdm_progress_bar.py", r"        self\.fp = tqdm\.utils\.DisableOnWriteError\(\n            self\.__FILE_STREAM_CLASS\(\), tqdm_instance=self\n        \)", "        pass"),
    ("C20", "core/discipline/discipline_data.py", r"state\[item_name\] = to_os_specific\(item_value\)", "state[item_name] = item_value"),
    ("C20", "core/discipline/discipline_data.py", r"        state = self\.copy\(\)", "        state = {}"),
    ("C20", "core/discipline/discipline_data.py", r"        self\.update\(state\)\n", ""),
    ("C20", "core/discipline/discipline_data.py", r"self\[item_name\] = Path\(item_value\)", "self[item_name] = item_value"),
    ("C20", "core/grammars/pydantic_grammar.py", r"state\[model_arg_name\] = self\.__model\.model_fields", "state[model_arg_name] = self.__model"),
    ("C20", "core/grammars/pydantic_grammar.py", r'__name__\}__model"', '__name__}_model"'),
    ("C20", "core/grammars/pydantic_grammar.py", r"if not isinstance\(self\.__model, type\(BaseModel\)\)", "if isinstance(self.__model, type(BaseModel))"),
    ("C20", "core/grammars/pydantic_grammar.py", r'            self\.__model\.model_fields = cast\("dict\[str, FieldInfo\]", fields_info\)\n', ""),
    ("C20", "core/grammars/pydantic_grammar.py", r"            fields_info = self\.__model\n            self\._clear\(\)", "            self._clear()\n            fields_info = self.__model"),
    ("C20", "core/grammars/pydantic_grammar.py", r"        self\.__dict__\.update\(state\)\n        if not isinstance", "        if not isinstance"),
    # a new override of the state protocol anywhere in the source must make the hierarchy lemmas fail
    ("C20", "core/discipline/discipline.py", r"\Z", "\n\nclass _Sneaky(Discipline):\n    def __getstate__(self):\n        return {}\n"),
    ("C20", "algos/design_space.py", r"\Z", "\n\nclass _Sneaky(DesignSpace):\n    def __deepcopy__(self, memo):\n        return self\n"),
    ("C20", "core/mdo_functions/mdo_function.py", r"\Z", "\n\nclass _Sneaky(MDOFunction):\n    def __reduce__(self):\n        return (MDOFunction, ())\n"),
    ("C20", "core/execution_statistics.py", r'        "__n_executions",\n', '        "_ExecutionStatistics__n_executions",\n'),
    ("C20", "caches/hdf5_cache.py", r"    def __getstate__\(self\) -> dict\[str, float \| str\]:", "    def __getstate_off__(self) -> dict[str, float | str]:"),
    ("C20", "mda/base_mda.py", r"\Z", "\n\nclass _Sneaky(BaseMDA):\n    _ATTR_NOT_TO_SERIALIZE = BaseMDA._ATTR_NOT_TO_SERIALIZE | {\"_linear_solver\"}\n\n    def set(self):\n        self._linear_solver = 1\n"),
]

# ---- C13 consequences for disciplines / linearization / chains (contracts/c13_disciplines.py)
MUTANTS += [
    ("C13", "core/parallel_execution/disc_parallel_execution.py", r"                    disc\.io\.data = output\n", "                    self._disciplines[0].io.data = output\n"),
    ("C13", "core/parallel_execution/disc_parallel_execution.py", r"                if output is not None:\n", "                if output is None:\n"),
    ("C13", "core/parallel_execution/disc_parallel_execution.py", r"n_executions \+= len\(inputs\)", "n_executions += 1"),
    ("C13", "core/parallel_execution/disc_parallel_execution.py", r"                not self\.use_threading\n", "                self.use_threading\n"),
    ("C13", "core/parallel_execution/disc_parallel_execution.py", r"        return ordered_outputs\n", "        return ordered_outputs[::-1]\n"),
    ("C13", "core/parallel_execution/disc_parallel_execution.py", r"len\(self\._disciplines\) != len\(inputs\):", "len(self._disciplines) > len(inputs):"),
    ("C13", "core/parallel_execution/disc_parallel_linearization.py", r"                    disc\.jac = output\.jacobian\n", "                    disc.jac = output.io_data\n"),
    ("C13", "core/parallel_execution/disc_parallel_linearization.py", r"                    disc\.io\.data = output\.io_data\n", "                    disc.io.data = output.jacobian\n"),
    ("C13", "core/parallel_execution/disc_parallel_linearization.py", r"return _WorkerData\(self\.__disc\.io\.data, jacobian\)", "return _WorkerData(jacobian, self.__disc.io.data)"),
    ("C13", "core/parallel_execution/disc_parallel_linearization.py", r"                if len\(self\._disciplines\) == 1:\n", "                if len(self._disciplines) == 2:\n"),
    ("C13", "core/parallel_execution/disc_parallel_linearization.py", r"output_0 = ordered_outputs\[0\]", "output_0 = ordered_outputs[-1]"),
    ("C13", "core/parallel_execution/disc_parallel_linearization.py", r"execute=self\.__execute\)", "execute=True)"),
    ("C13", "core/parallel_execution/disc_parallel_linearization.py", r"n_linearizations \+= len\(inputs\)", "n_linearizations += 1"),
    ("C13", "core/chains/parallel_chain.py", r"for output_name in discipline\.io\.output_grammar\n", "for output_name in discipline.io.input_grammar\n"),
    ("C13", "core/chains/parallel_chain.py", r"output_name: discipline\.io\.data\[output_name\]", "output_name: self.disciplines[0].io.data[output_name]"),
    ("C13", "core/chains/parallel_chain.py", r"        self\.parallel_execution\.execute\(self\._get_input_data_copies\(\)\)\n", "        pass\n"),
]
MUTANTS += [
    # ---- C05 HDF5FileSingleton.read_hashes / clear, HDF5Cache.clear / _read_hashes (contracts/c05_more.py)
    ("C05", "caches/_hdf5_file_singleton.py", r"hashes_to_indices\[hash_\] = append\(indices, array\(\[index\]\)\)", "hashes_to_indices[hash_] = array([index])"),
    ("C05", "caches/_hdf5_file_singleton.py", r"max_index = max\(max_index, index\)", "max_index = index"),
    ("C05", "caches/_hdf5_file_singleton.py", r"max_index = max\(max_index, index\)", "max_index = max_index + 1"),
    ("C05", "caches/_hdf5_file_singleton.py", r"hash_ = int\(array\(entry\[self.HASH_TAG\]\)\[0\]\)", "hash_ = index"),
    ("C05", "caches/_hdf5_file_singleton.py", r"                if indices is None:\n                    hashes_to_indices\[hash_\] = array\(\[index\]\)", "                if indices is None:\n                    hashes_to_indices[hash_] = array([index + 1])"),
    ("C05", "caches/_hdf5_file_singleton.py", r"                indices = hashes_to_indices.get\(hash_\)\n", "                indices = None\n"),
    ("C05", "caches/hdf5_cache.py", r"        super\(\).clear\(\)\n        self.__hdf_file.clear\(self.__hdf_node_path\)", "        super().clear()"),
    ("C05", "caches/hdf5_cache.py", r"        super\(\).clear\(\)\n        self.__hdf_file.clear\(self.__hdf_node_path\)", "        self.__hdf_file.clear(self.__hdf_node_path)"),
    ("C05", "caches/hdf5_cache.py", r"        self._last_accessed_index.value = max_index\n        self._max_index.value = max_index", "        self._last_accessed_index.value = max_index\n        self._max_index.value = max_index + 1"),
    ("C05", "caches/hdf5_cache.py", r"        self._last_accessed_index.value = max_index\n", ""),
]

MUTANTS += [
    # ---- C15 round 3: conversion to SimpleGrammar, files, copy (c15_json_grammar.py), defaults setter
    ("C15", "core/grammars/base_grammar.py", r"        grammar.defaults = self._defaults\n        return grammar", "        grammar._defaults = self._defaults.copy()\n        return grammar"),
    ("C15", "core/grammars/base_grammar.py", r"        grammar.defaults = self._defaults\n        return grammar", "        grammar._defaults = self._defaults\n        return grammar"),
    ("C15", "core/grammars/base_grammar.py", r"        grammar.defaults = self._defaults\n        return grammar", "        return grammar"),
    ("C15", "core/grammars/base_grammar.py", r"            required_names=self._required_names,\n        \)\n        grammar.defaults", "        )\n        grammar.defaults"),
    ("C15", "core/grammars/base_grammar.py", r"        self._defaults = Defaults\(self, data\)", "        self._defaults = Defaults(self, {})"),
    ("C15", "core/grammars/defaults.py", r"        obj.__data = copy\(self.__data\)", "        obj.__data = self.__data"),
    ("C15", "core/grammars/json_grammar.py", r"                property_type = None\n            else:", "                property_type = str\n            else:"),
    ("C15", "core/grammars/json_grammar.py", r"            names_to_types\[property_name\] = property_type", "            if property_type is not None:\n                names_to_types[property_name] = property_type"),
    ("C15", "core/grammars/json_grammar.py", r'        properties = self.schema.get\("properties"\)', '        properties = self.schema.get("required")'),
    ("C15", "core/grammars/json_grammar.py", r'        "array": ndarray,\n        "string": str,', '        "array": list,\n        "string": str,'),
    ("C15", "core/grammars/json_grammar.py", r'        float: "number",', '        float: "integer",'),
    ("C15", "core/grammars/json_grammar.py", r"        grammar.__schema = self.__schema.copy\(\)", "        grammar.__schema = self.__schema"),
    ("C15", "core/grammars/json_grammar.py", r"        grammar.__schema_builder.add_schema\(self.__schema_builder, True\)\n", ""),
    ("C15", "core/grammars/json_grammar.py", r"        grammar.__schema_builder.add_schema\(self.__schema_builder, True\)", "        grammar.__schema_builder = self.__schema_builder"),
    ("C15", "core/grammars/json_grammar.py", r"        self.update_from_schema\(json.loads\(path.read_text\(\)\), merge\)", "        self.update_from_schema(json.loads(path.read_text()), not merge)"),
    ("C15", "core/grammars/json_grammar.py", r"        if not path.exists\(\):\n            msg = f\"Cannot update", "        if path.exists():\n            msg = f\"Cannot update"),
    ("C15", "core/grammars/json_grammar.py", r"        with self.__sync_required_names\(\):\n            path.write_text", "        if True:\n            self.__schema = {}\n            path.write_text"),
    # ---- C15 PydanticGrammar (c15_pydantic_grammar.py): the rebuild flag protocol
    ("C15", "core/grammars/pydantic_grammar.py", r"        del self.__model.model_fields\[name\]\n        self.__model_needs_rebuild = True\n\n    def _copy", "        del self.__model.model_fields[name]\n\n    def _copy"),
    ("C15", "core/grammars/pydantic_grammar.py", r"        fields\[new_name\] = fields.pop\(current_name\)\n        self.__model_needs_rebuild = True", "        fields[new_name] = fields.pop(current_name)"),
    ("C15", "core/grammars/pydantic_grammar.py", r"            fields\[name\] = FieldInfo\(annotation=annotation\)\n        self.__model_needs_rebuild = True", "            fields[name] = FieldInfo(annotation=annotation)"),
    ("C15", "core/grammars/pydantic_grammar.py", r"            del self.__model.model_fields\[name\]\n            self.__model_needs_rebuild = True", "            del self.__model.model_fields[name]"),
    ("C15", "core/grammars/pydantic_grammar.py", r"        self.__model = create_model\(\"Model\"\)\n        self.__model_needs_rebuild = False", "        self.__model = create_model(\"Model\")"),
    ("C15", "core/grammars/pydantic_grammar.py", r"        self.__rebuild_model\(\)\n        try:", "        try:"),
    ("C15", "core/grammars/pydantic_grammar.py", r"            self.__model.model_rebuild\(force=True\)\n            self.__model_needs_rebuild = False", "            self.__model_needs_rebuild = False"),
    ("C15", "core/grammars/pydantic_grammar.py", r"            if merge and name in fields:", "            if merge or name in fields:"),
    ("C15", "core/grammars/pydantic_grammar.py", r"            if annotation is ndarray:", "            if annotation is not ndarray:"),
    ("C15", "core/grammars/pydantic_grammar.py", r"            if field_name not in excluded_names:", "            if field_name in excluded_names:"),
    ("C15", "core/grammars/pydantic_grammar.py", r"            pydantic_type = annotation if origin is None else origin", "            pydantic_type = origin if origin is None else annotation"),
    ("C15", "core/grammars/pydantic_grammar.py", r"            return False\n        return True", "            return True\n        return True"),
]

MUTANTS += [
    # stratified OpenTURNS designs: number of levels
    ("C14", "algos/doe/openturns/_algos/ot_composite_doe.py", r"n_levels = int\(\(n_samples - 1\) / \(2 \* dimension \+ 2\*\*dimension\)\)", "n_levels = int(n_samples / (2 * dimension + 2**dimension))"),
    ("C14", "algos/doe/openturns/_algos/ot_composite_doe.py", r"n_levels = int\(\(n_samples - 1\) / \(2 \* dimension \+ 2\*\*dimension\)\)", "n_levels = int((n_samples - 1) / (2 * dimension + 2**dimension)) - 1"),
    ("C14", "algos/doe/openturns/_algos/ot_composite_doe.py", r"n_levels = int\(\(n_samples - 1\) / \(2 \* dimension \+ 2\*\*dimension\)\)", "n_levels = int((n_samples - 1) / (dimension + 2**dimension))"),
    ("C14", "algos/doe/openturns/_algos/ot_composite_doe.py", r"        if n_levels < 1:", "        if n_levels < 0:"),
    ("C14", "algos/doe/openturns/_algos/ot_axial_doe.py", r"n_levels = int\(\(n_samples - 1\) / 2 / dimension\)", "n_levels = int(n_samples / 2 / dimension)"),
    ("C14", "algos/doe/openturns/_algos/ot_axial_doe.py", r"n_levels = int\(\(n_samples - 1\) / 2 / dimension\)", "n_levels = int((n_samples - 1) / dimension)"),
    ("C14", "algos/doe/openturns/_algos/ot_axial_doe.py", r"        if n_levels < 1:", "        if n_levels < 2:"),
    ("C14", "algos/doe/openturns/_algos/ot_factorial_doe.py", r"n_levels = int\(\(n_samples - 1\) / 2\*\*dimension\)", "n_levels = int(n_samples / 2**dimension)"),
    ("C14", "algos/doe/openturns/_algos/ot_factorial_doe.py", r"n_levels = int\(\(n_samples - 1\) / 2\*\*dimension\)", "n_levels = int((n_samples - 1) / 2**dimension) + 1"),
    ("C14", "algos/doe/openturns/_algos/ot_factorial_doe.py", r"        if n_levels < 1:", "        if n_levels <= 1:"),
    # wrapper libraries: seed / n_samples / dimension handed to the third-party sampler
    ("C14", "algos/doe/openturns/openturns.py", r"SetSeed\(self\._seeder\.get_seed\(seed\)\)", "SetSeed(self._seeder.get_seed(seed or None))"),
    ("C14", "algos/doe/openturns/openturns.py", r"SetSeed\(self\._seeder\.get_seed\(seed\)\)", "SetSeed(self._seeder.get_seed(None))"),
    ("C14", "algos/doe/openturns/openturns.py", r"SetSeed\(self\._seeder\.get_seed\(seed\)\)", "SetSeed(self._seeder.get_seed(seed) + 1)"),
    ("C14", "algos/doe/openturns/openturns.py", r"generate_samples\(n_samples, design_space\.dimension, \*\*settings\)", "generate_samples(n_samples + 1, design_space.dimension, **settings)"),
    ("C14", "algos/doe/openturns/openturns.py", r"generate_samples\(n_samples, design_space\.dimension, \*\*settings\)", "generate_samples(n_samples, design_space.dimension + 1, **settings)"),
    ("C14", "algos/doe/openturns/openturns.py", r"        openturns\.RandomGenerator\.SetSeed\(self\._seeder\.get_seed\(seed\)\)\n        doe_algo = self\.__NAMES_TO_CLASSES\[self\._algo_name\]\(\)\n", "        doe_algo = self.__NAMES_TO_CLASSES[self._algo_name]()\n"),
    ("C14", "algos/doe/scipy/scipy_doe.py", r"seed=self\._seeder\.get_seed\(settings\[self\._SEED\]\),", "seed=self._seeder.get_seed(settings[self._SEED] or None),"),
    ("C14", "algos/doe/scipy/scipy_doe.py", r"seed=self\._seeder\.get_seed\(settings\[self\._SEED\]\),", "seed=self._seeder.get_seed(None),"),
    ("C14", "algos/doe/scipy/scipy_doe.py", r"            design_space\.dimension,\n            seed=", "            design_space.dimension + 1,\n            seed="),
    ("C14", "algos/doe/scipy/scipy_doe.py", r"return algo\.random\(settings\[self\._N_SAMPLES\]\)", "return algo.random(settings[self._SEED])"),
    ("C14", "algos/doe/scipy/scipy_doe.py", r"\*\*\{k: v for k, v in settings\.items\(\) if k in option_names\},", "**{k: v for k, v in settings.items() if k not in option_names},"),
    ("C14", "algos/doe/pydoe/pydoe.py", r"self\._seeder\.get_seed\(settings\[\"random_state\"\]\)", "self._seeder.get_seed(settings[\"random_state\"] or None)"),
    ("C14", "algos/doe/pydoe/pydoe.py", r"            settings\[\"samples\"\] = settings\[\"n_samples\"\]\n", "            settings[\"samples\"] = settings[\"random_state\"]\n"),
    ("C14", "algos/doe/pydoe/pydoe.py", r"            return doe_algorithm\(n, \*\*settings\)\n", "            return doe_algorithm(n + 1, **settings)\n"),
    ("C14", "algos/doe/pydoe/pydoe.py", r"        return \(result \+ 1\.0\) \* 0\.5", "        return (result + 1.0) * 0.25"),
    ("C14", "algos/doe/pydoe/pydoe.py", r"        return self\.__scale\(doe_algorithm\(n, \*\*settings\)\)", "        return doe_algorithm(n, **settings)"),
]

MUTANTS += [
    # ---- C11 design-space text files (algos/design_space.py: from_csv)
    ("C11", "algos/design_space.py", r"if \"None\" in str_data\[k : k \+ size, col_map\[value_field\]\]:", "if \"None\" in str_data[k:, col_map[value_field]]:"),
    ("C11", "algos/design_space.py", r"u_b = float_data\[k : k \+ size, col_map\[upper_bounds_field\]\]", "u_b = float_data[k : k + size, col_map[lower_bounds_field]]"),
    ("C11", "algos/design_space.py", r"l_b = float_data\[k : k \+ size, col_map\[lower_bounds_field\]\]", "l_b = float_data[k : k + size + 1, col_map[lower_bounds_field]]"),
    ("C11", "algos/design_space.py", r"value = float_data\[k : k \+ size, col_map\[value_field\]\]", "value = float_data[k - 1 : k + size, col_map[value_field]]"),
    ("C11", "algos/design_space.py", r"            k \+= size\n", "            k += 1\n"),
    ("C11", "algos/design_space.py", r"        k = start_read\n", "        k = 0\n"),
    ("C11", "algos/design_space.py", r"var_type = str_data\[k, col_map\[var_type_field\]\]", "var_type = str_data[k - 1, col_map[var_type_field]]"),
    ("C11", "algos/design_space.py", r"            elif prev_name != name:", "            elif False:"),
    ("C11", "algos/design_space.py", r"size = var_names\.count\(name\)", "size = unique_names.count(name)"),
    ("C11", "algos/design_space.py", r"if not set\(cls\.MINIMAL_FIELDS\)\.issubset\(set\(header\)\):", "if not set(cls.MINIMAL_FIELDS[:1]).issubset(set(header)):"),
]

# ---- C02 link level (contracts/c02_more.py): cached normalisation data = concatenation of the per-variable data, from-any-state variants,
# unnormalize_vect with integer variables.  (`(?#c02b)` is a regex comment used as a selection key: tools/mutants.py C02 -k c02b)
MUTANTS += [
    ("C02", "algos/design_space.py", r"(?#c02b)self._norm_factor = self.__upper_bounds_array - self.__lower_bounds_array", "self._norm_factor = self.__lower_bounds_array - self.__upper_bounds_array"),
    ("C02", "algos/design_space.py", r"(?#c02b)1.0 / where\(norm_factor_is_zero, 1, self._norm_factor\)", "1.0 / where(norm_factor_is_zero, 2, self._norm_factor)"),
    ("C02", "algos/design_space.py", r"(?#c02b)self.__upper_bounds_array = self.get_upper_bounds\(\)\n        self._norm_factor", "self.__upper_bounds_array = self.get_lower_bounds()\n        self._norm_factor"),
    ("C02", "algos/design_space.py", r"(?#c02b)\[variable.type == integer\] \* variable.size", "[variable.type != integer] * variable.size"),
    ("C02", "algos/design_space.py", r"(?#c02b)self.__no_integer = not self.__integer_components.any\(\)", "self.__no_integer = self.__integer_components.any()"),
    ("C02", "algos/design_space.py", r"(?#c02b)self.__norm_data_is_computed = True\n        if self.__has_current_value", "self.__norm_data_is_computed = False\n        if self.__has_current_value"),
    ("C02", "algos/design_space.py", r"(?#c02b)self.__norm_inds = self.convert_dict_to_array\(self.normalize\).nonzero\(\)\[0\]", "self.__norm_inds = (1 - self.convert_dict_to_array(self.normalize)).nonzero()[0]"),
    ("C02", "algos/design_space.py", r"(?#c02b)name: variable.lower_bound for name, variable in self._variables.items\(\)", "name: variable.upper_bound for name, variable in self._variables.items()"),
    ("C02", "algos/design_space.py", r"(?#c02b)if self.__norm_data_is_computed and not variable_names and not as_dict:", "if not variable_names and not as_dict:"),
    ("C02", "algos/design_space.py", r"(?#c02b)variable.lower_bound != -inf, variable.upper_bound != inf", "variable.lower_bound != -inf, variable.upper_bound != -inf"),
    ("C02", "algos/design_space.py", r"(?#c02b)normalize = full\(variable.size, False\)", "normalize = full(variable.size, True)"),
    ("C02", "algos/design_space.py", r"(?#c02b)self.round_vect\(out, copy=False\)", "self.round_vect(out, copy=True)"),
    ("C02", "algos/design_space.py", r"(?#c02b)if minus_lb and not self.__no_integer:", "if minus_lb and self.__no_integer:"),
    # reverts of the three repairs 4b13d7d / 2946e30 / 7b07ae0
    ("C02", "algos/design_space.py", r"(?#c02b)        self.normalize\[name\] = self.normalize\[name\]\[dimensions\]\n", ""),
    ("C02", "algos/design_space.py", r"(?#c02b)if self.__lower_bounds_array is None or not self.__norm_data_is_computed:", "if self.__lower_bounds_array is None:"),
    ("C02", "algos/design_space.py", r"(?#c02b)if self.__upper_bounds_array is None or not self.__norm_data_is_computed:", "if self.__upper_bounds_array is None:"),
    ("C02", "algos/design_space.py", r"(?#c02b)if minus_lb and not self.__no_integer:", "if not self.__no_integer:"),
    # membership
    ("C02", "algos/design_space.py", r"(?#c02b)            if value is None:\n                continue", "            if value is None:\n                return"),
    ("C02", "algos/design_space.py", r"(?#c02b)if upper_bound \+ self.__bound_tol < x_real:", "if upper_bound - self.__bound_tol < x_real:"),
    ("C02", "algos/design_space.py", r"(?#c02b)if value.size != variable.size:", "if value.size > variable.size:"),
    ("C02", "algos/design_space.py", r"(?#c02b)indices = \(x_vect > u_b \+ self.__bound_tol\).nonzero\(\)\[0\]", "indices = (x_vect > u_b + u_b).nonzero()[0]"),
    ("C02", "algos/design_space.py", r"(?#c02b)            lower_bound=variable.lower_bound\[dimensions\],", "            lower_bound=variable.upper_bound[dimensions],"),
    # revert of the repair 4832538 (integer cast only in an all-integer design space)
    ("C02", "algos/design_space.py", r"(?#c02b)recast_to_int = bool\(self.__integer_components.all\(\)\)", "recast_to_int = True"),
    ("C02", "algos/design_space.py", r"(?#c02b)(?#deleg)return self.normalize_vect\(vector, out=out\)", "return self.normalize_vect(vector, minus_lb=False, out=out)"),
    ("C02", "algos/design_space.py", r"(?#c02b)(?#deleg)return self.unnormalize_vect\(vector, no_check=no_check, out=out\)", "return self.unnormalize_vect(vector, minus_lb=False, no_check=no_check, out=out)"),
    ("C02", "algos/design_space.py", r"(?#c02b)x_p\[u_inds\] = u_b\[u_inds\]", "x_p[u_inds] = l_b[u_inds]"),
    ("C02", "algos/design_space.py", r"(?#c02b)l_inds = \(x_c < l_b\).nonzero\(\)", "l_inds = (x_c > l_b).nonzero()"),
    ("C02", "algos/design_space.py", r"(?#c02b)x_p = array\(x_c\)", "x_p = x_c"),
    ("C02", "algos/design_space.py", r"(?#c02b)if not self.__norm_data_is_computed:\n            self.__update_normalization_vars\(\)\n\n        if out is None:\n            use_out = False", "if out is None:\n            use_out = False"),
    ("C02", "algos/design_space.py", r"(?#c02b)return concatenate\(data\).astype\(self.__get_common_dtype\(data\)\)", "return concatenate(data[1:]).astype(self.__get_common_dtype(data))"),
]

MUTANTS += [
    # OATDOE._generate_unit_samples
    ("C14", "algos/doe/oat_doe/oat_doe.py", r"            if current_point\[i\] \+ step > 1:", "            if current_point[i] + step > 2:"),
    ("C14", "algos/doe/oat_doe/oat_doe.py", r"                current_point\[i\] -= step\n", "                current_point[i] -= 2 * step\n"),
    ("C14", "algos/doe/oat_doe/oat_doe.py", r"            points\.append\(points\[-1\]\.copy\(\)\)", "            points.append(points[0].copy())"),
    ("C14", "algos/doe/oat_doe/oat_doe.py", r"        points = \[initial_point\]", "        points = [initial_point, initial_point]"),
    ("C14", "algos/doe/oat_doe/oat_doe.py", r"                current_point\[i\] \+= step\n", "                current_point[0] += step\n"),
    # compute_doe on a dimension: the unit design space built by __get_design_space
    ("C14", "algos/doe/base_doe_library.py", r"\"x\", size=design_space, lower_bound=0\.0, upper_bound=1\.0", "\"x\", size=design_space + 1, lower_bound=0.0, upper_bound=1.0"),
    ("C14", "algos/doe/base_doe_library.py", r"\"x\", size=design_space, lower_bound=0\.0, upper_bound=1\.0", "\"x\", size=design_space, type_=\"integer\", lower_bound=0.0, upper_bound=1.0"),
]

MUTANTS += [
    # C05 linearize side of the discipline cache protocol (contracts/c05_linearize.py)
    # Discipline.linearize
    ("C05", "core/discipline/discipline.py", r"            self.cache.cache_jacobian\(input_data, self.jac\)\n\n        return self.jac", "            self.cache.cache_jacobian(self.io.data, self.jac)\n\n        return self.jac"),
    ("C05", "core/discipline/discipline.py", r"        if self.cache is not None:\n            self.cache.cache_jacobian\(input_data, self.jac\)\n\n        return self.jac", "        return self.jac"),
    ("C05", "core/discipline/discipline.py", r"        self.execution_status.handle\(\n            self.execution_status.Status.LINEARIZING,\n            self.execution_statistics.record_linearization,\n            self.__compute_jacobian,\n        \)", "        pass"),
    ("C05", "core/discipline/discipline.py", r"if output_name not in output_names:\n                    del self.jac\[output_name\]", "if output_name in output_names:\n                    del self.jac[output_name]"),
    ("C05", "core/discipline/discipline.py", r"if input_name not in input_names:\n                            del jac\[input_name\]", "if input_name in input_names:\n                            del jac[input_name]"),
    ("C05", "core/discipline/discipline.py", r"if self.cache is not None and not \(input_names and output_names\):", "if self.cache is not None and not (input_names or output_names):"),
    ("C05", "core/discipline/discipline.py", r"        if self._has_jacobian and self.jac:\n", "        if self.jac:\n"),
    ("C05", "core/discipline/discipline.py", r"        if execute:\n            self.execute\(input_data\)", "        if not execute:\n            self.execute(input_data)"),
    ("C05", "core/discipline/discipline.py", r"        if not compute_all_jacobians:\n            for output_name", "        if compute_all_jacobians:\n            for output_name"),
    ("C05", "core/discipline/discipline.py", r"            self.jac = self.cache\[input_data\].jacobian\n", "            self.jac = {}\n"),
    ("C05", "core/discipline/discipline.py", r"                # In this case, another computation of Jacobian is triggered.\n                pass", "                return self.jac"),
    # Discipline.__compute_jacobian
    ("C05", "core/discipline/discipline.py", r"            self.jac = self._jac_approx.compute_approx_jac\(", "            self._jac_approx.compute_approx_jac("),
    ("C05", "core/discipline/discipline.py", r"(            self._compute_jacobian\(self.__input_names, self.__output_names\)\n)", r"\1\1"),
    # Discipline._get_differentiated_io
    ("C05", "core/discipline/discipline.py", r"                tuple\(self.io.input_grammar\),\n                tuple\(self.io.output_grammar\),", "                tuple(self.io.output_grammar),\n                tuple(self.io.input_grammar),"),
    ("C05", "core/discipline/discipline.py", r"        if compute_all_jacobians:\n            return \(", "        if not compute_all_jacobians:\n            return ("),
    ("C05", "core/discipline/discipline.py", r"        return tuple\(self._differentiated_input_names\), tuple\(\n            self._differentiated_output_names\n        \)", "        return tuple(self._differentiated_input_names), tuple(\n            self._differentiated_input_names\n        )"),
    # Discipline._store_cache
    ("C05", "core/discipline/discipline.py", r"        if self._has_jacobian:\n            self.cache.cache_jacobian", "        if not self._has_jacobian:\n            self.cache.cache_jacobian"),
    ("C05", "core/discipline/discipline.py", r"        super\(\)._store_cache\(input_data\)\n", "        pass\n"),
    ("C05", "core/discipline/discipline.py", r"            self.cache.cache_jacobian\(input_data, self.jac\)\n\n    def _set_data_from_cache", "            self.cache.cache_jacobian(self.io.data, self.jac)\n\n    def _set_data_from_cache"),
    # Discipline._set_data_from_cache
    ("C05", "core/discipline/discipline.py", r"        self._has_jacobian = True\n        if cache_entry.jacobian:", "        self._has_jacobian = False\n        if cache_entry.jacobian:"),
    ("C05", "core/discipline/discipline.py", r"        self._has_jacobian = True\n        if cache_entry.jacobian:", "        if cache_entry.jacobian:"),
    ("C05", "core/discipline/discipline.py", r"        if cache_entry.jacobian:\n            self.jac = cache_entry.jacobian", "        if not cache_entry.jacobian:\n            self.jac = cache_entry.jacobian"),
    ("C05", "core/discipline/discipline.py", r"        super\(\)._set_data_from_cache\(cache_entry\)\n", "        pass\n"),
    ("C05", "core/discipline/discipline.py", r"            #  this should be made explicit.\n            self.jac = \{\}", "            #  this should be made explicit.\n            pass"),
    # Discipline.execute
    ("C05", "core/discipline/discipline.py", r"        self._has_jacobian = False\n        return super\(\).execute\(input_data\)", "        return super().execute(input_data)"),
    ("C05", "core/discipline/discipline.py", r"        self._has_jacobian = False\n        return super\(\).execute\(input_data\)", "        self._has_jacobian = True\n        return super().execute(input_data)"),
]

MUTANTS += [
    # BaseOTStratifiedDOE.generate_samples (n_samples > 0)
    ("C14", "algos/doe/openturns/_algos/base_ot_stratified_doe.py", r"levels = linspace\(0, 1, n_levels \+ 1\)\[1:\]", "levels = linspace(0, 1, n_levels + 2)[1:]"),
    ("C14", "algos/doe/openturns/_algos/base_ot_stratified_doe.py", r"samples = \(array\(algo\.generate\(\)\) - 0\.5\) \* 2", "samples = (array(algo.generate()) - 0.5) * 3"),
    ("C14", "algos/doe/openturns/_algos/base_ot_stratified_doe.py", r"array\(levels\) / 2\)", "array(levels))"),
    ("C14", "algos/doe/openturns/_algos/base_ot_stratified_doe.py", r"            centers \+ samples \* \(1 - centers\),", "            centers + samples * (2 - centers),"),
    ("C14", "algos/doe/openturns/_algos/base_ot_stratified_doe.py", r"            centers = full\(dimension, 0\.5\)", "            centers = full(dimension, 1.5)"),
]

# ---- C04 (continued): Pareto filter
MUTANTS += [
    ("C04", "algos/pareto/utils.py", r"before_are_worse = any_ax1_all\(obj_values_filtered\[:i\] > obj\)", "before_are_worse = any_ax1_all(obj_values_filtered[:i] >= obj)"),
    ("C04", "algos/pareto/utils.py", r"pareto_optimal\[feasible_index\] = before_are_worse and after_are_worse", "pareto_optimal[feasible_index] = before_are_worse or after_are_worse"),
    ("C04", "algos/pareto/utils.py", r"after_are_worse = any_ax1_all\(obj_values_filtered\[i \+ 1 :\] > obj\)", "after_are_worse = any_ax1_all(obj_values_filtered[i + 2 :] > obj)"),
    ("C04", "algos/pareto/utils.py", r"            pareto_optimal\[i\] = False", "            pareto_optimal[i] = True"),
    ("C04", "algos/pareto/utils.py", r"        return np_all\(np_any\(arr, axis=1\)\)", "        return np_any(np_any(arr, axis=1))"),
    ("C04", "algos/pareto/utils.py", r"        obj = obj_values\[feasible_index\]", "        obj = obj_values[i]"),
    ("C04", "algos/pareto/utils.py", r"        if not feasible_point:\n", "        if feasible_point:\n"),
    ("C04", "algos/pareto/utils.py", r"after_are_worse = any_ax1_all\(obj_values_filtered\[i \+ 1 :\] > obj\)", "after_are_worse = any_ax1_all(obj_values_filtered[i + 1 :] < obj)"),
]

# ---- C09 (numerical level, contracts/c09_numeric.py): MDOChain.copy_jacs on ONE row {input: block} (the call of reverse_chain_rule)
MUTANTS += [
    ("C09", "core/chains/chain.py", r"                jacobian_copy\[output_name\] = output_jacobian.copy\(\)", "                jacobian_copy[output_name] = output_jacobian"),
    ("C09", "core/chains/chain.py", r"elif isinstance\(output_jacobian, \(array_classes, JacobianOperator\)\):", "elif isinstance(output_jacobian, JacobianOperator):"),
    ("C09", "core/chains/chain.py", r"elif isinstance\(output_jacobian, \(array_classes, JacobianOperator\)\):\n                jacobian_copy\[output_name\] = output_jacobian.copy\(\)",
     "elif isinstance(output_jacobian, (array_classes, JacobianOperator)):\n                jacobian_copy[output_name] = output_jacobian.copy()\n                output_jacobian += output_jacobian"),
]

# ---- C04 (continued): last point
MUTANTS += [
    ("C04", "algos/optimization_history.py", r"        x_last = database.get_x_vect\(-1\)", "        x_last = database.get_x_vect(1)"),
    ("C04", "algos/optimization_history.py", r"        f_last = database.get_function_value\(self.objective_name, -1\)", "        f_last = database.get_function_value(self.objective_name, 1)"),
    ("C04", "algos/optimization_history.py", r"        return self.Solution\(f_last, x_last, is_feas, c_last, c_last_grad\)", "        return self.Solution(f_last, x_last, True, c_last, c_last_grad)"),
    ("C04", "algos/optimization_history.py", r"        c_last_grad = \{c.name: output_last.get\(func\(c.name\)\) for c in constraints\}", "        c_last_grad = {c.name: output_last.get(c.name) for c in constraints}"),
]
MUTANTS += [
    # ---- C05 entry enumeration (contracts/c05_more.py)
    ("C05", "caches/base_full_cache.py", r"            output_data = self._read_data\(index, self.Group.OUTPUTS\)\n            jacobian_data = self._read_data\(index, self.Group.JACOBIAN\)\n            yield", "            output_data = self._read_data(index, self.Group.INPUTS)\n            jacobian_data = self._read_data(index, self.Group.JACOBIAN)\n            yield"),
    ("C05", "caches/base_full_cache.py", r"        for index in self._all_groups:\n            input_data = self._read_data\(index, self.Group.INPUTS\)", "        for index in self._all_groups:\n            input_data = self._read_data(self._last_accessed_index.value, self.Group.INPUTS)"),
    ("C05", "caches/base_full_cache.py", r"            yield CacheEntry\(input_data, output_data, jacobian_data\)", "            if output_data:\n                yield CacheEntry(input_data, output_data, jacobian_data)"),
    ("C05", "caches/hdf5_cache.py", r"                output_data = self._read_data\(index, self.Group.OUTPUTS\)", "                output_data = self._read_data(index + 1, self.Group.OUTPUTS)"),
    ("C05", "caches/simple_cache.py", r"        if self.__inputs:\n            yield self.last_entry", "        if self.__outputs:\n            yield self.last_entry"),
]

MUTANTS += [
    # ---- C20 DirectoryCreator: reverting the repair a94ccfa (the lock is pickled again) / excluding the counter's naming method
    ("C20", "utils/directory_creator.py", r'    _ATTR_NOT_TO_SERIALIZE: ClassVar\[set\[str\]\] = \{"_DirectoryCreator__lock"\}\n', ""),
    ("C20", "utils/directory_creator.py", r'= \{"_DirectoryCreator__lock"\}', '= {"_DirectoryCreator__lock", "_DirectoryCreator__directory_naming_method"}'),
    ("C20", "utils/directory_creator.py", r'= \{"_DirectoryCreator__lock"\}', '= {"__lock"}'),
]
MUTANTS += [
    # ---- C05 BaseDiscipline.__can_load_cache with a full cache (contracts/c05_more.py: CanLoadCacheFull)
    ("C05", "core/discipline/base_discipline.py", r"cache_output = cache_entry.outputs.copy\(\)", "cache_output = cache_entry.outputs"),
    ("C05", "core/discipline/base_discipline.py", r"                cache_output\[output_name\] = to_value\(output_name, value\)", "                pass"),
    ("C05", "core/discipline/base_discipline.py", r"                cache_output\[output_name\] = to_value\(output_name, value\)", "                cache_entry.outputs[output_name] = to_value(output_name, value)"),
]

# ---- C03 parallel DOE branch (contracts/c03_driver.py: _run@parallel, __store_in_database, parallel-execute summary)
MUTANTS += [
    ("C03", "algos/doe/base_doe_library.py", r"                for sample in self\.samples:\n                    database\.store\(sample, \{\}\)", "                for sample in self.unit_samples:\n                    database.store(sample, {})"),
    ("C03", "algos/doe/base_doe_library.py", r"                for sample in self\.samples:\n                    database\.store\(sample, \{\}\)", "                pass"),
    ("C03", "algos/doe/base_doe_library.py", r"        self\._problem\.database\.store\(self\.samples\[index\], data\)", "        self._problem.database.store(self.unit_samples[index], data)"),
    ("C03", "algos/doe/base_doe_library.py", r"                data\[self\._problem\.database\.get_gradient_name\(output_name\)\] = jacobian", "                data[output_name] = jacobian"),
    ("C03", "algos/doe/base_doe_library.py", r"                # with the serial exec, so we clean the DB\n                database\.remove_empty_entries\(\)", "                pass"),
    ("C03", "algos/doe/base_doe_library.py", r"                callbacks\.append\(self\.__store_in_database\)\n", ""),
    ("C03", "algos/doe/base_doe_library.py", r"            parallel\.execute\(self\.samples, exec_callback=callbacks\)", "            parallel.execute(self.unit_samples, exec_callback=callbacks)"),
    ("C03", "algos/doe/base_doe_library.py", r"        self\._problem\.database\.store\(self\.samples\[index\], data\)", "        self._problem.database.store(self.samples[0], data)"),
    ("C03", "algos/database.py", r"            if not outputs:\n                del self\.__data\[x\]", "            if outputs:\n                del self.__data[x]"),
]

# ---- C09 (numerical level): MDOChain.reverse_chain_rule on the repaired source (53b5901) - mutants reverting the repair, and classical ones
MUTANTS += [
    ("C09", "core/chains/chain.py", r"input_name: output_jac.pop\(input_name\)", "input_name: output_jac[input_name]"),
    ("C09", "core/chains/chain.py", r"                        if new_in in output_jac:", "                        if new_in in output_jac and input_name != new_in:"),
    ("C09", "core/chains/chain.py", r"loc_dot = curr_jac @ new_jac", "loc_dot = new_jac @ curr_jac"),
    ("C09", "core/chains/chain.py", r"                                self.jac\[output_name\]\[new_in\] \+= loc_dot", "                                self.jac[output_name][new_in] = loc_dot"),
    ("C09", "core/chains/chain.py", r"self.jac\[output_name\] = MDOChain.copy_jacs\(discipline.jac\[output_name\]\)", "self.jac[output_name] = discipline.jac[output_name]"),
    ("C09", "core/chains/chain.py", r"                            self.jac\[output_name\]\[new_in\] = loc_dot\n\n            elif", "                            self.jac[output_name][new_in] = curr_jac\n\n            elif"),
]

MUTANTS += [
    # ---- reverts of the repairs d39649c, e892c2a, 4723ed2
    ("C15", "core/grammars/pydantic_grammar.py", r"        self.__rebuild_model\(\)\n        return self.__model.model_json_schema\(\)", "        return self.__model.model_json_schema()"),
    ("C15", "core/grammars/pydantic_grammar.py", r"        grammar.__model = create_model\(self.__model.__name__, __base__=self.__model\)", "        grammar.__model = self.__model"),
    ("C15", "core/grammars/pydantic_grammar.py", r"        grammar.__model.model_fields = dict\(self.__model.model_fields\)\n", ""),
    ("C15", "core/grammars/pydantic_grammar.py", r"        grammar.__model.model_fields = dict\(self.__model.model_fields\)", "        grammar.__model.model_fields = self.__model.model_fields"),
    ("C15", "core/grammars/pydantic_grammar.py", r"        grammar.__model.__pydantic_parent_namespace__ = \{\}\n        grammar.__model_needs_rebuild = True", "        grammar.__model.__pydantic_parent_namespace__ = {}\n        grammar.__model_needs_rebuild = False"),
    ("C15", "core/grammars/json_grammar.py", r'            property_json_type = property_description.get\("type"\)', '            property_json_type = property_description["type"]'),
    ("C15", "core/grammars/json_grammar.py", r"                not isinstance\(property_json_type, str\)\n                or property_json_type not in", "                property_json_type not in"),
    ("C15", "core/grammars/json_grammar.py", r"                not isinstance\(property_json_type, str\)\n                or property_json_type not in", "                isinstance(property_json_type, str)\n                or property_json_type not in"),
]

# ---- C08 / C09: MDAChain (contracts/c08_mdachain.py, contracts/c09_mdachain.py)
MUTANTS += [
    ("C08", "mda/mda_chain.py", r"return len\(disciplines\) > 1 or \(", "return len(disciplines) > 2 or ("),
    ("C08", "mda/mda_chain.py", r"and self.coupling_structure.is_self_coupled\(disciplines\[0\]\)", "and self.coupling_structure.is_self_coupled(self.disciplines[0])"),
    ("C08", "mda/mda_chain.py", r"            and self.coupling_structure.is_self_coupled\(disciplines\[0\]\)\n", ""),
    ("C08", "mda/mda_chain.py", r"and not isinstance\(disciplines\[0\], BaseMDA\)", "and isinstance(disciplines[0], BaseMDA)"),
    ("C08", "mda/mda_chain.py", r"if self.__requires_mda\(coupled_disciplines\):", "if not self.__requires_mda(coupled_disciplines):"),
    ("C08", "mda/mda_chain.py", r"if discipline_ in coupled_disciplines", "if discipline_ not in coupled_disciplines"),
    ("C08", "mda/mda_chain.py", r"discipline = coupled_disciplines\[0\]", "discipline = self.disciplines[0]"),
    ("C08", "mda/mda_chain.py", r"                self.inner_mdas.append\(discipline\)\n", "                pass\n"),
    ("C08", "mda/mda_chain.py", r"if self.settings.mdachain_parallelize_tasks:", "if not self.settings.mdachain_parallelize_tasks:"),
    ("C08", "mda/mda_chain.py", r"return MDOChain\(parallel_disciplines\)", "return MDOChain(parallel_disciplines[:1])"),
    ("C08", "mda/mda_chain.py", r"chained_disciplines.append\(process\)", "chained_disciplines = [process]"),
    ("C08", "mda/mda_chain.py", r"process = self.__create_process_from_disciplines\(parallel_tasks\)", "process = self.__create_process_from_disciplines(self.coupling_structure.sequence[0])"),
    ("C08", "mda/mda_chain.py", r"settings_model.coupling_structure = next\(\n                    self.__sub_coupling_structures_iterator\n                \)", "settings_model.coupling_structure = None"),
    ("C08", "mda/mda_chain.py", r"disciplines=ordered_disciplines,", "disciplines=list(coupled_disciplines),"),
    ("C09", "mda/mda_chain.py", r"self.mdo_chain.linearize\(self.io.get_input_data\(\)\)", "self.mdo_chain.linearize(self.io.get_input_data(), execute=False)"),
    ("C09", "mda/mda_chain.py", r"self.mdo_chain.linearize\(self.io.get_input_data\(\)\)", "self.mdo_chain.linearize(self.io.data)"),
    ("C09", "mda/mda_chain.py", r"            self.jac = self.mdo_chain.jac\n", "            pass\n"),
    ("C09", "mda/mda_chain.py", r"if self.settings.chain_linearize:\n            self.mdo_chain.add_differentiated_inputs\(input_names\)\n            self.mdo_chain.add_differentiated_outputs", "if not self.settings.chain_linearize:\n            self.mdo_chain.add_differentiated_inputs(input_names)\n            self.mdo_chain.add_differentiated_outputs"),
    ("C09", "mda/mda_chain.py", r"self.mdo_chain.add_differentiated_outputs\(output_names\)\n            # the Jacobian", "self.mdo_chain.add_differentiated_outputs(input_names)\n            # the Jacobian"),
    ("C09", "mda/mda_chain.py", r"super\(\)._compute_jacobian\(input_names, output_names\)", "super()._compute_jacobian(output_names, input_names)"),
    ("C09", "mda/mda_chain.py", r"            self.mdo_chain.linearize\(self.io.get_input_data\(\)\)\n", ""),
    # ---- C11 DesignSpace.to_hdf / from_hdf and the shape-less csr_array
    ("C11", "algos/design_space.py", r"                value = self\.__current_value\.get\(name\)\n                if value is not None:\n                    var_grp", "                if self.__has_current_value:\n                    value = self.__current_value[name]\n                    var_grp"),
    ("C11", "algos/design_space.py", r"var_grp\.create_dataset\(self\.LB_GROUP, data=variable\.lower_bound\)", "var_grp.create_dataset(self.LB_GROUP, data=variable.upper_bound)"),
    ("C11", "algos/design_space.py", r"data=array\(self\.variable_names, dtype=bytes_\),", "data=array(self.variable_names[1:], dtype=bytes_),"),
    ("C11", "algos/design_space.py", r"                var_grp = design_vars_grp\.require_group\(name\)", "                var_grp = design_vars_grp.require_group(self.variable_names[0])"),
    ("C11", "algos/design_space.py", r"SIZE_GROUP\)\[\(\)\]\n                design_space\.add_variable\(name, size, var_type, l_b, u_b, value\)", "SIZE_GROUP)[()]\n                design_space.add_variable(name, size, var_type, u_b, l_b, value)"),
    ("C11", "algos/design_space.py", r"                value = design_space\.__read_opt_attr_array\(\n                    var_group,\n                    design_space\.VALUE_GROUP,", "                value = design_space.__read_opt_attr_array(\n                    var_group,\n                    design_space.LB_GROUP,"),
    ("C11", "algos/design_space.py", r"                design_space\.add_variable\(name, size, var_type, l_b, u_b, value\)\n", "                design_space.add_variable(name, size, var_type, l_b, u_b, None)\n"),
    ("C11", "caches/_hdf5_file_singleton.py", r"return csr_array\(\(dataset, indices, indptr\), shape\)", "return csr_array((dataset, indices, indptr))"),
]

# ---- C10 (round 2): convex linearisation, first-order Taylor polynomial, negation / offset of linear functions
_CLA, _TAY, _LINF = "core/mdo_functions/convex_linear_approx.py", "core/mdo_functions/taylor_polynomials.py", "core/mdo_functions/mdo_linear_function.py"
MUTANTS += [
    ("C10", _CLA, r"value = atleast_2d\(self.__mdo_function.jac\(merged_vect\)\)", "value = atleast_2d(self.__mdo_function.jac(x_new))"),
    ("C10", _CLA, r"self.__mdo_function.func\(merged_vect\)", "self.__mdo_function.func(x_new)"),
    ("C10", _CLA, r"\+ self.__recipr_coeffs @ inv_step", "- self.__recipr_coeffs @ inv_step"),
    ("C10", _CLA, r"\+ self.__direct_coeffs @ step", "+ self.__direct_coeffs @ inv_step"),
    ("C10", _CLA, r"self.__recipr_coeffs, -\(inv_step\*\*2\)", "self.__recipr_coeffs, inv_step**2"),
    ("C10", _CLA, r"merged_vect = where\(self.__approx_indexes, self.__x_vect, x_new\)\n        step, inv_step", "merged_vect = where(self.__approx_indexes, x_new, self.__x_vect)\n        step, inv_step"),
    ("C10", _CLA, r"merged_vect = where\(self.__approx_indexes, self.__x_vect, x_new\)\n        value = ", "merged_vect = where(self.__approx_indexes, x_new, self.__x_vect)\n        value = "),
    ("C10", _CLA, r"where\(coeffs > self.__sign_threshold, coeffs, 0.0\)", "where(coeffs < self.__sign_threshold, coeffs, 0.0)"),
    ("C10", _CLA, r"self.__x_vect\[self.__approx_indexes\] \*\* 2,", "self.__x_vect[self.__approx_indexes],"),
    ("C10", _CLA, r"jac = atleast_2d\(self.__mdo_function.jac\(x_vect\)\)", "jac = atleast_2d(self.__mdo_function.jac(x_vect + 1.0))"),
    ("C10", _CLA, r"-where\(-coeffs > self.__sign_threshold, coeffs, 0.0\)", "where(-coeffs > self.__sign_threshold, coeffs, 0.0)"),
    ("C10", _CLA, r"inv_step\[nonzero_indexes\] = 1.0 / step\[nonzero_indexes\]", "inv_step[nonzero_indexes] = step[nonzero_indexes]"),
    ("C10", _CLA, r"step = x_new\[self.__approx_indexes\] - self.__x_vect\[self.__approx_indexes\]", "step = x_new[self.__approx_indexes] + self.__x_vect[self.__approx_indexes]"),
    ("C10", _CLA, r"nonzero_indexes = \(absolute\(step\) > self.__sign_threshold\).nonzero\(\)", "nonzero_indexes = (step > self.__sign_threshold).nonzero()"),
    ("C10", _TAY, r"func_val - coefficients @ x_vect,", "func_val + coefficients @ x_vect,"),
    ("C10", _TAY, r"    func_val = function.func\(x_vect\)\n", "    func_val = function.func(-x_vect)\n"),
    ("C10", _TAY, r"    coefficients = function.jac\(x_vect\)\n", "    coefficients = -function.jac(x_vect)\n"),
    ("C10", _LINF, r"-self._value_at_zero,\n            expr", "self._value_at_zero,\n            expr"),
    ("C10", _LINF, r"            -self._coefficients,\n", "            self._coefficients,\n"),
    ("C10", _LINF, r"self._value_at_zero \+ value,", "self._value_at_zero - value,"),
]
MUTANTS += [
    # ---- C05 reverts of the two HDF5Cache repairs (56476e4, 5ec8a9c)
    ("C05", "caches/_hdf5_file_singleton.py", r"            if hdf_node_path in self.__file:\n                del self.__file\[hdf_node_path\]", "            del self.__file[hdf_node_path]"),
    ("C05", "caches/_hdf5_file_singleton.py", r"        if self.__file is not None:\n            self.__close\(\)\n\n    def __close", "        self.__close()\n\n    def __close"),
]

# reverting the repair 81c6c57 (the Jacobian returned by the approximated function is copied before its columns are overwritten)
MUTANTS += [
    ("C10", _CLA, r"value = atleast_2d\(self.__mdo_function.jac\(merged_vect\)\).copy\(\)", "value = atleast_2d(self.__mdo_function.jac(merged_vect))"),
]

MUTANTS += [
    # ---- C17 (c17_consistency): ConsistencyConstraint.__init__
    ("C17", "core/mdo_functions/consistency_constraint.py", r"            self\.__output_couplings, self\.__formulation\n        \)", "            formulation.all_couplings, self.__formulation\n        )"),
    ("C17", "core/mdo_functions/consistency_constraint.py", r"            jac=self\._jac_to_wrap,", "            jac=self.__coupl_func._jac_to_wrap,"),
    ("C17", "core/mdo_functions/consistency_constraint.py", r"            self\._func_to_wrap,\n            self\.__coupl_func\.name,", "            self.__coupl_func.evaluate,\n            self.__coupl_func.name,"),
    ("C17", "core/mdo_functions/consistency_constraint.py", r"            f_type=MDOFunction\.ConstraintType\.EQ,", "            f_type=MDOFunction.ConstraintType.INEQ,"),
    ("C17", "core/mdo_functions/consistency_constraint.py", r"        if self\.__formulation\.normalize_constraints:\n            self\.__norm_fact", "        if not self.__formulation.normalize_constraints:\n            self.__norm_fact"),
    ("C17", "core/mdo_functions/consistency_constraint.py", r"            self\.__norm_fact = 1\.0", "            self.__norm_fact = 0.0"),
    ("C17", "core/mdo_functions/consistency_constraint.py", r"            self\.__norm_fact = self\.__formulation\._get_normalization_factor\(\n                output_couplings\n            \)",
     "            self.__norm_fact = self.__formulation._get_normalization_factor(\n                self.__dv_names_of_disc\n            )"),
    ("C17", "core/mdo_functions/consistency_constraint.py", r"            output_names=self\.__coupl_func\.output_names,", "            output_names=self.__coupl_func.input_names,"),
]

# ---- C10 (round 3): restriction of a linear function, negation of a function (wiring)
_MDOFN = "core/mdo_functions/mdo_function.py"
MUTANTS += [
    ("C10", _LINF, r"if index not in frozen_indexes", "if index in frozen_indexes"),
    ("C10", _LINF, r"frozen_coefficients @ frozen_values \+ self._value_at_zero", "frozen_coefficients @ frozen_values - self._value_at_zero"),
    ("C10", _LINF, r"new_coefficients = self.coefficients\[:, active_indexes\]", "new_coefficients = self.coefficients[:, frozen_indexes]"),
    ("C10", _LINF, r"frozen_coefficients = self.coefficients\[:, frozen_indexes\]", "frozen_coefficients = self.coefficients[:, active_indexes]"),
    ("C10", _LINF, r"for index in range\(self.coefficients.shape\[1\]\)", "for index in range(self.coefficients.shape[0])"),
    ("C10", _MDOFN, r"            self._min_pt,\n            name,", "            self.evaluate,\n            name,"),
    ("C10", _MDOFN, r"jac = self._min_jac if self.has_jac else None", "jac = self.jac if self.has_jac else None"),
    ("C10", _MDOFN, r"f_type=self.f_type,\n            dim=self.dim,", "f_type=self.f_type,\n            dim=0,"),
]

_FRS = "core/mdo_functions/function_restriction.py"
MUTANTS += [
    ("C10", _FRS, r"x_vect\[self._active_indexes\] = x_subvect\n        x_vect\[self.__frozen_indexes\] = self.__frozen_values", "x_vect[self.__frozen_indexes] = self.__frozen_values"),
    ("C10", _FRS, r"x_vect\[self.__frozen_indexes\] = self.__frozen_values\n", "x_vect[self.__frozen_indexes] = -self.__frozen_values\n"),
    ("C10", _FRS, r"return self.__mdo_function.func\(self.__extend_subvect\(x_subvect\)\)", "return self.__mdo_function.func(x_subvect)"),
    ("C10", _FRS, r"            \.\.\., self._active_indexes\n", "            ..., self.__frozen_indexes\n"),
]
MUTANTS += [
    # ---- C18 regressors and data formatters (contracts/c18_regressors.py)
    ("C18", "mlearning/regression/algos/pce.py", r"            jac\[index\] = array\(gradient\(Point\(data\)\)\).T", "            jac[index] = array(gradient(Point(data)))"),
    ("C18", "mlearning/regression/algos/pce.py", r"            jac\[index\] = array\(gradient\(Point\(data\)\)\).T", "            jac[0] = array(gradient(Point(data))).T"),
    ("C18", "mlearning/regression/algos/pce.py", r"            jac\[index\] = array\(gradient\(Point\(data\)\)\).T", "            jac[:] = array(gradient(Point(data))).T"),
    ("C18", "mlearning/regression/algos/pce.py", r"            jac\[index\] = array\(gradient\(Point\(data\)\)\).T", "            jac[index] = array(gradient(Point(input_data[0]))).T"),
    ("C18", "mlearning/regression/algos/pce.py", r"            self._reduced_output_dimension,\n            self._reduced_input_dimension,\n        \)\)\n        for index, data", "            self._reduced_input_dimension,\n            self._reduced_output_dimension,\n        ))\n        for index, data"),
    ("C18", "mlearning/regression/algos/pce.py", r"return array\(self._prediction_function\(input_data\)\)", "return array(self._prediction_function(input_data[:1]))"),
    ("C18", "mlearning/regression/algos/linreg.py", r"return repeat\(self.algo.coef_\[None\], len\(input_data\), axis=0\)", "return repeat(self.algo.coef_.T[None], len(input_data), axis=0)"),
    ("C18", "mlearning/regression/algos/linreg.py", r"return repeat\(self.algo.coef_\[None\], len\(input_data\), axis=0\)", "return repeat(self.algo.coef_[None], 1, axis=0)"),
    ("C18", "mlearning/regression/algos/linreg.py", r"return self.algo.predict\(input_data\).reshape\(\(len\(input_data\), -1\)\)", "return self.algo.predict(input_data * 2).reshape((len(input_data), -1))"),
    ("C18", "mlearning/core/algos/supervised.py", r"        if inverse:\n            function = self.transformer\[name\].inverse_transform", "        if not inverse:\n            function = self.transformer[name].inverse_transform"),
    ("C18", "mlearning/core/algos/supervised.py", r"            if name in names_to_transform:\n                transformed_data.append\(self._transform_data\(data\[name\], name, inverse\)\)", "            if name not in names_to_transform:\n                transformed_data.append(self._transform_data(data[name], name, inverse))"),
    ("C18", "mlearning/core/algos/supervised.py", r"transformed_data.append\(self._transform_data\(data\[name\], name, inverse\)\)", "transformed_data.append(self._transform_data(data[name], name, not inverse))"),
    ("C18", "mlearning/core/algos/supervised.py", r"                transformed_data.append\(data\[name\]\)\n", "                transformed_data.append(data[names[0]])\n"),
    ("C18", "mlearning/core/algos/supervised.py", r"            else:\n                transformed_data.append\(data\[name\]\)\n", "            else:\n                pass\n"),
    ("C18", "mlearning/core/algos/supervised.py", r"transformed_data.append\(self._transform_data\(data\[name\], name, inverse\)\)", "transformed_data.append(self._transform_data(data[names[0]], name, inverse))"),
    ("C18", "mlearning/data_formatters/supervised_data_formatters.py", r"input_data, algo.learning_set.INPUT_GROUP, False\n", "input_data, algo.learning_set.INPUT_GROUP, True\n"),
    ("C18", "mlearning/data_formatters/supervised_data_formatters.py", r"output_data, algo.learning_set.OUTPUT_GROUP, True\n", "output_data, algo.learning_set.INPUT_GROUP, True\n"),
    ("C18", "mlearning/data_formatters/supervised_data_formatters.py", r"output_data, algo.learning_set.OUTPUT_GROUP, True\n", "output_data, algo.learning_set.OUTPUT_GROUP, False\n"),
    ("C18", "mlearning/data_formatters/supervised_data_formatters.py", r"                    algo._output_variables_to_transform,\n                    True,", "                    algo._output_variables_to_transform,\n                    False,"),
    ("C18", "mlearning/data_formatters/supervised_data_formatters.py", r"                            algo.input_names,\n", "                            algo.output_names,\n"),
    ("C18", "mlearning/data_formatters/supervised_data_formatters.py", r"                if algo._transform_output_group:\n", "                if algo._transform_input_group:\n"),
    ("C18", "mlearning/data_formatters/regression_data_formatters.py", r"jac = func\(algo, input_data, \*args, \*\*kwargs\) @ jac", "jac = jac @ func(algo, input_data, *args, **kwargs)"),
    ("C18", "mlearning/data_formatters/regression_data_formatters.py", r"                jac = algo.transformer\[inputs\].compute_jacobian\(input_data\)\n                input_data = algo.transformer\[inputs\].transform\(input_data\)\n", "                input_data = algo.transformer[inputs].transform(input_data)\n                jac = algo.transformer[inputs].compute_jacobian(input_data)\n"),
    ("C18", "mlearning/data_formatters/regression_data_formatters.py", r"algo.transformer\[outputs\].compute_jacobian_inverse\(output_data\)\n                    @ jac", "algo.transformer[outputs].compute_jacobian(output_data)\n                    @ jac"),
    ("C18", "mlearning/data_formatters/regression_data_formatters.py", r"algo.transformer\[outputs\].compute_jacobian_inverse\(output_data\)\n                    @ jac", "algo.transformer[outputs].compute_jacobian_inverse(input_data)\n                    @ jac"),
    ("C18", "mlearning/data_formatters/regression_data_formatters.py", r"jac = eye\(input_data.shape\[1\]\)", "jac = eye(input_data.shape[0])"),
    ("C18", "mlearning/data_formatters/regression_data_formatters.py", r"                algo._input_variables_to_transform\n                or algo._output_variables_to_transform", "                algo._input_variables_to_transform\n                and algo._output_variables_to_transform"),
]

# ---- C16 / C13 discipline-level glue (contracts/c16_discipline.py)
MUTANTS += [
    # BaseGradientApproximator.f_gradient / generate_perturbations
    ("C16", "utils/derivatives/base_gradient_approximator.py", r"return array\(grad, dtype=float64\)\.T", "return array(grad, dtype=float64)"),
    ("C16", "utils/derivatives/base_gradient_approximator.py", r"grad = compute\(x_vect, input_perturbations, steps, \*\*kwargs\)", "grad = compute(x_vect, input_perturbations, self.step, **kwargs)"),
    ("C16", "utils/derivatives/base_gradient_approximator.py", r"            x_indices = range\(n_dim\)", "            x_indices = range(n_dim - 1)"),
    ("C16", "utils/derivatives/base_gradient_approximator.py", r"        if step is None:\n            step = self\.step\n\n        if not x_indices", "        step = self.step\n\n        if not x_indices"),
    ("C13", "utils/derivatives/base_gradient_approximator.py", r"compute = self\._compute_parallel_grad if self\._parallel else self\._compute_grad\n        grad = compute\(x_vect, input_perturbations, steps", "compute = self._compute_parallel_grad if self._parallel else self._compute_grad\n        grad = compute(x_vect + 1.0, input_perturbations, steps"),
    # CenteredDifferences._compute_parallel_grad
    ("C13", "utils/derivatives/centered_differences.py", r"\(\(output_plus - output_minus\) / norm\(input_plus - input_minus\)\)\.real", "((output_minus - output_plus) / norm(input_plus - input_minus)).real"),
    ("C13", "utils/derivatives/centered_differences.py", r"\[self\._wrap_function\] \* n_perturbations, \*\*self\._parallel_args", "[self._wrap_function] * (n_perturbations - 1), **self._parallel_args"),
    ("C13", "utils/derivatives/centered_differences.py", r"                output_perturbations\[n_perturbations_ : 2 \* n_perturbations_\],", "                output_perturbations[:n_perturbations_],"),
    # split_array_to_dict_of_arrays
    ("C16", "utils/data_conversion.py", r"        first_index \+= size\n\n    return result", "        first_index += 1\n\n    return result"),
    ("C16", "utils/data_conversion.py", r"indices\[dimension\] = slice\(first_index, first_index \+ size\)", "indices[dimension] = slice(first_index, size)"),
    ("C16", "utils/data_conversion.py", r"indices\[dimension\] = slice\(first_index, first_index \+ size\)", "indices[-1] = slice(first_index, first_index + size)"),
    ("C16", "utils/data_conversion.py", r"                \*names\[1:\],\n                check_consistency", "                *names[:1],\n                check_consistency"),
    # DisciplineJacApprox.compute_approx_jac
    ("C16", "utils/derivatives/derivatives_approx.py", r"flat_jac_complete\[:, x_indices\] = flat_jac", "flat_jac_complete[:, : len(x_indices)] = flat_jac"),
    ("C16", "utils/derivatives/derivatives_approx.py", r"flat_jac_complete, data_names_to_sizes, output_names, input_names\n", "flat_jac_complete, data_names_to_sizes, input_names, output_names\n"),
    ("C16", "utils/derivatives/derivatives_approx.py", r"        if not x_indices:\n            flat_jac_complete = flat_jac\n        else:", "        if x_indices:\n            flat_jac_complete = flat_jac\n        else:"),
    ("C16", "utils/derivatives/derivatives_approx.py", r"                sum\(data_names_to_sizes\.values\(\)\),\n                sum\(input_names_to_sizes\.values\(\)\),", "                sum(input_names_to_sizes.values()),\n                sum(data_names_to_sizes.values()),"),
    ("C16", "utils/derivatives/derivatives_approx.py", r"self\.approximator\.f_gradient\(x_vect, x_indices=x_indices, step=step\)", "self.approximator.f_gradient(x_vect, step=step)"),
    # Discipline.__compute_jacobian
    ("C16", "core/discipline/discipline.py", r"self\.__output_names, self\.__input_names\n            \)\n        else:", "self.__input_names, self.__output_names\n            )\n        else:"),
    ("C16", "core/discipline/discipline.py", r"            self\.jac = self\._jac_approx\.compute_approx_jac\(", "            self._jac_approx.compute_approx_jac("),
]
MUTANTS += [
    # ---- C18 BaseTransformer._use_2d_array.g (contracts/c18_regressors.py)
    ("C18", "mlearning/transformers/base_transformer.py", r"out = f\(self, atleast_2d\(data\), \*args, \*\*kwargs\)", "out = f(self, atleast_2d(data * 2), *args, **kwargs)"),
    ("C18", "mlearning/transformers/base_transformer.py", r"                return f\(self, data, \*args, \*\*kwargs\)", "                return f(self, data * 2, *args, **kwargs)"),
    ("C18", "mlearning/transformers/base_transformer.py", r"            if not isinstance\(out, ndarray\):\n                return out\n", "            if isinstance(out, ndarray):\n                return out\n"),
]

MUTANTS += [
    # ---- C17 (c17_consistency): ConsistencyConstraint._jac_to_wrap (matrix Jacobian)
    ("C17", "core/mdo_functions/consistency_constraint.py", r"= eye\(x_len\)", "= 2 * eye(x_len)"),
    ("C17", "core/mdo_functions/consistency_constraint.py", r"                    if x_i == out:", "                    if x_i != out:"),
    ("C17", "core/mdo_functions/consistency_constraint.py", r"x_jac_2d\[o_min:o_max, i_min:i_max\]", "x_jac_2d[i_min:i_max, o_min:o_max]"),
    ("C17", "core/mdo_functions/consistency_constraint.py", r"                    i_min = i_max\n", "                    i_min = i_max + 1\n"),
    ("C17", "core/mdo_functions/consistency_constraint.py", r"                o_min = o_max\n", "                o_min = 0\n"),
    ("C17", "core/mdo_functions/consistency_constraint.py", r"            return \(coupl_jac - x_jac\) / self\.__norm_fact\[:, newaxis\]", "            return (coupl_jac + x_jac) / self.__norm_fact[:, newaxis]"),
    ("C17", "core/mdo_functions/consistency_constraint.py", r"            return \(coupl_jac - x_jac\) / self\.__norm_fact\[:, newaxis\]", "            return coupl_jac / self.__norm_fact[:, newaxis] - x_jac"),
    ("C17", "core/mdo_functions/consistency_constraint.py", r"        return coupl_jac - x_jac$", "        return coupl_jac"),
    ("C17", "core/mdo_functions/consistency_constraint.py", r"                    x_len = self\.__dv_len\[x_i\]", "                    x_len = self.__dv_len[out]"),
]

MUTANTS += [
    # ---- C06 (contracts/c06_mda.py): stop criterion, scaling table, residuals, Gauss-Seidel / Jacobi / Newton loops, sequential MDA
    ("C06", "mda/base_mda_solver.py", r"residual_is_small = self.normed_residual <= self.settings.tolerance", 'residual_is_small = self.normed_residual < self.settings.tolerance'),
    ("C06", "mda/base_mda_solver.py", r"max_iter_is_reached = self.settings.max_mda_iter <= self._current_iter", 'max_iter_is_reached = self.settings.max_mda_iter < self._current_iter'),
    ("C06", "mda/base_mda_solver.py", r"return residual_is_small or max_iter_is_reached", 'return residual_is_small and max_iter_is_reached'),
    ("C06", "mda/base_mda_solver.py", r"scaling_data = normed_residual if normed_residual != 0 else 1.0", 'scaling_data = normed_residual'),
    ("C06", "mda/base_mda_solver.py", r"        self._scaling_data = scaling_data\n", '        pass\n'),
    ("C06", "mda/base_mda_solver.py", r"            if scaling_data is None:\n                scaling_data = residual.size\*\*0.5", '            if True:\n                scaling_data = residual.size**0.5'),
    ("C06", "mda/base_mda_solver.py", r"normed_residual = np_abs\(residual / scaling_data\).max\(\)", 'normed_residual = np_abs(scaling_data / residual).max()'),
    ("C06", "mda/base_mda_solver.py", r"            self._current_iter \+= 1", '            self._current_iter += 2'),
    ("C06", "mda/base_mda_solver.py", r"            self.residual_history.append\(self.normed_residual\)", '            self.residual_history.append(0.0)'),
    ("C06", "mda/gauss_seidel.py", r"        input_data = input_data or self.io.data\n", '        input_data = self.io.data.copy()\n'),
    ("C06", "mda/gauss_seidel.py", r"            self._compute_residuals\(local_data_before_execution\)", '            self._compute_residuals(self.io.data)'),
    ("C06", "mda/gauss_seidel.py", r"(self.get_current_resolved_variables_vector\(\)),\n(\s+)(self.get_current_resolved_residual_vector\(\)),", '\\3,\\n\\2\\1,'),
    ("C06", "mda/gauss_seidel.py", r"            if self._stop_criterion_is_reached:\n                break\n", '            if not self._stop_criterion_is_reached:\n                break\n'),
    ("C06", "mda/gauss_seidel.py", r"            local_data_before_execution = self.io.data.copy\(\)\n", '            local_data_before_execution = self.io.data\n'),
    ("C06", "mda/jacobi.py", r"            discipline.execute\(self.io.data\)\n", '            discipline.execute(self.io.data)\n            self.io.data.update(discipline.io.get_output_data())\n'),
    ("C06", "mda/jacobi.py", r"            self._update_local_data_from_array\(updated_couplings\)", '            pass'),
    ("C06", "mda/jacobi.py", r"            self._execute_disciplines_and_update_local_data\(\)\n            self._compute_residuals", '            self._compute_residuals'),
    ("C06", "mda/base_mda_solver.py", r"residual = local_data_array - input_data_array", 'residual = input_data_array - local_data_array'),
    ("C06", "mda/base_mda_solver.py", r"                if name in self._resolved_variable_names:\n", '                if name not in self._resolved_variable_names:\n'),
    ("C06", "mda/base_mda_solver.py", r"local_data_array = converter.convert_data_to_array\(\[name\], self.io.data\)", 'local_data_array = converter.convert_data_to_array([name], input_data)'),
    ("C06", "mda/sequential_mda.py", r"            if mda.normed_residual < self.settings.tolerance:\n                break", '            if mda.normed_residual < self.settings.tolerance:\n                pass'),
    ("C06", "mda/sequential_mda.py", r"            self.io.data = mda.execute\(self.io.data\)", '            mda.execute(self.io.data)'),
    ("C06", "mda/newton_raphson.py", r"                input_couplings \+ newton_step,", '                input_couplings - newton_step,'),
    ("C06", "mda/newton_raphson.py", r"            newton_step = self.__compute_newton_step\(local_data_before_execution\)", '            newton_step = self.__compute_newton_step(self.io.data)'),
]

# ---- C19: parameter space (transformations, evaluate_cdf, removal, queries), distribution wrappers, joint distributions, named SciPy distributions
_PSP = "algos/parameter_space.py"
_UD = "uncertainty/distributions/"
MUTANTS += [
    ("C19", _PSP, r'"compute_inverse_cdf" if inverse else "compute_cdf"', '"compute_cdf" if inverse else "compute_inverse_cdf"'),
    ("C19", _PSP, r"compute = getattr\(self\.distributions\[name\], method_name\)", "compute = getattr(self.distributions[self.uncertain_variables[0]], method_name)"),
    ("C19", _PSP, r"input_samples = value\[name\]", "input_samples = value[self.uncertain_variables[0]]"),
    ("C19", _PSP, r"\(value > 1\.0\)\.any\(\)", "(value > 2.0).any()"),
    ("C19", _PSP, r"if variable not in self\.uncertain_variables:", "if variable in self.uncertain_variables:"),
    ("C19", _PSP, r"if value\.shape\[-1\] != self\._variables\[variable\]\.size:", "if value.shape[-1] > self._variables[variable].size:"),
    ("C19", _PSP, r"x_n = self\.evaluate_cdf\(dict_sample\)", "x_n = self.evaluate_cdf(dict_sample, inverse=True)"),
    ("C19", _PSP, r"missing_names = \[name for name in data_names if name not in x_n\]", "missing_names = [name for name in data_names if name in x_n]"),
    ("C19", _PSP, r"x_n\[name\] = x_n_geom\[name\]", "x_n[name] = dict_sample[name]"),
    ("C19", _PSP, r"x_u_geom = super\(\)\.unnormalize_vect\(\n            x_vect, minus_lb=minus_lb, no_check=no_check\n        \)", "x_u_geom = super().normalize_vect(x_vect, minus_lb=minus_lb)"),
    ("C19", _PSP, r"return concatenate_dict_of_arrays_to_array\(x_u, data_names\)", "return concatenate_dict_of_arrays_to_array(x_u_geom, data_names)"),
    ("C19", _PSP, r"split_array_to_dict_of_arrays\(x_vect, data_sizes, data_names\), inverse=True", "split_array_to_dict_of_arrays(x_u_geom, data_sizes, data_names), inverse=True"),
    ("C19", _PSP, r"return self\.normalize_vect\(vector, use_dist=True, out=out\)", "return self.normalize_vect(vector, use_dist=False, out=out)"),
    ("C19", _PSP, r"return self\.unnormalize_vect\(vector, use_dist=True, no_check=no_check, out=out\)", "return self.unnormalize_vect(vector, use_dist=False, no_check=no_check, out=out)"),
    ("C19", _PSP, r"        if not use_dist:\n            return super\(\)\.normalize_vect\(x_vect, minus_lb=minus_lb, out=out\)", "        if use_dist:\n            return super().normalize_vect(x_vect, minus_lb=minus_lb, out=out)"),
    ("C19", _PSP, r"            del self\.distributions\[name\]\n", "            pass\n"),
    ("C19", _PSP, r"self\.uncertain_variables\.remove\(name\)", "self.uncertain_variables.pop()"),
    ("C19", _PSP, r"        super\(\)\.remove_variable\(name\)\n", "        pass\n"),
    ("C19", _PSP, r"deterministic = self\._variables\.keys\(\) - set\(self\.uncertain_variables\)", "deterministic = self._variables.keys()"),
    ("C19", _PSP, r"return self\.distributions\[variable\]\.range", "return self.distributions[variable].support"),
    ("C19", _PSP, r"        return variable in self\.uncertain_variables\n", "        return variable in self._variables\n"),
    ("C19", _UD + "scipy/distribution.py", r"return self\.distribution\.ppf\(value\)", "return self.distribution.cdf(value)"),
    ("C19", _UD + "scipy/distribution.py", r"self\.num_upper_bound = distribution\.ppf\(1 - extrema_level\)", "self.num_upper_bound = distribution.ppf(extrema_level)"),
    ("C19", _UD + "scipy/distribution.py", r"return self\.distribution\.mean\(\)", "return self.distribution.std()"),
    ("C19", _UD + "scipy/distribution.py", r"return self\.distribution\.rvs\(n_samples, random_state\)", "self.distribution.rvs(n_samples, random_state)\n        return self.distribution.rvs(n_samples, random_state)"),
    ("C19", _UD + "openturns/distribution.py", r"        self\.__set_bounds\(distribution\)\n        self\.distribution = distribution", "        self.distribution = distribution"),
    ("C19", _UD + "openturns/distribution.py", r"if not range_\.getFiniteLowerBound\(\)\[0\]:", "if range_.getFiniteLowerBound()[0]:"),
    ("C19", _UD + "openturns/distribution.py", r"return self\.distribution\.getMean\(\)\[0\]", "return self.distribution.getStandardDeviation()[0]"),
    ("C19", _UD + "openturns/distribution.py", r"return self\.distribution\.computeQuantile\(value\)\[0\]", "return self.distribution.computeCDF(value)"),
    ("C19", _UD + "openturns/distribution.py", r"        if transformation:\n            distribution = self\.__transform_distribution\(distribution, transformation\)\n\n        self\.__set_bounds\(distribution\)\n        if lower_bound is not None or upper_bound is not None:\n            distribution = self\.__truncate_distribution\(\n                distribution, lower_bound, upper_bound, threshold\n            \)",
     "        if lower_bound is not None or upper_bound is not None:\n            distribution = self.__truncate_distribution(\n                distribution, lower_bound, upper_bound, threshold\n            )\n\n        self.__set_bounds(distribution)\n        if transformation:\n            distribution = self.__transform_distribution(distribution, transformation)"),
    ("C19", _UD + "scipy/joint.py", r"zip\(value, self\.marginals\)\n        \]\)\n\n    def compute_inverse", "zip(value, reversed(self.marginals))\n        ])\n\n    def compute_inverse"),
    ("C19", _UD + "openturns/joint.py", r"marginal\.distribution\.computeQuantile\(value_\)\[0\]", "marginal.distribution.computeCDF(value_)"),
    ("C19", _UD + "base_joint.py", r"column_stack\(\[self\.num_lower_bound, self\.num_upper_bound\]\)", "column_stack([self.num_upper_bound, self.num_lower_bound])"),
    ("C19", _UD + "base_joint.py", r"return array\(\[marginal\.mean for marginal in self\.marginals\]\)", "return array([marginal.standard_deviation for marginal in self.marginals])"),
    ("C19", _UD + "base_joint.py", r"distribution\.math_upper_bound for distribution in distributions", "distribution.math_lower_bound for distribution in distributions"),
    ("C19", _UD + "base_distribution.py", r"return array\(\[self\.math_lower_bound, self\.math_upper_bound\]\)", "return array([self.num_lower_bound, self.num_upper_bound])"),
    ("C19", _UD + "base_distribution.py", r"self\._create_distribution\(interfaced_distribution, parameters, \*\*options\)", "self._create_distribution(interfaced_distribution, standard_parameters, **options)"),
    ("C19", _UD + "scipy/uniform.py", r'"scale": maximum - minimum', '"scale": maximum'),
    ("C19", _UD + "scipy/normal.py", r'\{"loc": mu, "scale": sigma\}', '{"loc": sigma, "scale": mu}'),
    ("C19", _UD + "scipy/triangular.py", r"\(mode - minimum\) / float\(maximum - minimum\)", "mode / float(maximum - minimum)"),
    ("C19", _UD + "scipy/exponential.py", r'"scale": 1 / rate', '"scale": rate'),
    ("C19", _UD + "scipy/beta.py", r'"a": alpha,\n                "b": beta,', '"a": beta,\n                "b": alpha,'),
]

# ---- backup clauses of C12 attached to C11 / C03 / C01 (contracts/c12_backup_clauses.py)
_BS = "scenarios/base_scenario.py"
MUTANTS += [
    # the database export starts while the handle of the description block is still open
    ("C11", "algos/optimization_problem.py", r"^        self\.database\.to_hdf\(file_path, append=True, hdf_node_path=hdf_node_path\)", "            self.database.to_hdf(file_path, append=True, hdf_node_path=hdf_node_path)"),
    ("C11", "algos/database.py", r"            self, file_path, append, hdf_node_path=hdf_node_path\n        \)\n\n    @classmethod", "            self, file_path, not append, hdf_node_path=hdf_node_path\n        )\n\n    @classmethod"),
    # a file handle is never closed (no context manager): stated on OptimizationProblem.to_hdf, whose block is followed by the database export.
    # (The same mutation of HDFDatabase.to_file is caught too - every `post:exported-view:*` / `file-handle-closed` of to_file@c12 fails - but it leaves several hundred
    #  obligations undecided, i.e. about 15 minutes of solver retries per run: not registered.)
    ("C11", "algos/optimization_problem.py", r'        with h5py\.File\(file_path, "a" if append else "w"\) as h5file:\n            if hdf_node_path:\n                h5file = h5file\.require_group\(hdf_node_path\)\n\n            if not append',
     '        h5file = h5py.File(file_path, "a" if append else "w")\n        if True:\n            if hdf_node_path:\n                h5file = h5file.require_group(hdf_node_path)\n\n            if not append'),
    # no full-export fall-back when the node is empty (first backup export)
    ("C11", "algos/_hdf_database.py", r"if append and len\(design_vars_grp\) != 0:", "if append:"),
    ("C11", _BS, r"        self\.save_optimization_history\(self\._opt_hist_backup_path, append=True\)", "        pass"),
    # the final export of execute is guarded by the wrong comparison (never fires when points were added)
    ("C11", _BS, r"            if n_x < n_x_a:", "            if n_x_a < n_x:"),
    # revert of the repair 6142829: the final export is skipped for a run that starts from an empty database
    ("C11", _BS, r"            if n_x < n_x_a:", "            if 0 < n_x < n_x_a:"),
    # listener protocol
    ("C03", "algos/database.py", r"        self\.__hdf_database\.add_pending_array\(hashed_input_value\)\n", ""),
    ("C03", "algos/database.py", r"        stored_outputs = self\.get\(hashed_input_value\)\n", "        if self.__store_listeners:\n            self.notify_store_listeners(x_vect)\n        stored_outputs = self.get(hashed_input_value)\n"),
    ("C03", "algos/evaluation_problem.py", r"        if at_each_function_call:\n            self\.database\.add_store_listener\(listener\)", "        if at_each_function_call:\n            self.database.add_new_iter_listener(listener)"),
    ("C03", "algos/evaluation_problem.py", r"        if at_each_iteration:\n            self\.database\.add_new_iter_listener\(listener\)", "        if at_each_function_call:\n            self.database.add_new_iter_listener(listener)"),
    ("C03", _BS, r"            at_each_iteration=at_each_iteration,\n            at_each_function_call=at_each_function_call,\n        \)\n\n        if plot:", "            at_each_iteration=at_each_function_call,\n            at_each_function_call=at_each_iteration,\n        )\n\n        if plot:"),
    ("C03", _BS, r"            if erase and load:", "            if erase or load:"),
    ("C03", _BS, r"                self\._opt_hist_backup_path\.unlink\(\)\n", "                pass\n"),
    ("C03", _BS, r"                    opt_pb\.evaluation_counter\.current = max_iteration", "                    opt_pb.evaluation_counter.current = 0"),
    ("C01", _BS, r"                    opt_pb\.evaluation_counter\.current = max_iteration", "                    opt_pb.evaluation_counter.current = max_iteration - 1"),
    ("C01", _BS, r"                opt_pb\.database\.update_from_hdf\(self\._opt_hist_backup_path\)\n", "                pass\n"),
    ("C03", _BS, r"            elif load:\n", "            elif not load:\n"),
    ("C03", _BS, r"        opt_pb\.add_listener\(\n            self\._execute_backup_callback,", "        opt_pb.add_listener(\n            self._execute_plot_callback,"),
]

MUTANTS += [
    # ---- C17 (c17_consistency): ConsistencyConstraint._jac_to_wrap (gradient of a scalar coupling)
    ("C17", "core/mdo_functions/consistency_constraint.py", r"self\.__output_couplings, ones_like\(x_vect\)", "self.__output_couplings, 2 * ones_like(x_vect)"),
    ("C17", "core/mdo_functions/consistency_constraint.py", r"self\.__output_couplings, ones_like\(x_vect\)", "self.__formulation.get_optim_variable_names(), ones_like(x_vect)"),
]

MUTANTS += [
    # ---- C17 (c17_build): DisciplinaryOpt / DesignSpace.filter
    ("C17", "formulations/disciplinary_opt.py", r"MDOChain\(disciplines\) if len\(disciplines\) > 1 else disciplines\[0\],", "MDOChain(disciplines) if len(disciplines) > 2 else disciplines[0],"),
    ("C17", "formulations/disciplinary_opt.py", r"MDOChain\(disciplines\) if len\(disciplines\) > 1 else disciplines\[0\],", "disciplines[0],"),
    ("C17", "formulations/disciplinary_opt.py", r"        self\._filter_design_space\(\)\n", "        pass\n"),
    ("C17", "formulations/disciplinary_opt.py", r"set\(all_input_names\)\.intersection\(design_space\)", "set(all_input_names)"),
    ("C17", "formulations/disciplinary_opt.py", r"get_all_inputs\(self\.get_top_level_disciplines\(\)\)", "get_all_inputs(self.disciplines)"),
    ("C17", "formulations/disciplinary_opt.py", r"        design_space\.filter\(kept_variable_names\)", "        design_space.filter(kept_variable_names, copy=True)"),
    ("C17", "algos/design_space.py", r"        for name in self\.variable_names:\n            if name not in keep_variables:", "        for name in self.variable_names:\n            if name in keep_variables:"),
    ("C17", "algos/design_space.py", r"        for name in self\.variable_names:\n            if name not in keep_variables:", "        for name in self.variable_names[1:]:\n            if name not in keep_variables:"),
    ("C17", "algos/design_space.py", r"        for name in keep_variables:\n            self\.__check_known_variable\(name\)\n", ""),
    ("C17", "algos/design_space.py", r"            self\.__check_known_variable\(name\)\n        return design_space", "            self.__check_known_variable(name)\n        return None"),
]

# ---- C19: reverts of the repair bc82ce9 (minus_lb forwarded to the design-space maps)
MUTANTS += [
    ("C19", _PSP, r"return super\(\)\.normalize_vect\(x_vect, minus_lb=minus_lb, out=out\)", "return super().normalize_vect(x_vect, out=out)"),
    ("C19", _PSP, r"x_n_geom = super\(\)\.normalize_vect\(x_vect, minus_lb=minus_lb\)", "x_n_geom = super().normalize_vect(x_vect)"),
    ("C19", _PSP, r"x_vect, minus_lb=minus_lb, no_check=no_check, out=out\n", "x_vect, no_check=no_check, out=out\n"),
    ("C19", _PSP, r"x_vect, minus_lb=minus_lb, no_check=no_check\n", "x_vect, no_check=no_check\n"),
    ("C19", _PSP, r"return self\.__normalize_vect\(x_vect, minus_lb\)", "return self.__normalize_vect(x_vect, True)"),
    ("C19", _PSP, r"return self\.__unnormalize_vect\(x_vect, minus_lb, no_check\)", "return self.__unnormalize_vect(x_vect, True, no_check)"),
]

MUTANTS += [
    # ---- C17 (c17_build): BaseFormulation._remove_sub_scenario_dv_from_ds
    ("C17", "formulations/base_formulation.py", r"                if var in self\.optimization_problem\.design_space:", "                if var not in self.optimization_problem.design_space:"),
    ("C17", "formulations/base_formulation.py", r"                    self\.optimization_problem\.design_space\.remove_variable\(var\)", "                    pass"),
    ("C17", "formulations/base_formulation.py", r"        for scenario in self\.get_sub_scenarios\(\):\n            for var", "        for scenario in self.get_sub_scenarios()[1:]:\n            for var"),
    ("C17", "formulations/base_formulation.py", r"                    self\.optimization_problem\.design_space\.remove_variable\(var\)", "                    self.optimization_problem.design_space.remove_variable(var)\n                    break"),
]
MUTANTS += [
    # the backup listener is registered BEFORE the backup file is loaded (it would be notified of the points being loaded)
    ("C03", _BS, r"        if self\._opt_hist_backup_path\.exists\(\):\n",
     "        opt_pb.add_listener(self._execute_backup_callback, at_each_iteration=at_each_iteration, at_each_function_call=at_each_function_call)\n        if self._opt_hist_backup_path.exists():\n"),
]

# ---- C19 (round 2): registration of random vectors / variables, joint distribution rebuilt on removal, samples
MUTANTS += [
    ("C19", _PSP, r"        u_b = self\.distributions\[name\]\.math_upper_bound", "        u_b = self.distributions[name].num_upper_bound"),
    ("C19", _PSP, r"        value = self\.distributions\[name\]\.mean", "        value = self.distributions[name].standard_deviation"),
    ("C19", _PSP, r"        self\.uncertain_variables\.append\(name\)\n\n        # Update the full joint distribution,\n        # i\.e\. the joint distribution of all the uncertain variables\.\n        self\.build_joint_distribution\(\)",
     "        self.build_joint_distribution()\n        self.uncertain_variables.append(name)"),
    ("C19", _PSP, r"            l_b,\n            u_b,\n            value,", "            u_b,\n            l_b,\n            value,"),
    ("C19", _PSP, r"            self\.distributions\[name\]\.dimension,\n            self\.DesignVariableType\.FLOAT,", "            1,\n            self.DesignVariableType.FLOAT,"),
    ("C19", _PSP, r"            self\.__distribution_family_id = distribution_family_id", "            pass"),
    ("C19", _PSP, r"        self\.distributions\[name\] = joint_distribution_class\(marginals\)", "        self.distributions[name] = joint_distribution_class(marginals[:1])"),
    ("C19", _PSP, r"            name,\n            distribution,\n            size,\n            \*\*kwargs,", "            name,\n            distribution,\n            1,\n            **kwargs,"),
    ("C19", _PSP, r"            name,\n            distribution,\n            size,\n            \*\*kwargs,", "            name,\n            name,\n            size,\n            **kwargs,"),
    ("C19", _PSP, r"            if self\.uncertain_variables:\n                self\.build_joint_distribution\(\)\n            else:\n                self\.distribution = None\n", "            self.distribution = None\n"),
    ("C19", _PSP, r"data_array, self\.variable_sizes, self\.uncertain_variables", "data_array, self.variable_sizes, list(self._variables)"),
    ("C19", _PSP, r"sample = self\.distribution\.compute_samples\(n_samples\)", "sample = self.distribution.compute_samples(n_samples + 1)"),
]

# ---- C16 per-component steps with a subset of components (revert of 07a0abc + semantic mutants)
MUTANTS += [
    ("C16", "utils/derivatives/base_gradient_approximator.py", r"        elif isinstance\(step, ndarray\) and step\.size == n_dim:\n            # One step by input component: keep the steps of the components of interest\.\n            step = step\[list\(x_indices\)\]\n", ""),
    ("C16", "utils/derivatives/base_gradient_approximator.py", r"            step = step\[list\(x_indices\)\]", "            step = step[: len(x_indices)]"),
    ("C13", "utils/derivatives/base_gradient_approximator.py", r"            step = step\[list\(x_indices\)\]", "            step = step[list(x_indices)] * 2.0"),
]

MUTANTS += [
    # ---- C06 follow-up: scaling setters (revert of fix 05f502e first), Newton step delegation, residual function of MDAQuasiNewton
    ("C06", "mda/quasi_newton.py", r"        self.io.data = local_data_copy\n", '        pass\n'),
    ("C06", "mda/quasi_newton.py", r"        self._compute_residuals\(local_data_before_execution\)\n        return", '        self._compute_residuals(self.io.data)\n        return'),
    ("C06", "mda/quasi_newton.py", r"        self._execute_disciplines_and_update_local_data\(local_data_before_execution\)", '        self._execute_disciplines_and_update_local_data()'),
    ("C06", "mda/newton_raphson.py", r"        self._linearize_disciplines\(input_data\)\n", '        self._linearize_disciplines(self.io.data)\n'),
    ("C06", "mda/newton_raphson.py", r"            input_data,\n            self._resolved_variable_names,", '            input_data,\n            self._resolved_residual_names,'),
    ("C06", "mda/base_mda_root.py", r"                input_data, execute=self.settings.execute_before_linearizing", '                input_data, execute=True'),
    ("C06", "mda/base_mda.py", r"        self._scaling_data = None\n\n    def _initialize_grammars", '        pass\n\n    def _initialize_grammars'),
    ("C06", "mda/sequential_mda.py", r"        for mda in self.mda_sequence:\n            mda.scaling = scaling", '        for mda in self.mda_sequence:\n            pass'),
    ("C06", "mda/mda_chain.py", r"        self._scaling = scaling\n        for mda in self.inner_mdas:", '        for mda in self.inner_mdas:'),
    ("C06", "mda/newton_raphson.py", r"            residuals=self.get_current_resolved_residual_vector\(\),", '            residuals=self.get_current_resolved_variables_vector(),'),
]

# ---- C16 DisciplineJacApprox.check_jacobian comparison loop (contracts/c16_discipline.py)
MUTANTS += [
    ("C16", "utils/derivatives/derivatives_approx.py", r"                        succeed = succeed and success_loc", "                        succeed = succeed or success_loc"),
    ("C16", "utils/derivatives/derivatives_approx.py", r"if approx_jac\.shape != computed_jac\.shape:\n                    succeed = False", "if approx_jac.shape != computed_jac.shape:\n                    succeed = True"),
    ("C16", "utils/derivatives/derivatives_approx.py", r"computed_jac, approx_jac, atol=threshold, rtol=threshold", "computed_jac, approx_jac, atol=threshold, rtol=1.0"),
    ("C16", "utils/derivatives/derivatives_approx.py", r"        succeed = True\n\n        for output_name, output_jacobian", "        succeed = False\n\n        for output_name, output_jacobian"),
    ("C16", "utils/derivatives/derivatives_approx.py", r"                    if not success_loc:\n                        err = amax", "                    if success_loc:\n                        err = amax"),
]

# ---- C19 (round 2b): log-normal parameters, rename of an uncertain variable
MUTANTS += [
    ("C19", _UD + "_log_normal_utils.py", r"\(\(sigma / mu_location\) \*\* 2 \+ 1\) \*\* 0\.5", "((sigma / mu) ** 2 + 1) ** 0.5"),
    ("C19", _UD + "_log_normal_utils.py", r"sigma_l = \(2 \* \(log\(mu_location\) - mu_l\)\) \*\* 0\.5", "sigma_l = (log(mu_location) - mu_l) ** 0.5"),
    ("C19", _UD + "_log_normal_utils.py", r"    mu_location = mu - location", "    mu_location = mu + location"),
    ("C19", _UD + "scipy/log_normal.py", r'"scale": exp\(log_mu\)', '"scale": log_mu'),
    ("C19", _UD + "scipy/log_normal.py", r'\{"s": log_sigma, "loc": location,', '{"s": sigma, "loc": location,'),
    ("C19", _UD + "openturns/log_normal.py", r"parameters=\(log_mu, log_sigma, location\)", "parameters=(log_sigma, log_mu, location)"),
    ("C19", _PSP, r"            position = self\.uncertain_variables\.index\(current_name\)\n            self\.uncertain_variables\[position\] = new_name",
     "            self.uncertain_variables.remove(current_name)\n            self.uncertain_variables.append(new_name)"),
    ("C19", _PSP, r"            dict_ = self\.distributions\n            dict_\[new_name\] = dict_\.pop\(current_name\)", "            dict_ = self.distributions"),
    ("C19", _PSP, r"            self\.uncertain_variables\[position\] = new_name", "            self.uncertain_variables[0] = new_name"),
]

# ---- C19: revert of the repair 910a44a (joint distribution reset when the last uncertain variable is removed)
MUTANTS += [
    ("C19", _PSP, r"                self\.build_joint_distribution\(\)\n            else:\n                self\.distribution = None\n", "                self.build_joint_distribution()\n"),
    ("C19", _PSP, r"            else:\n                self\.distribution = None\n        super\(\)\.remove_variable", "            else:\n                self.distribution = self.distribution\n        super().remove_variable"),
]

MUTANTS += [
    # ---- C06 INITIAL_SUBRESIDUAL_NORM row of the scaling table (one (slice, reference) pair per resolved variable; max over all of them)
    ("C06", "mda/base_mda_solver.py", r"initial_norm = initial_norm if initial_norm != 0.0 else 1.0\n                        scaling_data", 'initial_norm = initial_norm if initial_norm != 0.0 else 0.0\n                        scaling_data'),
    ("C06", "mda/base_mda_solver.py", r"            normed_residual = max\(normalized_norms\)", '            normed_residual = normalized_norms[0]'),
    ("C06", "mda/base_mda_solver.py", r"                normalized_norms.append\(norm\(residual\[current_slice\]\) / initial_norm\)", '                normalized_norms.append(norm(residual[current_slice]))'),
    ("C06", "mda/base_mda_solver.py", r"                        initial_norm = float\(norm\(residual\[slice_\]\)\)", '                        initial_norm = float(norm(residual))'),
    ("C06", "mda/base_mda_solver.py", r"                        initial_norm = initial_norm if initial_norm != 0.0 else 1.0\n", '                        if initial_norm == 0.0:\n                            continue\n'),
    # ---- C11 HDFDatabase.update_from_file (content level)
    ("C11", "algos/_hdf_database.py", r"\(k for k in keys if k not in names_to_arrays\)", "(k for k in keys if k in names_to_arrays)"),
    ("C11", "algos/_hdf_database.py", r"\(k for k in keys if k not in names_to_arrays\)", "(k for k in keys)"),
    ("C11", "algos/_hdf_database.py", r"                scalar_dict\.update\(names_to_arrays\)\n", "                pass\n"),
    ("C11", "algos/_hdf_database.py", r"keys\[int\(k\)\]: array\(v\)", "keys[0]: array(v)"),
]

# ---- C10 (round 4): what the public operators return (function makers' constructors, MDOFunction.__add__/__sub__/__mul__/__truediv__/offset)
_OPS = "core/mdo_functions/_operations.py"
MUTANTS += [
    ("C10", _OPS, r"self._second_operand_is_func = isinstance\(second_operand, cls\)", "self._second_operand_is_func = not isinstance(second_operand, cls)"),
    ("C10", _OPS, r"if self._first_operand.has_jac and self._second_operand.has_jac:", "if self._first_operand.has_jac or self._second_operand.has_jac:"),
    ("C10", _OPS, r"            dim=self._first_operand.dim,", "            dim=0,"),
    ("C10", _OPS, r"_subtract if inverse else _add,", "_add if inverse else _subtract,"),
    ("C10", _OPS, r"numpy.divide if inverse else numpy.multiply,", "numpy.multiply if inverse else numpy.divide,"),
    ("C10", _OPS, r"            self._compute_operation,\n            self._compute_name\(\),", "            self._first_operand.func,\n            self._compute_name(),"),
    ("C10", _OPS, r"with_normalized_inputs=self._first_operand.expects_normalized_inputs,", "with_normalized_inputs=False,"),
    ("C10", _OPS, r"output_names=self._first_operand.output_names,", "output_names=(),"),
    ("C10", _OPS, r"            if self._first_operand.f_type:\n                f_type = self._first_operand.f_type", "            if self._first_operand.f_type:\n                f_type = self._second_operand.f_type"),
    ("C10", _OPS, r"        self._first_operand = first_operand\n        self._second_operand = second_operand", "        self._first_operand = second_operand\n        self._second_operand = first_operand"),
    ("C10", _OPS, r"            if self._first_operand.has_jac:\n                jac = self._compute_operation_jacobian", "            if not self._first_operand.has_jac:\n                jac = self._compute_operation_jacobian"),
    ("C10", _MDOFN, r"return _AdditionFunctionMaker\(MDOFunction, self, other\).function", "return _AdditionFunctionMaker(MDOFunction, self, other, inverse=True).function"),
    ("C10", _MDOFN, r"return _MultiplicationFunctionMaker\(MDOFunction, self, other\).function", "return _AdditionFunctionMaker(MDOFunction, self, other).function"),
    ("C10", _MDOFN, r"        function = self \+ value\n", "        function = self - value\n"),
]

MUTANTS += [
    # ---- C17 (c17_build): BaseFormulation._build_objective_from_disc (verified since the repair 5e6b38b; the first one is the revert mutant)
    ("C17", "formulations/base_formulation.py", r"obj_mdo_fun, zeros\(self\.optimization_problem\.design_space\.dimension\)", "obj_mdo_fun, zeros(obj_mdo_fun.discipline_adapter.input_dimension)"),
    ("C17", "formulations/base_formulation.py", r"        if obj_mdo_fun\.discipline_adapter\.is_linear:", "        if not obj_mdo_fun.discipline_adapter.is_linear:"),
    ("C17", "formulations/base_formulation.py", r"        self\.optimization_problem\.objective = obj_mdo_fun\n", "        pass\n"),
    ("C17", "formulations/base_formulation.py", r"obj_mdo_fun, zeros\(self\.optimization_problem\.design_space\.dimension\)", "obj_mdo_fun, zeros(self.optimization_problem.design_space.dimension + 1)"),
    ("C17", "formulations/disciplinary_opt.py", r"        self\._filter_design_space\(\)\n        self\._set_default_input_values_from_design_space\(\)\n        self\._build_objective_from_disc\(objective_name\)",
     "        self._build_objective_from_disc(objective_name)\n        self._filter_design_space()\n        self._set_default_input_values_from_design_space()"),
]

# ---- C02 values (contracts/c02_values.py): convert_array_to_dict through split_array_to_dict_of_arrays, get_current_value as an array
# (selection key: tools/mutants.py C02 -k c02v)
MUTANTS += [
    ("C02", "utils/data_conversion.py", r"(?#c02v)        first_index \+= size\n\n    return result", "        first_index += 1\n\n    return result"),
    ("C02", "utils/data_conversion.py", r"(?#c02v)indices\[dimension\] = slice\(first_index, first_index \+ size\)", "indices[dimension] = slice(first_index, first_index + size + 1)"),
    ("C02", "utils/data_conversion.py", r"(?#c02v)    first_index = 0\n    for name in names\[0\]:", "    first_index = 1\n    for name in names[0]:"),
    ("C02", "algos/design_space.py", r"(?#c02v)            if not self.__has_current_value:\n                variables = ", "            if self.__has_current_value:\n                variables = "),
    ("C02", "algos/design_space.py", r"(?#c02v)            if value.size != self.dimension:\n                msg = \(\n                    \"Invalid current_x, \"", "            if value.size < self.dimension:\n                msg = (\n                    \"Invalid current_x, \""),
    ("C02", "algos/design_space.py", r"(?#c02v)value = value.astype\(self.VARIABLE_TYPES_TO_DTYPES\[variable_type\]\)", "value = value.copy()"),
    ("C02", "algos/design_space.py", r"(?#c02v)                self.__current_value\[name\] = value\n\n        self.__update_current_metadata\(\)\n        if self.__current_value:", "                pass\n\n        self.__update_current_metadata()\n        if self.__current_value:"),
    ("C02", "algos/design_space.py", r"(?#c02v)        self.__update_current_metadata\(\)\n        if self.__current_value:\n            self._check_current_names\(\)", "        if self.__current_value:\n            self._check_current_names()"),
    ("C02", "algos/design_space.py", r"(?#c02v)\{k: v for k, v in value.items\(\) if k in self\}", "{k: v for k, v in value.items() if k not in self}"),
    ("C02", "algos/design_space.py", r"(?#c02v)self.__current_value = self.convert_array_to_dict\(value\)\n        elif isinstance\(value, OptimizationResult\)", "self.__current_value = self.convert_array_to_dict(value + 1)\n        elif isinstance(value, OptimizationResult)"),
    ("C02", "algos/design_space.py", r"(?#c02v)self.__current_value_array = self.convert_dict_to_array\(\n                self.__current_value\n            \)", "self.__current_value_array = self.convert_dict_to_array(\n                self._lower_bounds\n            )"),
]
MUTANTS += [
    # ---- C05 BaseDiscipline.execute / _store_cache / __create_input_data_for_cache with a FULL cache (contracts/c05_execute_full.py)
    ("C05", "core/discipline/base_discipline.py", r"                output_data\[name\] = to_array\(name, value\)", "                pass"),
    ("C05", "core/discipline/base_discipline.py", r"        self.cache.cache_outputs\(input_data, output_data\)", "        self.cache.cache_outputs(output_data, output_data)"),
    ("C05", "core/discipline/base_discipline.py", r"                input_data_\[input_name\] = to_array\(input_name, value\)", "                pass"),
    ("C05", "core/discipline/base_discipline.py", r"            input_data_for_cache = self.__create_input_data_for_cache\(input_data\)", "            input_data_for_cache = input_data"),
]
