"""(property, file under src/gemseo, regex, replacement) - semantic mutants that break the property."""
MUTANTS = [
    # ---- C05 SimpleCache
    ("C05", "caches/simple_cache.py", r"if not self.__outputs:", "if self.__outputs:"),
    ("C05", "caches/simple_cache.py", r"        self.__jacobian = \{\}\n\n        if not", "        if not"),
    ("C05", "caches/simple_cache.py", r"self.__inputs = deepcopy_dict_of_arrays\(input_data\)\n        self.__outputs = deep", "self.__inputs = input_data\n        self.__outputs = deep"),
    ("C05", "utils/data_conversion.py", r"deep_copy\[key\] = value.copy\(\)", "deep_copy[key] = value"),
    ("C05", "caches/simple_cache.py", r"if not self.__is_cached\(input_data\):\n            return CacheEntry", "if self.__is_cached(input_data):\n            return CacheEntry"),
    # ---- C03 / C01 evaluation protocol
    ("C03", "algos/evaluation_counter.py", r"return self.current >= self.maximum", "return self.current > self.maximum"),
    ("C03", "algos/problem_function.py", r"hashed_xu = database.get_hashable_ndarray\(xu_vect\)\n        output_value", "hashed_xu = database.get_hashable_ndarray(xn_vect)\n        output_value"),
    ("C03", "algos/problem_function.py", r"            jac_n = self._normalize_grad\(jac_u\)", "            jac_n = jac_u"),
    ("C03", "algos/database.py", r"if self.__new_iter_listeners and outputs and current_outputs_is_empty:", "if self.__new_iter_listeners and outputs:"),
    ("C03", "algos/database.py", r"            stored_outputs.update\(outputs\)", "            self.__data[hashed_input_value] = outputs"),
    ("C03", "algos/problem_function.py", r"            if self.__store_jacobian:\n                database.store\(hashed_xu, \{name: jacobian\}\)", "            database.store(hashed_xu, {name: jacobian})"),
    ("C03", "algos/problem_function.py", r"                not database.get\(hashed_xu\)\n                and self._evaluation_counter.maximum_is_reached\n            \):\n                raise MaxIterReachedException\n\n            output_value = self._compute_output\(input_value\)",
     "                self._evaluation_counter.maximum_is_reached\n            ):\n                raise MaxIterReachedException\n\n            output_value = self._compute_output(input_value)"),
    ("C03", "algos/problem_function.py", r"            jac_u = self._unnormalize_grad\(jac_n\)", "            jac_u = jac_n"),
    ("C03", "algos/problem_function.py", r"        for func in self._output_evaluation_sequence:\n            input_value = func\(input_value\)", "        for func in self._output_evaluation_sequence:\n            func(input_value)"),
]
