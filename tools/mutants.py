"""Mutation sensitivity self-test (DESIGN.md §2.10): each semantic mutant of a function under
contract must make its property's check fail (exit 1).  Scratch copies live under a mktemp dir
outside /repo and /verif and are removed.  Usage: tools/mutants.py [PROP ...] [-k substring]"""
import concurrent.futures as cf
import os
import re
import shutil
import subprocess
import sys
import tempfile
from pathlib import Path

ROOT = Path(__file__).resolve().parent.parent
sys.path.insert(0, str(ROOT))
from tools.mutant_list import MUTANTS  # noqa: E402


def run(m):
    prop, rel, pat, rep = m[:4]
    d = tempfile.mkdtemp(prefix="pyvc_mut.")
    try:
        shutil.copytree("/repo/src/gemseo", f"{d}/src/gemseo")
        p = Path(d) / "src/gemseo" / rel
        s = p.read_text()
        n = len(re.findall(pat, s, flags=re.M))
        if n != 1:
            return m, "BAD-PATTERN", f"matches {n} times"
        p.write_text(re.sub(pat, rep, s, flags=re.M))
        env = dict(os.environ, PYVC_REPO=d, PYVC_NO_EVIDENCE="1", PYTHONPATH=f"{d}/src")
        r = subprocess.run([str(ROOT / "check"), prop], capture_output=True, text=True, env=env, cwd=ROOT)
        lines = [l for l in r.stdout.splitlines() if l.startswith(("VIOLATION", "UNDECIDED", "CHECKER-ERROR"))]
        return m, {0: "MISSED", 1: "caught", 2: "undecided", 3: "checker-error"}.get(r.returncode, str(r.returncode)), "; ".join(l[:160] for l in lines[:2])
    finally:
        shutil.rmtree(d, ignore_errors=True)


def main():
    args = sys.argv[1:]
    key = None
    if "-k" in args:
        key = args[args.index("-k") + 1]
        args = [a for a in args if a not in ("-k", key)]
    ms = [m for m in MUTANTS if (not args or m[0] in args) and (key is None or key in m[2] or key in m[1])]
    bad = 0
    with cf.ThreadPoolExecutor(max_workers=4) as ex:
        for m, status, info in ex.map(run, ms):
            if status != "caught":
                bad += 1
            print(f"{status:14s} {m[0]} {m[1]}: {m[2][:70]!r} -> {m[3][:50]!r}  {info}")
    print(f"{len(ms) - bad}/{len(ms)} mutants caught")
    return 1 if bad else 0


if __name__ == "__main__":
    sys.exit(main())
