"""Run every seeded change of /verif/seeded against its property's check and write seeded/RESULTS.md (+ verif_result in each meta.json).
Each run applies the patch to /repo (under the work-tree lock), confirms the demo, runs ./check <prop>, and restores /repo."""
import json
import os
import re
import subprocess
import sys
from pathlib import Path

ROOT = Path(__file__).resolve().parent.parent
only = sys.argv[1:]
rows = []
for d in sorted((ROOT / "seeded").iterdir()):
    if not (d / "meta.json").exists():
        continue
    meta = json.loads((d / "meta.json").read_text())
    if only and not any(o in d.name for o in only):
        if "verif_result" in meta:  # not re-run now: keep the recorded result in the table
            rows.append((d.name, meta, meta["verif_result"]))
        continue
    out = subprocess.run([str(ROOT / "tools/run_seed.sh"), f"seeded/{d.name}"], capture_output=True, text=True, cwd=ROOT).stdout.strip().splitlines()
    line = out[-1] if out else "no output"
    m = re.search(r"demo\(no change\)=(\d+) demo\(with change\)=(\d+) check=(\d+) violations=(\d+) with_witness=(\d+) ::\s*(.*)", line)
    if m:
        d0, d1, rc, nv, nw, obls = m.groups()
        res = {"demo_without_change": int(d0), "demo_with_change": int(d1), "check_exit": int(rc), "violations": int(nv), "with_concrete_witness": int(nw),
               "first_obligations": obls.strip(), "command": (f"SEED_SCRATCH=1 tools/run_seed.sh seeded/{d.name}  (patch.diff applied to a scratch copy of /repo/src; demo.py with and without it; ./check {meta['property']} on the copy)"
                           if os.environ.get("SEED_SCRATCH") else
                           f"tools/run_seed.sh seeded/{d.name}  (git -C /repo apply patch.diff; ./check {meta['property']}; git -C /repo checkout -- .)")}
    else:
        res = {"error": line}
    meta["verif_result"] = res
    (d / "meta.json").write_text(json.dumps(meta, indent=1))
    rows.append((d.name, meta, res))
    print(d.name, res.get("check_exit"), res.get("violations"))
md = ["# Independent seeded changes: what the checks report", "",
      "Each change was produced by a fresh sub-agent that saw only the property text and a scratch worktree; it breaks the property, passes the existing tests,",
      "and comes with a demo that fails with the change and passes without. `detected` = the property's quick check exits 1 with a VIOLATION line.", "",
      "| seed | property | changed function | needs | demo ok | detected | first failing obligation |", "|---|---|---|---|---|---|---|"]
for name, meta, res in rows:
    ok = res.get("demo_without_change") == 0 and res.get("demo_with_change") not in (0, None)
    det = "**yes**" if res.get("check_exit") == 1 else ("no" if "check_exit" in res else "error")
    ob = (res.get("first_obligations") or "").split(";")[0][:140]
    md.append(f"| {name} | {meta.get('property')} | `{meta.get('function', '')}` | {str(meta.get('needs', ''))[:160]} | {'yes' if ok else 'NO'} | {det} | {ob} |")
n = len(rows)
k = len([1 for _, _, r in rows if r.get("check_exit") == 1])
md += ["", f"Detected by the checks as they are now: {k} of {n} (first round: seeds without `-r2-`; second round: `-r2-`). At the time the changes "
       "arrived, 20 of the 32 first-round and 19 of the 38 second-round changes were detected; every miss was in a function that was not under "
       "contract (or, three times, produced `undecided` instead of a violation); the contracts were then extended - see DESIGN.md §9 and §4."]
(ROOT / "seeded" / "RESULTS.md").write_text("\n".join(md) + "\n")
