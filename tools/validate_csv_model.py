"""Native validation of the assumed text-table model of pyvc/plug_dsfiles.py (labels T1..T5) against the real numpy /
prettytable, on real files in a temporary directory (created with tempfile, removed).
Run: PYTHONPATH=/repo/src /venv/bin/python tools/validate_csv_model.py   (exit 0 = every assumption observed)."""
import itertools
import shutil
import sys
import tempfile
import warnings
from pathlib import Path

import numpy as np

warnings.simplefilter("ignore")
fails = []


def ok(label, cond, info=""):
    if not cond:
        fails.append((label, info))
        print("FAILED", label, info)


def main():
    from gemseo.algos.design_space import DesignSpace

    tmp = Path(tempfile.mkdtemp(prefix="val_csv."))
    try:
        # ---- T1/T2/T3 on hand-written tables
        cells = [["name", "lower_bound", "value", "upper_bound", "type"], ["x", "0", "None", "1", "float"], ["x", "-inf", "0.5", "inf", "float"],
                 ["yy", "-2", "3", "7", "integer"]]
        for nrows in range(0, 5):
            p = tmp / f"t{nrows}.csv"
            p.write_text("\n".join("  ".join(r) for r in cells[:nrows]))
            f, s = np.genfromtxt(p, dtype="float"), np.genfromtxt(p, dtype="str")
            ok("T1:same-shape", f.shape == s.shape, (nrows, f.shape, s.shape))
            if nrows < 2:
                ok("T1:not-two-dimensional", f.ndim < 2 and s.ndim < 2, (nrows, f.ndim))
                for arr in (f, s):
                    try:
                        arr[0, :]
                        ok("T1:IndexError", False, nrows)
                    except IndexError:
                        pass
                continue
            ok("T1:shape", s.shape == (nrows, 5), s.shape)
            for r in range(nrows):
                ok("T2:row", s[r, :].tolist() == cells[r], r)
                for c in range(5):
                    ok("T2:cell", s[r, c] == cells[r][c], (r, c))
                    try:
                        v = float(cells[r][c])
                        ok("T1:same-cells(number)", f[r, c] == v or (np.isnan(v) and np.isnan(f[r, c])), (r, c))
                    except ValueError:
                        ok("T1:same-cells(text is nan)", np.isnan(f[r, c]), (r, c))
            for a, b in itertools.product(range(-1, nrows + 2), repeat=2):
                for c in range(5):
                    lo, hi = max(0, min(a if a >= 0 else a + nrows, nrows)), max(0, min(b if b >= 0 else b + nrows, nrows))
                    exp = [cells[r][c] for r in range(lo, hi)]
                    ok("T2:column-part", s[a:b, c].tolist() == exp, (a, b, c))
                    ok("T2:float-column-part-length", len(f[a:b, c]) == len(exp), (a, b, c))
                    ok("T3:None-in-part", ("None" in s[a:b, c]) == ("None" in exp), (a, b, c))
                ok("T2:open-slice", s[a:, 0].tolist() == [cells[r][0] for r in range(max(0, min(a if a >= 0 else a + nrows, nrows)), nrows)], a)
            for bad in (nrows, -nrows - 1):
                try:
                    s[bad, 0]
                    ok("T2:IndexError-row", False, bad)
                except IndexError:
                    pass
            for bad in (5, -6):
                try:
                    s[1:, bad]
                    ok("T2:IndexError-column", False, bad)
                except IndexError:
                    pass
        # ---- T4
        for lst in (["a", "a", "b", "a"], [], ["x"]):
            for x in ("a", "b", "z"):
                ok("T4:count", lst.count(x) == sum(1 for e in lst if e == x))
        # ---- T5 (NOT part of the proof: the PrettyTable layer) - the default export, cell by cell
        pool = [("x", 1, "float", 0.0, 1.0, 0.5), ("alpha", 2, "float", -1.0, 2.0, [0.25, 1.5]), ("n_items", 1, "integer", 0, 9, 3),
                ("beta", 2, "float", -np.inf, np.inf, None), ("kk", 3, "integer", [-2, 0, 1], [5, 7, 9], [1, 2, 3]), ("g", 1, "float", 0.1234567890123456, 1e30, 1 / 3)]
        for n in (1, 2, 3):
            for ids in itertools.permutations(range(len(pool)), n):
                ds = DesignSpace()
                for i in ids:
                    nm, sz, ty, lb, ub, val = pool[i]
                    ds.add_variable(nm, size=sz, type_=ty, lower_bound=np.asarray(lb) if isinstance(lb, list) else lb, upper_bound=np.asarray(ub) if isinstance(ub, list) else ub,
                                    value=None if val is None else np.asarray(val))
                p = tmp / "ds.csv"
                ds.to_csv(p)
                f, s = np.genfromtxt(p, dtype="float"), np.genfromtxt(p, dtype="str")
                ok("T5:shape", s.shape == (ds.dimension + 1, 5), s.shape)
                ok("T5:header", s[0, :].tolist() == ["name", "lower_bound", "value", "upper_bound", "type"])
                r = 1
                for nm in ds.variable_names:
                    for i in range(ds.get_size(nm)):
                        ok("T5:name", s[r, 0] == nm)
                        ok("T5:type", s[r, 4] == str(ds.get_type(nm)))
                        ok("T5:lower", f[r, 1] == float(ds.get_lower_bound(nm)[i]), (nm, i))
                        ok("T5:upper", f[r, 3] == float(ds.get_upper_bound(nm)[i]), (nm, i))
                        cur = ds._current_value.get(nm)
                        if cur is None:
                            ok("T5:None", s[r, 2] == "None")
                        else:
                            ok("T5:value", s[r, 2] != "None" and f[r, 2] == float(cur[i]), (nm, i, s[r, 2]))
                        r += 1
        ds = DesignSpace()
        p = tmp / "empty.csv"
        ds.to_csv(p)
        ok("T5:empty-design-space-writes-an-empty-file", p.read_text() == "")
    finally:
        shutil.rmtree(tmp, ignore_errors=True)
    print("assumptions violated:" if fails else "all assumptions observed", sorted({l for l, _ in fails}))
    return 1 if fails else 0


if __name__ == "__main__":
    sys.exit(main())
