"""C17 - MDO formulations are equivalent views of the same problem: the index / variable mapping part.

Spec vocabulary (all sizes symbolic):

* a sequence of names ``(n, a)``: length and ``Array Int Str``;  sizes ``sz: Array Str Int``;
* ``off(a, sz, k) = sum_{j<k} sz[a[j]]``: local offset of the k-th name (recursive ghost function);
* ``offm(a, sz, M, k) = sum_{j<k, M[a[j]]} sz[a[j]]``: number of components consumed by ``unmask`` before the k-th name.

Precise numpy model (pyvc/npmodel.py + pyvc/plug_np_c17.py).
"""
from __future__ import annotations

import z3

from pyvc import contract as C
from pyvc.contract import Contract, LoopSpec, register, schema
from pyvc.npmodel import TArr
from pyvc.plug_np_c17 import psum_i
from pyvc.values import forall_pat, PyObj, TBool, TDict, TInt, TList, TObj, TOpt, TReal, TRec, TStr, TTuple

BF = "gemseo.formulations.base_formulation.BaseFormulation"
OP = "gemseo.algos.optimization_problem.OptimizationProblem"
DS = "gemseo.algos.design_space.DesignSpace"
F1, F2, I1 = TArr("f", 1), TArr("f", 2), TArr("i", 1)
STR = TStr.sort()
INT = z3.IntSort()
NAMES, SIZES, MEMS = z3.ArraySort(INT, STR), z3.ArraySort(STR, INT), z3.ArraySort(STR, z3.BoolSort())

VAR = TRec("VariableC17", {"size": TInt})
VARS = TDict(TStr, VAR, ordered=True)
TRIPLE = TTuple(TInt, TInt, TInt)
INDICES = TDict(TStr, TRIPLE, ordered=True)

schema(DS + "#c17", {"_variables": VARS})
schema(OP + "#c17", {"design_space": TObj(DS, schema_key=DS + "#c17")})
schema(BF, {"variable_sizes": TDict(TStr, TInt), "optimization_problem": TObj(OP, schema_key=OP + "#c17")})

# ---------------------------------------------------------------------------- ghost functions
off = z3.Function("c17_off", NAMES, SIZES, INT, INT)
offm = z3.Function("c17_offm", NAMES, SIZES, MEMS, INT, INT)


def off_axioms():
    a, s, k, m = z3.Const("a!off", NAMES), z3.Const("s!off", SIZES), z3.Int("k!off"), z3.Const("m!off", MEMS)
    return [("off:base", z3.ForAll([a, s], off(a, s, 0) == 0, patterns=[off(a, s, 0)])),
            ("off:step", z3.ForAll([a, s, k], z3.Implies(k >= 0, off(a, s, k + 1) == off(a, s, k) + s[a[k]]), patterns=[off(a, s, k + 1)]))]


def offm_axioms():
    a, s, k, m = z3.Const("a!off", NAMES), z3.Const("s!off", SIZES), z3.Int("k!off"), z3.Const("m!off", MEMS)
    return [("offm:base", z3.ForAll([a, s, m], offm(a, s, m, 0) == 0, patterns=[offm(a, s, m, 0)])),
            ("offm:step", z3.ForAll([a, s, m, k], z3.Implies(k >= 0, offm(a, s, m, k + 1) == offm(a, s, m, k) + z3.If(m[a[k]], s[a[k]], 0)),
                                    patterns=[offm(a, s, m, k + 1)]))]


def fa_multi(vs, body, *terms):
    """ForAll with one multi-pattern made of ``terms`` when z3 accepts it (a term over a mutated array may have become an if-then-else
    or a lambda application, which cannot be a trigger: then - in goal position - no trigger is needed)."""
    from pyvc.values import _pattern_ok

    if all(z3.is_app(t) and t.decl().kind() in (z3.Z3_OP_SELECT, z3.Z3_OP_UNINTERPRETED) and _pattern_ok(t) for t in terms):
        try:
            return z3.ForAll(vs, body, patterns=[z3.MultiPattern(*terms) if len(terms) > 1 else terms[0]])
        except z3.Z3Exception:
            pass
    return z3.ForAll(vs, body)


def at(arr, *idx):
    """arr[idx] with a lambda array beta-reduced on the spot (keeps lambda terms out of the proof obligations)."""
    if z3.is_quantifier(arr) and arr.is_lambda():
        return z3.substitute_vars(arr.body(), *reversed(idx))
    return z3.Select(arr, *idx)


class Seq:
    """A sequence of names as seen by a specification: length + element array."""

    def __init__(self, n, a):
        self.n, self.a = n, a


def seq_of(c, ns, name):
    """The sequence of names denoted by argument ``name``: a list, a concrete tuple of strings, or a design space (its variable order)."""
    v = c.arg(name)
    if isinstance(v, tuple):
        arr = z3.K(INT, TStr.embed(c.st, ""))
        for i, x in enumerate(v):
            arr = z3.Store(arr, i, TStr.embed(c.st, x))
        return Seq(z3.IntVal(len(v)), arr)
    view = getattr(ns, name)
    if isinstance(view.obj, PyObj):
        d = view._variables
        return Seq(d.n, d.keys)
    return Seq(view.n, view.elems)


idx_of = z3.Function("c17_idx", NAMES, INT, STR, INT)
_never = z3.Function("c17_never", INT, INT, INT)


def distinct(s: Seq):
    """Pairwise distinct names.  As a hypothesis this quadratic formula is never instantiated (its trigger does not occur anywhere);
    it is used through its consequence `distinct_inj` (an index function inverting the sequence)."""
    i, j = z3.Int("i!dn"), z3.Int("j!dn")
    return z3.ForAll([i, j], z3.Implies(z3.And(0 <= i, i < j, j < s.n), s.a[i] != s.a[j]), patterns=[_never(i, j)])


def distinct_inj(s: Seq):
    """Consequence of the precondition distinct(s) (always required next to this axiom, and established before it is assumed at a call
    site): some function inverts the sequence (choice; `c17_idx` is otherwise unconstrained).  Stated unconditionally because the
    provers cannot instantiate the quadratic precondition (it has no usable trigger on purpose)."""
    j = z3.Int("j!di")
    return ("choice:index-of-distinct-names", z3.ForAll([j], z3.Implies(z3.And(0 <= j, j < s.n), idx_of(s.a, s.n, s.a[j]) == j), patterns=[s.a[j]]))


def sized(s: Seq, vs):
    """Every name of the sequence has a size (>= 1) in the dict view ``vs``."""
    j = z3.Int("j!sz")
    return z3.ForAll([j], z3.Implies(z3.And(0 <= j, j < s.n), z3.And(vs.member[s.a[j]], vs.vals[s.a[j]] >= 1)), patterns=[s.a[j]])


def triple(x, y, z):
    return TRIPLE.dt.mk(x, y, z)


# ---------------------------------------------------------------------------- _get_dv_indices
def indices_of(d, s: Seq, sz, upto):
    """``d`` maps the first ``upto`` names of ``s`` (in that order) to (start, end, size) with adjacent local ranges."""
    j = z3.Int("j!ix")
    x = z3.Const("x!ix", STR)
    return [("count", d.n == upto),
            ("order", forall_pat([j], z3.Implies(z3.And(0 <= j, j < upto), d.keys[j] == s.a[j]), d.keys[j])),
            ("members", forall_pat([j], z3.Implies(z3.And(0 <= j, j < upto), d.member[s.a[j]]), s.a[j])),
            ("only-members", forall_pat([x], z3.Implies(d.member[x], z3.And(0 <= d.pos[x], d.pos[x] < upto, s.a[d.pos[x]] == x)), d.member[x])),
            ("ranges", forall_pat([j], z3.Implies(z3.And(0 <= j, j < upto),
                                                  d.vals[s.a[j]] == triple(off(s.a, sz, j), off(s.a, sz, j + 1), sz[s.a[j]])), s.a[j]))]


def _dv_inv(c, k):
    s = seq_of(c, c.old, "names")
    sz = c.old.self.variable_sizes.vals
    d = c.locals["names_to_indices"]
    return [("start", c.locals["start"] == off(s.a, sz, k)), ("end", c.locals["end"] == off(s.a, sz, k))] + indices_of(d, s, sz, k)


@register
class GetDvIndices(Contract):
    """Local index ranges in the order of ``names``: start(first) = 0, end - start = size, start(next) = end(previous)."""

    targets = (BF + "._get_dv_indices",)
    prop = ("C17",)
    numpy = "precise"
    np_c17 = True
    params = {"names": TList(TStr)}
    returns = INDICES
    loops = {0: LoopSpec(anchor="names", inv=_dv_inv, modifies=("names_to_indices",), local_types={"names_to_indices": INDICES})}

    def requires(self, c):
        s = seq_of(c, c.old, "names")
        return [("names-distinct", distinct(s)), ("names-have-sizes", sized(s, c.old.self.variable_sizes))]

    def axioms(self, c):
        return off_axioms() + [distinct_inj(seq_of(c, c.old, "names"))]

    def ensures(self, c):
        s = seq_of(c, c.old, "names")
        sz = c.old.self.variable_sizes.vals
        return indices_of(c.result, s, sz, s.n)


# ---------------------------------------------------------------------------- facts about off (proved by induction in OffsetLemmas)
def nonneg_sizes(s: Seq, sz):
    j = z3.Int("j!nn")
    return z3.ForAll([j], z3.Implies(z3.And(0 <= j, j < s.n), sz[s.a[j]] >= 0), patterns=[s.a[j]])


def off_mono(s: Seq, sz):
    """With non-negative sizes every chunk [off(i), off(i) + size_i) lies within [0, off(n)) (instances of lemma off-monotone, by induction)."""
    i = z3.Int("i!mo")
    return z3.Implies(nonneg_sizes(s, sz),
                      z3.And(off(s.a, sz, s.n) >= 0,
                             z3.ForAll([i], z3.Implies(z3.And(0 <= i, i < s.n), z3.And(0 <= off(s.a, sz, i), off(s.a, sz, i) + sz[s.a[i]] <= off(s.a, sz, s.n))),
                                       patterns=[off(s.a, sz, i)])))


def prefix_below(s: Seq, sz, k):
    """Loop-carried monotonicity: the chunks of the names handled so far end below the current offset."""
    i = z3.Int("i!pb")
    return z3.ForAll([i], z3.Implies(z3.And(0 <= i, i < k), z3.And(0 <= off(s.a, sz, i), off(s.a, sz, i) + sz[s.a[i]] <= off(s.a, sz, k))), patterns=[off(s.a, sz, i)])


def psum_bridge(s: Seq, sz):
    """sum(sz'[x] for x in s[:k]) = off(s, sz, k) when sz' agrees with sz on these names (lemma psum-bridge, by induction)."""
    A = z3.Const("A!br", z3.ArraySort(INT, INT))
    k, j = z3.Int("k!br"), z3.Int("j!br")
    return z3.ForAll([A, k], z3.Implies(z3.And(0 <= k, z3.ForAll([j], z3.Implies(z3.And(0 <= j, j < k), A[j] == sz[s.a[j]]), patterns=[A[j]])),
                                        psum_i(A, k) == off(s.a, sz, k)), patterns=[psum_i(A, k)])


def el(a, *i):
    return z3.Select(a.obj.elems, *i)


def ln(a, j=0):
    return a.obj.shape[j]  # (j = -1: last axis)


def vsizes(c):
    return c.old.self.variable_sizes


def dsvars(c):
    return c.old.self.optimization_problem.design_space._variables


def vsize(t):
    return VAR.accessor("size")(t)


def all_names(c) -> Seq:
    """The effective sequence of all names: the explicit argument, or the variables of the design space for the default ``()``."""
    d = dsvars(c)
    v = c.arg("all_data_names")
    if isinstance(v, tuple) and not v:
        return Seq(d.n, d.keys)
    return seq_of(c, c.old, "all_data_names")


def explicit_nonempty(c):
    """An explicit list of all names is not empty (every call site passes the default ``()`` or a non-empty list; an empty list
    would stand for the default as well)."""
    v = c.arg("all_data_names")
    if isinstance(v, tuple) and not v:
        return []
    return [("explicit-all-names-not-empty", seq_of(c, c.old, "all_data_names").n >= 1)]


def ds_consistent(c):
    """The sizes recorded by the formulation agree with the design space (variable_sizes is a copy taken at construction;
    formulations only remove variables afterwards)."""
    d, vs = dsvars(c), vsizes(c)
    k = z3.Const("k!dc", STR)
    return forall_pat([k], z3.Implies(d.member[k], z3.And(vs.member[k], vs.vals[k] == vsize(d.vals[k]))), d.member[k])


def within(s: Seq, mem):
    j = z3.Int("j!wi")
    return z3.ForAll([j], z3.Implies(z3.And(0 <= j, j < s.n), mem[s.a[j]]), patterns=[s.a[j]])


def mask_ranges(r_el, m: Seq, a: Seq, sz, upto):
    """The index array is the concatenation, in the order of m, of the index ranges the names of m have within a:
    for the i-th masking name, found at position j of all names, r[off_m(i) + t] = off_a(j) + t for 0 <= t < size."""
    i, j, p = z3.Int("i!mr"), z3.Int("j!mr"), z3.Int("p!mr")
    return fa_multi([i, j, p], z3.Implies(z3.And(0 <= i, i < upto, 0 <= j, j < a.n, m.a[i] == a.a[j], off(m.a, sz, i) <= p, p < off(m.a, sz, i) + sz[a.a[j]]),
                                          at(r_el, p) == off(a.a, sz, j) + (p - off(m.a, sz, i))), m.a[i], a.a[j], at(r_el, p))


def some_missing(m: Seq, a: Seq):
    i, j = z3.Int("i!sm"), z3.Int("j!sm")
    return z3.Exists([i], z3.And(0 <= i, i < m.n, z3.ForAll([j], z3.Implies(z3.And(0 <= j, j < a.n), m.a[i] != a.a[j]))))


def _mask_inv(c, k):
    m, a = seq_of(c, c.old, "masking_data_names"), all_names(c)
    sz = vsizes(c).vals
    x = c.locals["x_mask"]
    ind = c.locals["indices"]
    i = z3.Int("i!mi")
    return [("min", c.locals["i_masked_min"] == off(m.a, sz, k)), ("max", c.locals["i_masked_max"] == off(m.a, sz, k)),
            ("length", ln(x) == off(m.a, sz, m.n)), ("nonneg", off(m.a, sz, k) >= 0), ("prefix-below", prefix_below(m, sz, k)),
            ("found", z3.ForAll([i], z3.Implies(z3.And(0 <= i, i < k), ind.member[m.a[i]]), patterns=[m.a[i]])),
            ("ranges", mask_ranges(x.obj.elems, m, a, sz, k)), ("in-range", mask_in_range(x.obj.elems, off(m.a, sz, k), off(a.a, sz, a.n)))]


@register
class GetXMask(Contract):
    """Index array = concatenation (in the order of masking_data_names) of the ranges of these names within all_data_names;
    ValueError iff a masking name is not among all names."""

    targets = (BF + ".get_x_mask_x_swap_order",)
    prop = ("C17",)
    numpy = "precise"
    np_c17 = True
    frame_arrays = True
    params = {"masking_data_names": TList(TStr), "all_data_names": TList(TStr)}
    returns = I1
    raises = {"ValueError": lambda c: some_missing(seq_of(c, c.old, "masking_data_names"), all_names(c))}
    loops = {0: LoopSpec(anchor="masking_data_names", inv=_mask_inv, modifies=("x_mask",))}

    def requires(self, c):
        m, a = seq_of(c, c.old, "masking_data_names"), all_names(c)
        return explicit_nonempty(c) + [("all-names-distinct", distinct(a)), ("all-names-have-sizes", sized(a, vsizes(c))),
                ("design-space-sizes-consistent", ds_consistent(c)), ("sizes-positive", _ds_sizes_positive(c)),
                ("masking-names-in-design-space", within(m, dsvars(c).member))]

    def axioms(self, c):
        m, a = seq_of(c, c.old, "masking_data_names"), all_names(c)
        sz = vsizes(c).vals
        return off_axioms() + [distinct_inj(a), ("lemma:off-monotone(masking)", off_mono(m, sz)), ("lemma:off-monotone(all)", off_mono(a, sz)),
                                             ("lemma:psum-bridge", psum_bridge(m, sz))]

    def ensures(self, c):
        m, a = seq_of(c, c.old, "masking_data_names"), all_names(c)
        sz = vsizes(c).vals
        return [("length", ln(c.result) == off(m.a, sz, m.n)), ("ranges", mask_ranges(c.result.obj.elems, m, a, sz, m.n)),
                ("in-range", mask_in_range(c.result.obj.elems, off(m.a, sz, m.n), off(a.a, sz, a.n)))]


@register
class GetXMaskDefault(GetXMask):
    """Same contract for the default all_data_names = (): all names = the variables of the design space."""

    variant = "default"
    params = {"masking_data_names": TList(TStr)}


def _ds_sizes_positive(c):
    d = dsvars(c)
    k = z3.Const("k!sp", STR)
    return forall_pat([k], z3.Implies(d.member[k], vsize(d.vals[k]) >= 1), d.member[k])


def mask_in_range(r_el, upto, total):
    p = z3.Int("p!ir")
    return fa_multi([p], z3.Implies(z3.And(0 <= p, p < upto), z3.And(0 <= at(r_el, p), at(r_el, p) < total)), at(r_el, p))


# ---------------------------------------------------------------------------- get_optim_variable_names / mask_x_swap_order
@register
class GetOptimVariableNames(Contract):
    """The optimisation variables are the variables of the design space, in its order."""

    targets = (BF + ".get_optim_variable_names",)
    prop = ("C17",)
    np_c17 = True
    returns = TList(TStr)

    def ensures(self, c):
        d = dsvars(c)
        # (the model of list(dict) defines the element array as the dict's key enumeration; stated as an array equality so that
        # offsets computed along either sequence are the same terms for the provers)
        return [("length", c.result.n == d.n), ("names", c.result.elems == d.keys)]


def gathered(res_el, x_el, m: Seq, a: Seq, sz):
    """res[off_m(i) + t] = x[off_a(j) + t] for the i-th masking name found at position j of all names."""
    i, j, p = z3.Int("i!ga"), z3.Int("j!ga"), z3.Int("p!ga")
    return fa_multi([i, j, p], z3.Implies(z3.And(0 <= i, i < m.n, 0 <= j, j < a.n, m.a[i] == a.a[j], off(m.a, sz, i) <= p, p < off(m.a, sz, i) + sz[a.a[j]]),
                                          at(res_el, p) == at(x_el, off(a.a, sz, j) + (p - off(m.a, sz, i)))), m.a[i], a.a[j], at(res_el, p))


@register
class MaskXSwapOrder(Contract):
    """Gather: the components of the masking names, in their order, out of a vector laid out along all names."""

    targets = (BF + ".mask_x_swap_order",)
    prop = ("C17",)
    numpy = "precise"
    np_c17 = True
    frame_arrays = True
    params = {"masking_data_names": TList(TStr), "x_vect": F1, "all_data_names": TList(TStr)}
    returns = F1
    raises = {"ValueError": lambda c: some_missing(seq_of(c, c.old, "masking_data_names"), all_names(c))}

    def requires(self, c):
        a = all_names(c)
        return GetXMask.requires(self, c) + [("vector-has-the-full-dimension", ln(c.old.x_vect) == off(a.a, vsizes(c).vals, a.n))]

    def axioms(self, c):
        return GetXMask.axioms(self, c)

    def ensures(self, c):
        m, a = seq_of(c, c.old, "masking_data_names"), all_names(c)
        sz = vsizes(c).vals
        return [("length", ln(c.result) == off(m.a, sz, m.n)), ("gathered", gathered(c.result.obj.elems, c.old.x_vect.obj.elems, m, a, sz)),
                ("fresh-result", z3.BoolVal(c.result.ref.id != c.old.x_vect.ref.id))]


@register
class MaskXSwapOrderDefault(MaskXSwapOrder):
    variant = "default"
    params = {"masking_data_names": TList(TStr), "x_vect": F1}


# ---------------------------------------------------------------------------- unmask_x_swap_order
mem_of = z3.Function("c17_members", NAMES, INT, MEMS)
wit_of = z3.Function("c17_member_index", NAMES, INT, STR, INT)


def mem_axioms(m: Seq):
    """Definition of the set of the names of a sequence (with a choice function for the index of a member)."""
    i = z3.Int("i!me")
    x = z3.Const("x!me", STR)
    M = mem_of(m.a, m.n)
    w = wit_of(m.a, m.n, x)
    return [("def:members(elements)", z3.ForAll([i], z3.Implies(z3.And(0 <= i, i < m.n), M[m.a[i]]), patterns=[m.a[i]])),
            ("def:members(only)", z3.ForAll([x], z3.Implies(M[x], z3.And(0 <= w, w < m.n, m.a[w] == x)), patterns=[M[x]]))]


def offm_mono(s: Seq, sz, M):
    """With non-negative sizes every consumed chunk lies within [0, offm(n)) (instances of lemma offm-monotone, by induction)."""
    i = z3.Int("i!mm")
    return z3.Implies(nonneg_sizes(s, sz),
                      z3.And(offm(s.a, sz, M, s.n) >= 0,
                             z3.ForAll([i], z3.Implies(z3.And(0 <= i, i < s.n), z3.And(0 <= offm(s.a, sz, M, i),
                                                                                        offm(s.a, sz, M, i) + z3.If(M[s.a[i]], sz[s.a[i]], 0) <= offm(s.a, sz, M, s.n))),
                                       patterns=[offm(s.a, sz, M, i)])))


def _rows(arr):
    """Leading index variables and their range for a rank-1 / rank-2 array view."""
    if arr.obj.rank == 1:
        return [], []
    r = z3.Int("r!row")
    return [r], [0 <= r, r < arr.obj.shape[0]]


def unmasked(res, xm, xfull, a: Seq, m: Seq, sz, upto):
    """Scatter: the chunk of the j-th name of a (j < upto) holds the next unread chunk of xm when the name is a masking name
    (chunks are consumed in the order of a), the default (zero or x_full) otherwise."""
    j, p = z3.Int("j!um"), z3.Int("p!um")
    M = mem_of(m.a, m.n)
    rv, rr = _rows(xm)
    base = (z3.RealVal(0) if xfull is None else at(xfull.obj.elems, *rv, p))
    src = at(xm.obj.elems, *rv, offm(a.a, sz, M, j) + (p - off(a.a, sz, j)))
    tgt = at(res.obj.elems, *rv, p)
    return fa_multi([j, p] + rv, z3.Implies(z3.And(0 <= j, j < upto, off(a.a, sz, j) <= p, p < off(a.a, sz, j) + sz[a.a[j]], *rr),
                                            tgt == z3.If(M[a.a[j]], src, base)), a.a[j], tgt)


def untouched_from(res, xm, xfull, lo):
    p = z3.Int("p!ut")
    rv, rr = _rows(xm)
    base = (z3.RealVal(0) if xfull is None else at(xfull.obj.elems, *rv, p))
    tgt = at(res.obj.elems, *rv, p)
    return fa_multi([p] + rv, z3.Implies(z3.And(lo <= p, p < res.obj.shape[-1], *rr), tgt == base), tgt)


def _xfull(c):
    v = c.arg("x_full")
    return None if v is None else c.old.x_full


def _unmask_inv(c, k):
    m, a = seq_of(c, c.old, "masking_data_names"), all_names(c)
    sz = vsizes(c).vals
    M = mem_of(m.a, m.n)
    res, xm, xf = c.locals["x_unmask"], c.old.x_masked, _xfull(c)
    return [("consumed", c.locals["i_x"] == offm(a.a, sz, M, k)), ("nonneg", z3.And(off(a.a, sz, k) >= 0, offm(a.a, sz, M, k) >= 0)),
            ("prefix-below", prefix_below(a, sz, k)),
            ("shape", z3.And(ln(res, -1) == off(a.a, sz, a.n), *([ln(res, 0) == ln(xm, 0)] if xm.obj.rank == 2 else []))),
            ("done", unmasked(res, xm, xf, a, m, sz, k)), ("rest-untouched", untouched_from(res, xm, xf, off(a.a, sz, k)))]


class _Unmask(Contract):
    """Scatter of the chunks of x_masked (consumed in the order of all names) into zeros / a copy of x_full."""

    targets = (BF + ".unmask_x_swap_order",)
    prop = ("C17",)
    numpy = "precise"
    np_c17 = True
    frame_arrays = True
    loops = {0: LoopSpec(anchor="all_data_names", inv=_unmask_inv, modifies=("x_unmask",))}

    def requires(self, c):
        m, a = seq_of(c, c.old, "masking_data_names"), all_names(c)
        sz = vsizes(c).vals
        xm, xf = c.old.x_masked, _xfull(c)
        out = explicit_nonempty(c) + [("all-names-distinct", distinct(a)), ("all-names-have-sizes", sized(a, vsizes(c))),
                                      ("design-space-sizes-consistent", ds_consistent(c)), ("sizes-positive", _ds_sizes_positive(c)),
                                      ("enough-masked-components", ln(xm, -1) >= offm(a.a, sz, mem_of(m.a, m.n), a.n))]
        if xf is not None:
            out.append(("x_full-has-the-full-dimension", z3.And(ln(xf, -1) == off(a.a, sz, a.n), *([ln(xf, 0) == ln(xm, 0)] if xm.obj.rank == 2 else []))))
        return out

    def axioms(self, c):
        m, a = seq_of(c, c.old, "masking_data_names"), all_names(c)
        sz = vsizes(c).vals
        M = mem_of(m.a, m.n)
        return off_axioms() + offm_axioms() + mem_axioms(m) + [distinct_inj(a), ("lemma:off-monotone(all)", off_mono(a, sz)), ("lemma:offm-monotone", offm_mono(a, sz, M)),
                                                               ("lemma:psum-bridge", psum_bridge(a, sz))]

    def ensures(self, c):
        m, a = seq_of(c, c.old, "masking_data_names"), all_names(c)
        sz = vsizes(c).vals
        res, xm, xf = c.result, c.old.x_masked, _xfull(c)
        out = [("shape", z3.And(ln(res, -1) == off(a.a, sz, a.n), *([ln(res, 0) == ln(xm, 0)] if xm.obj.rank == 2 else []))),
               ("scattered", unmasked(res, xm, xf, a, m, sz, a.n)),
               ("fresh-result", z3.BoolVal(res.ref.id != xm.ref.id and (xf is None or res.ref.id != xf.ref.id)))]
        return out


def _unmask_variant(name, params, returns):
    cls = type("Unmask_" + (name or "explicit"), (_Unmask,), {"params": params, "returns": returns, **({"variant": name} if name else {})})
    return register(cls)


NAMES_T = TList(TStr)
_unmask_variant(None, {"masking_data_names": NAMES_T, "x_masked": F1, "all_data_names": NAMES_T}, F1)
_unmask_variant("default", {"masking_data_names": NAMES_T, "x_masked": F1}, F1)
_unmask_variant("x_full", {"masking_data_names": NAMES_T, "x_masked": F1, "all_data_names": NAMES_T, "x_full": F1}, F1)
_unmask_variant("default-x_full", {"masking_data_names": NAMES_T, "x_masked": F1, "x_full": F1}, F1)
_unmask_variant("matrix", {"masking_data_names": NAMES_T, "x_masked": F2, "all_data_names": NAMES_T}, F2)
_unmask_variant("default-matrix", {"masking_data_names": NAMES_T, "x_masked": F2}, F2)


# ---------------------------------------------------------------------------- lemmas (pure SMT): inductions behind the assumed facts, inverse maps
class _FakeArr:
    """A rank-1 real array given by plain z3 terms, shaped like the views the spec functions take."""

    class _O:
        rank = 1

    def __init__(self, name, n):
        self.obj = _FakeArr._O()
        self.obj.elems = z3.Const(name, z3.ArraySort(INT, z3.RealSort()))
        self.obj.shape = (n,)


def _ax(pairs):
    return z3.And(*[f for _, f in pairs])


def sublist_same_order(m: Seq, a: Seq, e):
    """m is the sub-list of a selected by the strictly increasing index map e (hence duplicate-free when a is)."""
    u, v = z3.Int("u!so"), z3.Int("v!so")
    return z3.And(m.n >= 0, a.n >= 0,
                  z3.ForAll([u], z3.Implies(z3.And(0 <= u, u < m.n), z3.And(0 <= e[u], e[u] < a.n, a.a[e[u]] == m.a[u])), patterns=[e[u], m.a[u]]),
                  z3.ForAll([u, v], z3.Implies(z3.And(0 <= u, u < v, v < m.n), e[u] < e[v]), patterns=[z3.MultiPattern(e[u], e[v])]))


def no_member_between(a: Seq, sz, M):
    """L1 (by induction on hi): offm does not move over a stretch of names that are not masking names."""
    lo, hi, j = z3.Int("lo!nb"), z3.Int("hi!nb"), z3.Int("j!nb")
    return z3.ForAll([lo, hi], z3.Implies(z3.And(0 <= lo, lo <= hi, z3.ForAll([j], z3.Implies(z3.And(lo <= j, j < hi), z3.Not(M[a.a[j]])), patterns=[a.a[j]])),
                                          offm(a.a, sz, M, hi) == offm(a.a, sz, M, lo)), patterns=[z3.MultiPattern(offm(a.a, sz, M, lo), offm(a.a, sz, M, hi))])


def consumed_is_offset(m: Seq, a: Seq, sz, e):
    """K (by induction on i): when the e(i)-th name of a is reached, exactly the chunks of m[0..i) have been consumed; all of m at the end."""
    i = z3.Int("i!ko")
    M = mem_of(m.a, m.n)
    return z3.And(z3.ForAll([i], z3.Implies(z3.And(0 <= i, i < m.n), offm(a.a, sz, M, e[i]) == off(m.a, sz, i)), patterns=[e[i]]),
                  offm(a.a, sz, M, a.n) == off(m.a, sz, m.n))


@register
class OffsetLemmas(Contract):
    """Inductions (base + step) behind the facts about off / offm / psum_i assumed in the contracts above, and the two inverse lemmas
    mask(unmask(y)) = y, unmask(mask(x), x_full = x) = x for a duplicate-free sub-list in the same order."""

    targets = ()
    prop = ("C17",)
    lemma = True

    def lemmas(self):
        a, m = Seq(z3.Int("nA"), z3.Const("a", NAMES)), Seq(z3.Int("nM"), z3.Const("m", NAMES))
        sz, Mx = z3.Const("sz", SIZES), z3.Const("Mx", MEMS)
        k, i, j, lo, hi = z3.Ints("k i j lo hi")
        e = z3.Const("e", z3.ArraySort(INT, INT))
        A = z3.Const("A", z3.ArraySort(INT, INT))
        AX = z3.And(_ax(off_axioms()), _ax(offm_axioms()))
        nonneg = nonneg_sizes(a, sz)
        out = []
        # --- off-monotone: P(k) = forall i <= k. off(i) <= off(k)
        P = lambda t: z3.ForAll([i], z3.Implies(z3.And(0 <= i, i <= t), off(a.a, sz, i) <= off(a.a, sz, t)), patterns=[off(a.a, sz, i)])  # noqa: E731
        out += [("off-monotone:base", z3.Implies(AX, P(z3.IntVal(0)))),
                ("off-monotone:step", z3.Implies(z3.And(AX, nonneg, 0 <= k, k < a.n, P(k)), P(k + 1))),
                ("off-monotone:instances", z3.Implies(z3.And(AX, a.n >= 0, z3.ForAll([k], z3.Implies(z3.And(0 <= k, k <= a.n), P(k)), patterns=[off(a.a, sz, k)]),
                                                             off(a.a, sz, a.n) == off(a.a, sz, a.n)), off_mono(a, sz)))]
        # --- offm-monotone
        Q = lambda t: z3.ForAll([i], z3.Implies(z3.And(0 <= i, i <= t), offm(a.a, sz, Mx, i) <= offm(a.a, sz, Mx, t)), patterns=[offm(a.a, sz, Mx, i)])  # noqa: E731
        out += [("offm-monotone:base", z3.Implies(AX, Q(z3.IntVal(0)))),
                ("offm-monotone:step", z3.Implies(z3.And(AX, nonneg, 0 <= k, k < a.n, Q(k)), Q(k + 1))),
                ("offm-monotone:instances", z3.Implies(z3.And(AX, a.n >= 0, z3.ForAll([k], z3.Implies(z3.And(0 <= k, k <= a.n), Q(k)), patterns=[offm(a.a, sz, Mx, k)])),
                                                       offm_mono(a, sz, Mx)))]
        # --- psum-bridge: sum of the sizes along the names = off
        from pyvc.plug_np_c17 import psum_axioms

        PS = z3.And(*psum_axioms())
        out += [("psum-bridge:base", z3.Implies(z3.And(AX, PS), psum_i(A, 0) == off(a.a, sz, 0))),
                ("psum-bridge:step", z3.Implies(z3.And(AX, PS, 0 <= k, psum_i(A, k) == off(a.a, sz, k), A[k] == sz[a.a[k]]), psum_i(A, k + 1) == off(a.a, sz, k + 1)))]
        # --- L1: no member between lo and hi => offm(hi) = offm(lo)   (induction on hi)
        stretch = lambda h: z3.ForAll([j], z3.Implies(z3.And(lo <= j, j < h), z3.Not(Mx[a.a[j]])), patterns=[a.a[j]])  # noqa: E731
        out += [("no-member-between:step", z3.Implies(z3.And(AX, 0 <= lo, lo <= hi, stretch(hi + 1), z3.Implies(stretch(hi), offm(a.a, sz, Mx, hi) == offm(a.a, sz, Mx, lo))),
                                                      offm(a.a, sz, Mx, hi + 1) == offm(a.a, sz, Mx, lo)))]
        # --- K: consumed = offset in m, under the sub-list precondition
        M = mem_of(m.a, m.n)
        ctx = z3.And(AX, _ax(mem_axioms(m)), distinct(a), distinct_inj(a)[1], sublist_same_order(m, a, e))

        def L1(lo_, hi_):
            """Instance of no-member-between (proved above by induction on hi) for one stretch."""
            return z3.Implies(z3.And(0 <= lo_, lo_ <= hi_, z3.ForAll([j], z3.Implies(z3.And(lo_ <= j, j < hi_), z3.Not(M[a.a[j]])), patterns=[a.a[j]])),
                              offm(a.a, sz, M, hi_) == offm(a.a, sz, M, lo_))

        out += [("consumed-is-offset:base", z3.Implies(z3.And(ctx, L1(z3.IntVal(0), e[0]), m.n >= 1, offm(a.a, sz, M, 0) == 0, off(m.a, sz, 0) == 0),
                                                       offm(a.a, sz, M, e[0]) == off(m.a, sz, 0))),
                ("consumed-is-offset:step", z3.Implies(z3.And(ctx, L1(e[i] + 1, e[i + 1]), 0 <= i, i + 1 < m.n, offm(a.a, sz, M, e[i]) == off(m.a, sz, i),
                                                              off(m.a, sz, i + 1) == off(m.a, sz, i) + sz[m.a[i]],
                                                              offm(a.a, sz, M, e[i] + 1) == offm(a.a, sz, M, e[i]) + z3.If(M[a.a[e[i]]], sz[a.a[e[i]]], 0)),
                                                       offm(a.a, sz, M, e[i + 1]) == off(m.a, sz, i + 1))),
                ("consumed-is-offset:end", z3.Implies(z3.And(ctx, L1(e[m.n - 1] + 1, a.n), m.n >= 1, offm(a.a, sz, M, e[m.n - 1]) == off(m.a, sz, m.n - 1),
                                                             off(m.a, sz, m.n) == off(m.a, sz, m.n - 1) + sz[m.a[m.n - 1]],
                                                             offm(a.a, sz, M, e[m.n - 1] + 1) == offm(a.a, sz, M, e[m.n - 1]) + z3.If(M[a.a[e[m.n - 1]]], sz[a.a[e[m.n - 1]]], 0)),
                                                      offm(a.a, sz, M, a.n) == off(m.a, sz, m.n))),
                ("consumed-is-offset:empty", z3.Implies(z3.And(ctx, L1(z3.IntVal(0), a.n), a.n >= 0, m.n == 0, offm(a.a, sz, M, 0) == 0, off(m.a, sz, 0) == 0),
                                                        offm(a.a, sz, M, a.n) == off(m.a, sz, m.n)))]
        # --- the inverse lemmas, over the postconditions of unmask_x_swap_order and mask_x_swap_order
        K = consumed_is_offset(m, a, sz, e)
        pre = z3.And(AX, _ax(mem_axioms(m)), distinct(a), distinct_inj(a)[1], sublist_same_order(m, a, e), K, sized(a, _FakeSizes(sz)))
        y, u, r = _FakeArr("y", off(m.a, sz, m.n)), _FakeArr("u", off(a.a, sz, a.n)), _FakeArr("r", off(m.a, sz, m.n))
        p = z3.Int("p")
        out += [("mask-after-unmask-is-identity",
                 z3.Implies(z3.And(pre, unmasked(u, y, None, a, m, sz, a.n), gathered(r.obj.elems, u.obj.elems, m, a, sz),
                                   0 <= i, i < m.n, off(m.a, sz, i) <= p, p < off(m.a, sz, i) + sz[m.a[i]]),
                            r.obj.elems[p] == y.obj.elems[p]))]
        x, v, w = _FakeArr("x", off(a.a, sz, a.n)), _FakeArr("v", off(m.a, sz, m.n)), _FakeArr("w", off(a.a, sz, a.n))
        out += [("unmask-after-mask-is-identity",
                 z3.Implies(z3.And(pre, gathered(v.obj.elems, x.obj.elems, m, a, sz), unmasked(w, v, x, a, m, sz, a.n),
                                   0 <= j, j < a.n, off(a.a, sz, j) <= p, p < off(a.a, sz, j) + sz[a.a[j]]),
                            w.obj.elems[p] == x.obj.elems[p]))]
        return out


class _FakeSizes:
    def __init__(self, sz):
        self.vals = sz
        self.member = z3.K(STR, z3.BoolVal(True))


# ---------------------------------------------------------------------------- FunctionFromDiscipline: input mask, value, gradient
from pyvc import source as S  # noqa: E402
from pyvc.values import BoundMethod, T, TFun, TNone  # noqa: E402

FFD = "gemseo.core.mdo_functions.function_from_discipline.FunctionFromDiscipline"
DA = "gemseo.core.mdo_functions.discipline_adapter.DisciplineAdapter"
P_ = "_FunctionFromDiscipline__"


class _TEmptyTuple(T):
    """A field holding the concrete empty tuple (the default `()` of all_input_names)."""

    name = "EmptyTuple"

    def fresh(self, st, hint):
        return ()

    def sort(self):
        raise C.Unsupported("() has no sort")


class _TBoundOfFormulation(T):
    """A field holding a bound method of the formulation the function was built for (ghost field ``c17_formulation``)."""

    def __init__(self, method):
        self.method = method
        self.name = f"Bound[{method}]"

    def fresh_in(self, st, hint, owner):
        return BoundMethod(st.heap[owner.id].fields["c17_formulation"], S.find_method(BF, self.method))

    def sort(self):
        raise C.Unsupported("bound methods cannot be stored in symbolic containers")


ADAPTER_F = TFun("c17_adapter_value", [F1], F1)
ADAPTER_J = TFun("c17_adapter_gradient", [F1], F1)
adapter_f = z3.Function("c17_adapter_value", F1.sort(), F1.sort())
adapter_j = z3.Function("c17_adapter_gradient", F1.sort(), F1.sort())
schema(DA + "#c17", {"_func": ADAPTER_F, "_jac": ADAPTER_J, "last_eval": F1, "force_real": TBool, "dim": TInt})
_FFD_FIELDS = {
    "c17_formulation": TObj(BF),  # ghost: the formulation whose methods were stored at construction
    "c17_embedding": TList(TInt),  # ghost: positions of the input names within the design space's variables
    P_ + "input_names": TList(TStr), P_ + "all_input_names": _TEmptyTuple(),
    P_ + "differentiated_input_names": TList(TStr), P_ + "all_differentiated_input_names": _TEmptyTuple(),
    P_ + "get_x_mask_x_swap_order": _TBoundOfFormulation("get_x_mask_x_swap_order"),
    P_ + "unmask_x_swap_order": _TBoundOfFormulation("unmask_x_swap_order"),
    P_ + "discipline_adapter": TObj(DA, schema_key=DA + "#c17"),
}
schema(FFD + "#first", {**_FFD_FIELDS, P_ + "input_mask": TNone})
schema(FFD + "#cached", {**_FFD_FIELDS, P_ + "input_mask": I1})


class _F:
    """Spec view of a FunctionFromDiscipline: its formulation, names and sizes."""

    def __init__(self, s):
        self.s = s
        self.form = s.c17_formulation
        d = self.form.optimization_problem.design_space._variables
        self.d = d
        self.a = Seq(d.n, d.keys)
        names = getattr(s, P_ + "input_names")
        self.m = Seq(names.n, names.elems)
        dn = getattr(s, P_ + "differentiated_input_names")
        self.dm = Seq(dn.n, dn.elems)
        self.vs = self.form.variable_sizes
        self.sz = self.vs.vals
        self.mask = getattr(s, P_ + "input_mask")
        self.e = s.c17_embedding.elems


def _form_pre(f: _F):
    """Preconditions of get_x_mask_x_swap_order(input_names, ()) on the stored formulation + the origin of the input names."""
    k = z3.Const("k!fp", STR)
    d, vs = f.d, f.vs
    return [("all-names-have-sizes", sized(f.a, vs)),
            ("design-space-sizes-consistent", forall_pat([k], z3.Implies(d.member[k], z3.And(vs.member[k], vs.vals[k] == vsize(d.vals[k]))), d.member[k])),
            ("sizes-positive", forall_pat([k], z3.Implies(d.member[k], vsize(d.vals[k]) >= 1), d.member[k])),
            # get_x_names_of_disc: the design variables that are inputs of the discipline, in the order of the design space
            ("input-names-are-a-sub-list-of-the-design-variables", sublist_same_order(f.m, f.a, f.e))]


def _mask_facts(r, f: _F):
    return [("length", ln(r) == off(f.m.a, f.sz, f.m.n)), ("ranges", mask_ranges(r.obj.elems, f.m, f.a, f.sz, f.m.n)),
            ("in-range", mask_in_range(r.obj.elems, off(f.m.a, f.sz, f.m.n), off(f.a.a, f.sz, f.a.n)))]


def _ffd_axioms(f: _F):
    return off_axioms() + offm_axioms() + mem_axioms(f.m) + [distinct_inj(f.a), ("lemma:off-monotone(all)", off_mono(f.a, f.sz)), ("lemma:off-monotone(inputs)", off_mono(f.m, f.sz)),
                                                             ("lemma:consumed-is-offset", consumed_is_offset(f.m, f.a, f.sz, f.e))]


def _sublist_in_ds(f: _F):
    """Consequences of the sub-list fact stated with the triggers the callee preconditions need."""
    j = z3.Int("j!sl")
    return ("derived:input-names-are-design-variables", z3.ForAll([j], z3.Implies(z3.And(0 <= j, j < f.m.n), f.d.member[f.m.a[j]]), patterns=[f.m.a[j]]))


class _InputMask(Contract):
    targets = (FFD + "._input_mask",)
    inline_ok = True  # callers execute the (two-line) property body itself: the cached field then holds the very array returned
    prop = ("C17",)
    numpy = "precise"
    np_c17 = True
    frame_arrays = True
    returns = I1
    modifies = ("self",)

    def requires(self, c):
        f = _F(c.old.self)
        out = _form_pre(f)
        if f.mask is not None:
            out += [("cached-mask:" + l, g) for l, g in _mask_facts(f.mask, f)]  # representation invariant of the cached mask
        return out

    def axioms(self, c):
        f = _F(c.old.self)
        return _ffd_axioms(f) + [_sublist_in_ds(f)]

    def ensures(self, c):
        f = _F(c.old.self)
        new_mask = getattr(c.new.self, P_ + "input_mask")
        return _mask_facts(c.result, f) + [("mask-is-cached", z3.BoolVal(new_mask.ref.id == c.result.ref.id))]


@register
class InputMaskFirst(_InputMask):
    """First evaluation: the mask is computed from the input names within the design variables, and cached."""

    self_schema = FFD + "#first"


@register
class InputMaskCached(_InputMask):
    variant = "cached"
    self_schema = FFD + "#cached"


def _gathered_term(x, mask):
    """The embedded vector x[mask] exactly as numpy's fancy indexing builds it in the model (uninterpreted functions of arrays see whole terms)."""
    i = z3.Int("i!np0")
    n = ln(x)
    mk = mask.obj.elems
    return F1.dt.mk(ln(mask), z3.Lambda([i], x.obj.elems[z3.If(mk[i] < 0, mk[i] + n, mk[i])]))


def _arr_term(v):
    return F1.dt.mk(ln(v), v.obj.elems)


class _FuncToWrap(Contract):
    """f(x_full) = f_adapter(x_full[mask]): the discipline adapter sees exactly the components of its input names, in their order."""

    targets = (FFD + "._func_to_wrap",)
    prop = ("C17",)
    numpy = "precise"
    np_c17 = True
    frame_arrays = True
    params = {"x_vect": F1}
    returns = F1
    modifies = ("self", "self." + P_ + "discipline_adapter")

    def requires(self, c):
        f = _F(c.old.self)
        return _InputMask.requires(self, c) + [("vector-has-the-full-dimension", ln(c.old.x_vect) == off(f.a.a, f.sz, f.a.n))]

    def axioms(self, c):
        return _InputMask.axioms(self, c)

    def ensures(self, c):
        f = _F(c.old.self)
        x = c.old.x_vect
        mask = getattr(c.new.self, P_ + "input_mask")
        if mask is None:
            return [("input-mask-is-computed-and-cached", z3.BoolVal(False))]
        return [(f"mask:{l}", h) for l, h in _mask_facts(mask, f)] + [
            ("value", _arr_term(c.result) == adapter_f(_gathered_term(x, mask))),
            ("adapter-input-is-the-gather", gathered(F1.els(_gathered_term(x, mask)), x.obj.elems, f.m, f.a, f.sz)),
            ("adapter-input-length", F1.dim(_gathered_term(x, mask)) == off(f.m.a, f.sz, f.m.n))]


@register
class FuncToWrapFirst(_FuncToWrap):
    self_schema = FFD + "#first"


@register
class FuncToWrapCached(_FuncToWrap):
    variant = "cached"
    self_schema = FFD + "#cached"


class _JacToWrap(Contract):
    """Df = unmask(Df_adapter): the adapter's gradient components are placed at the columns of their variables, zeros elsewhere
    (scalar output, no differentiated-input substitute: differentiated names = input names)."""

    targets = (FFD + "._jac_to_wrap",)
    prop = ("C17",)
    numpy = "precise"
    np_c17 = True
    frame_arrays = True
    params = {"x_vect": F1}
    returns = F1
    modifies = ("self", "self." + P_ + "discipline_adapter")

    def requires(self, c):
        f = _F(c.old.self)
        v = z3.Const("v!jd", F1.sort())
        return _FuncToWrap.requires(self, c) + [
            ("differentiated-names-are-the-input-names", z3.And(f.dm.n == f.m.n, f.dm.a == f.m.a)),
            ("adapter-gradient-has-one-component-per-input-component", z3.ForAll([v], F1.dim(adapter_j(v)) == off(f.m.a, f.sz, f.m.n), patterns=[adapter_j(v)]))]

    def axioms(self, c):
        return _InputMask.axioms(self, c)

    def ensures(self, c):
        f = _F(c.old.self)
        x = c.old.x_vect
        mask = getattr(c.new.self, P_ + "input_mask")
        if mask is None:
            return [("input-mask-is-computed-and-cached", z3.BoolVal(False))]
        J = _FakeArr("unused", 0)
        jt = adapter_j(_gathered_term(x, mask))
        J.obj.elems, J.obj.shape = F1.els(jt), (F1.dim(jt),)
        return [("length", ln(c.result) == off(f.a.a, f.sz, f.a.n)), ("unmasked-adapter-gradient", unmasked(c.result, J, None, f.a, f.m, f.sz, f.a.n))]


@register
class JacToWrapFirst(_JacToWrap):
    self_schema = FFD + "#first"


@register
class JacToWrapCached(_JacToWrap):
    variant = "cached"
    self_schema = FFD + "#cached"


# ---------------------------------------------------------------------------- ConsistencyConstraint: (y(x) - y_copy) / norm_factor
from pyvc.npmodel import is_inf  # noqa: E402

CCLS = "gemseo.core.mdo_functions.consistency_constraint.ConsistencyConstraint"
CP_ = "_ConsistencyConstraint__"
COUPLING_Y = TFun("c17_coupling_value", [F1], F1)
coupling_y = z3.Function("c17_coupling_value", F1.sort(), F1.sort())
schema(BF + "#idf", {"normalize_constraints": TBool}, bases=[BF])
schema(FFD + "#asfun", {"_func": COUPLING_Y, "last_eval": F1, "force_real": TBool, "dim": TInt})
schema(CCLS, {CP_ + "formulation": TObj(BF, schema_key=BF + "#idf"), CP_ + "output_couplings": TList(TStr),
              CP_ + "coupl_func": TObj(FFD, schema_key=FFD + "#asfun"), CP_ + "norm_fact": F1})


class _CC:
    def __init__(self, s):
        self.form = getattr(s, CP_ + "formulation")
        oc = getattr(s, CP_ + "output_couplings")
        self.oc = Seq(oc.n, oc.elems)
        self.d = self.form.optimization_problem.design_space._variables
        self.a = Seq(self.d.n, self.d.keys)
        self.vs = self.form.variable_sizes
        self.sz = self.vs.vals
        self.nf = getattr(s, CP_ + "norm_fact")
        self.normalize = self.form.normalize_constraints
        self.total = off(self.oc.a, self.sz, self.oc.n)


@register
class ConsistencyValue(Contract):
    """value = (y(x) - y_copy) / norm_factor (division only when normalize_constraints), y_copy = the coupling targets gathered from the
    design vector in the order of the output couplings; hence zero exactly when y_copy = y(x)."""

    targets = (CCLS + "._func_to_wrap",)
    prop = ("C17",)
    numpy = "precise"
    np_c17 = True
    frame_arrays = True
    params = {"x_vect": F1}
    returns = F1
    modifies = ("self." + CP_ + "coupl_func",)

    def requires(self, c):
        k = _CC(c.old.self)
        d, vs = k.d, k.vs
        x = z3.Const("k!cc", STR)
        j = z3.Int("j!cc")
        v = z3.Const("v!cc", F1.sort())
        return [("all-names-have-sizes", sized(k.a, vs)),
                ("design-space-sizes-consistent", forall_pat([x], z3.Implies(d.member[x], z3.And(vs.member[x], vs.vals[x] == vsize(d.vals[x]))), d.member[x])),
                ("sizes-positive", forall_pat([x], z3.Implies(d.member[x], vsize(d.vals[x]) >= 1), d.member[x])),
                # IDF._update_design_space raises unless every coupling is a design variable
                ("couplings-are-design-variables", z3.ForAll([j], z3.Implies(z3.And(0 <= j, j < k.oc.n), z3.And(d.member[k.oc.a[j]], d.pos[k.oc.a[j]] >= 0)), patterns=[k.oc.a[j]])),
                ("vector-has-the-full-dimension", ln(c.old.x_vect) == off(k.a.a, k.sz, k.a.n)),
                ("coupling-function-has-one-component-per-coupling-component", z3.ForAll([v], F1.dim(coupling_y(v)) == k.total, patterns=[coupling_y(v)])),
                ("norm-factor-has-one-component-per-coupling-component", ln(k.nf) == k.total),
                # call site: IDF._build_constraints passes IDF._get_normalization_factor(...), which (since the fix recorded in
                # known_findings.json) replaces infinite and null ranges by 1
                ("norm-factor-is-finite-and-non-zero", z3.Not(self.finding_regions(c)["degenerate-normalization-factor"]))]

    def axioms(self, c):
        k = _CC(c.old.self)
        return off_axioms() + [distinct_inj(k.a), ("lemma:off-monotone(couplings)", off_mono(k.oc, k.sz)), ("lemma:off-monotone(all)", off_mono(k.a, k.sz))]

    def finding_regions(self, c):
        k = _CC(c.old.self)
        i = z3.Int("i!fr17")
        return {"degenerate-normalization-factor": z3.And(k.normalize, z3.Exists([i], z3.And(0 <= i, i < k.total, z3.Or(el(k.nf, i) == 0, is_inf(el(k.nf, i))))))}

    def ensures(self, c):
        k = _CC(c.old.self)
        x, res = c.old.x_vect, c.result
        xsw, y = c.locals["x_sw"], c.locals["coupl"]
        i = z3.Int("i!cv")
        rng = z3.And(0 <= i, i < k.total)
        ri, yi, xi = at(res.obj.elems, i), at(y.obj.elems, i), at(xsw.obj.elems, i)
        diff = yi - xi
        return [("length", ln(res) == k.total),
                ("copies-are-the-coupling-targets-of-the-design-vector", gathered(xsw.obj.elems, x.obj.elems, k.oc, k.a, k.sz)),
                ("coupling-values", _arr_term(y) == coupling_y(_arr_term(x))),
                ("value", fa_multi([i], z3.Implies(rng, ri == z3.If(k.normalize, diff / el(k.nf, i), diff)), ri)),
                ("vanishes-iff-consistent", fa_multi([i], z3.Implies(rng, (ri == 0) == (yi == xi)), ri))]


# ---------------------------------------------------------------------------- get_x_names_of_disc: origin of the sub-list precondition
from pyvc.values import TSet, declare_ghost  # noqa: E402

DISC = "gemseo.core.discipline.discipline.Discipline"
declare_ghost("c17_emb", z3.ArraySort(INT, INT))
declare_ghost("c17_emb_inv", z3.ArraySort(INT, INT))
schema(DISC + ".io#c17", {"input_grammar": TSet(TStr)})  # a grammar is seen through `name in grammar` only: its set of names
schema(DISC + "#c17", {"io": TObj(DISC + ".io", schema_key=DISC + ".io#c17")})


@register
class GetXNamesOfDisc(Contract):
    """The design variables that are inputs of the discipline, in the order of the design space: a duplicate-free sub-list in the same
    order (ghost c17_emb = positions within the design variables) - the precondition of the inverse lemmas at every in-tree call site."""

    targets = (BF + ".get_x_names_of_disc",)
    prop = ("C17",)
    np_c17 = True
    params = {"discipline": TObj(DISC, schema_key=DISC + "#c17")}
    returns = TList(TStr)
    modifies = ("ghost:c17_emb", "ghost:c17_emb_inv")

    def ghost_final(self, c):
        from pyvc.state import Undecided

        o = c.result.obj
        if not hasattr(o, "fsrc"):
            raise Undecided("the result is no longer a filtered copy of the optimisation variable names")
        return {"c17_emb": o.fsrc, "c17_emb_inv": o.fdst}

    def ensures(self, c):
        d = dsvars(c)
        a, r = Seq(d.n, d.keys), Seq(c.result.n, c.result.elems)
        e, inv = c.new_ghost("c17_emb", z3.ArraySort(INT, INT)), c.new_ghost("c17_emb_inv", z3.ArraySort(INT, INT))
        g = c.old.discipline.io.input_grammar
        j = z3.Int("j!xn")
        return [("sub-list-of-the-design-variables-in-the-same-order", sublist_same_order(r, a, e)),
                ("only-inputs", z3.ForAll([j], z3.Implies(z3.And(0 <= j, j < r.n), g.member[r.a[j]]), patterns=[r.a[j]])),
                ("all-design-variables-that-are-inputs", z3.ForAll([j], z3.Implies(z3.And(0 <= j, j < a.n, g.member[a.a[j]]),
                                                                                   z3.And(0 <= inv[j], inv[j] < r.n, r.a[inv[j]] == a.a[j])), patterns=[a.a[j]]))]


# ---------------------------------------------------------------------------- IDF keeps the coupling targets in the design space
IDFC = "gemseo.formulations.idf.IDF"
schema(IDFC, {"all_couplings": TList(TStr), "optimization_problem": TObj(OP, schema_key=OP + "#c17"), "variable_sizes": TDict(TStr, TInt)})


@register
class SetDefaultInputsFromDesignSpace(Contract):
    targets = (BF + "._set_default_input_values_from_design_space",)
    prop = ("C17",)
    trusted = True
    description = ("assumed: _set_default_input_values_from_design_space only updates the default input values of the top-level disciplines "
                   "(no effect on the formulation, its design space or its sizes)")


@register
class IdfUpdateDesignSpace(Contract):
    """IDF requires every coupling variable as a design variable (ValueError otherwise) and leaves the design space as it is."""

    targets = (IDFC + "._update_design_space",)
    prop = ("C17",)
    np_c17 = True
    raises = {"ValueError": lambda c: z3.Exists([z3.Int("j!iu")], z3.And(0 <= z3.Int("j!iu"), z3.Int("j!iu") < c.old.self.all_couplings.n,
                                                                      z3.Not(dsvars(c).member[c.old.self.all_couplings.elems[z3.Int("j!iu")]])))}

    def ensures(self, c):
        d0, d1 = dsvars(c), c.new.self.optimization_problem.design_space._variables
        j = z3.Int("j!ie")
        cp = c.old.self.all_couplings
        return [("couplings-are-design-variables", z3.ForAll([j], z3.Implies(z3.And(0 <= j, j < cp.n), d1.member[cp.elems[j]]), patterns=[cp.elems[j]])),
                ("design-space-unchanged", z3.And(d1.n == d0.n, d1.keys == d0.keys, d1.member == d0.member, d1.vals == d0.vals))]
