"""C17 - MDO formulations are equivalent views of the same problem: the index / variable mapping part.

Spec vocabulary (all sizes symbolic):

* a sequence of names ``(n, a)``: length and ``Array Int Str``;  sizes ``sz: Array Str Int``;
* ``off(a, sz, k) = sum_{j<k} sz[a[j]]``: local offset of the k-th name (recursive ghost function);
* ``offm(a, sz, M, k) = sum_{j<k, M[a[j]]} sz[a[j]]``: number of components consumed by ``unmask`` before the k-th name.

Precise numpy model (pyvc/npmodel.py + pyvc/plug_np_c17.py).
"""
from __future__ import annotations

import z3

from pyvc import contract as C
from pyvc.contract import Contract, LoopSpec, register, schema
from pyvc.npmodel import TArr
from pyvc.plug_np_c17 import psum_i
from pyvc.values import forall_pat, PyObj, TBool, TDict, TInt, TList, TObj, TOpt, TReal, TRec, TStr, TTuple

BF = "gemseo.formulations.base_formulation.BaseFormulation"
OP = "gemseo.algos.optimization_problem.OptimizationProblem"
DS = "gemseo.algos.design_space.DesignSpace"
F1, F2, I1 = TArr("f", 1), TArr("f", 2), TArr("i", 1)
STR = TStr.sort()
INT = z3.IntSort()
NAMES, SIZES, MEMS = z3.ArraySort(INT, STR), z3.ArraySort(STR, INT), z3.ArraySort(STR, z3.BoolSort())

VAR = TRec("VariableC17", {"size": TInt})
VARS = TDict(TStr, VAR, ordered=True)
TRIPLE = TTuple(TInt, TInt, TInt)
INDICES = TDict(TStr, TRIPLE, ordered=True)

schema(DS + "#c17", {"_variables": VARS})
schema(OP + "#c17", {"design_space": TObj(DS, schema_key=DS + "#c17")})
schema(BF, {"variable_sizes": TDict(TStr, TInt), "optimization_problem": TObj(OP, schema_key=OP + "#c17")})

# ---------------------------------------------------------------------------- ghost functions
off = z3.Function("c17_off", NAMES, SIZES, INT, INT)
offm = z3.Function("c17_offm", NAMES, SIZES, MEMS, INT, INT)


def off_axioms():
    a, s, k, m = z3.Const("a!off", NAMES), z3.Const("s!off", SIZES), z3.Int("k!off"), z3.Const("m!off", MEMS)
    return [("off:base", z3.ForAll([a, s], off(a, s, 0) == 0, patterns=[off(a, s, 0)])),
            ("off:step", z3.ForAll([a, s, k], z3.Implies(k >= 0, off(a, s, k + 1) == off(a, s, k) + s[a[k]]), patterns=[off(a, s, k + 1)]))]


def offm_axioms():
    a, s, k, m = z3.Const("a!off", NAMES), z3.Const("s!off", SIZES), z3.Int("k!off"), z3.Const("m!off", MEMS)
    return [("offm:base", z3.ForAll([a, s, m], offm(a, s, m, 0) == 0, patterns=[offm(a, s, m, 0)])),
            ("offm:step", z3.ForAll([a, s, m, k], z3.Implies(k >= 0, offm(a, s, m, k + 1) == offm(a, s, m, k) + z3.If(m[a[k]], s[a[k]], 0)),
                                    patterns=[offm(a, s, m, k + 1)]))]


def fa_multi(vs, body, *terms):
    """ForAll with one multi-pattern made of ``terms`` when z3 accepts it (a term over a mutated array may have become an if-then-else
    or a lambda application, which cannot be a trigger: then - in goal position - no trigger is needed)."""
    from pyvc.values import _pattern_ok

    if all(z3.is_app(t) and t.decl().kind() in (z3.Z3_OP_SELECT, z3.Z3_OP_UNINTERPRETED) and _pattern_ok(t) for t in terms):
        try:
            return z3.ForAll(vs, body, patterns=[z3.MultiPattern(*terms) if len(terms) > 1 else terms[0]])
        except z3.Z3Exception:
            pass
    return z3.ForAll(vs, body)


def at(arr, *idx):
    """arr[idx] with a lambda array beta-reduced on the spot (keeps lambda terms out of the proof obligations)."""
    if z3.is_quantifier(arr) and arr.is_lambda():
        return z3.substitute_vars(arr.body(), *reversed(idx))
    return z3.Select(arr, *idx)


class Seq:
    """A sequence of names as seen by a specification: length + element array."""

    def __init__(self, n, a):
        self.n, self.a = n, a


def seq_of(c, ns, name):
    """The sequence of names denoted by argument ``name``: a list, a concrete tuple of strings, or a design space (its variable order)."""
    v = c.arg(name)
    if isinstance(v, tuple):
        arr = z3.K(INT, TStr.embed(c.st, ""))
        for i, x in enumerate(v):
            arr = z3.Store(arr, i, TStr.embed(c.st, x))
        return Seq(z3.IntVal(len(v)), arr)
    view = getattr(ns, name)
    if isinstance(view.obj, PyObj):
        d = view._variables
        return Seq(d.n, d.keys)
    return Seq(view.n, view.elems)


idx_of = z3.Function("c17_idx", NAMES, INT, STR, INT)
_never = z3.Function("c17_never", INT, INT, INT)


def distinct(s: Seq):
    """Pairwise distinct names.  As a hypothesis this quadratic formula is never instantiated (its trigger does not occur anywhere);
    it is used through its consequence `distinct_inj` (an index function inverting the sequence)."""
    i, j = z3.Int("i!dn"), z3.Int("j!dn")
    return z3.ForAll([i, j], z3.Implies(z3.And(0 <= i, i < j, j < s.n), s.a[i] != s.a[j]), patterns=[_never(i, j)])


def distinct_inj(s: Seq):
    """Consequence of the precondition distinct(s) (always required next to this axiom, and established before it is assumed at a call
    site): some function inverts the sequence (choice; `c17_idx` is otherwise unconstrained).  Stated unconditionally because the
    provers cannot instantiate the quadratic precondition (it has no usable trigger on purpose)."""
    j = z3.Int("j!di")
    return ("choice:index-of-distinct-names", z3.ForAll([j], z3.Implies(z3.And(0 <= j, j < s.n), idx_of(s.a, s.n, s.a[j]) == j), patterns=[s.a[j]]))


def sized(s: Seq, vs):
    """Every name of the sequence has a size (>= 1) in the dict view ``vs``."""
    j = z3.Int("j!sz")
    return z3.ForAll([j], z3.Implies(z3.And(0 <= j, j < s.n), z3.And(vs.member[s.a[j]], vs.vals[s.a[j]] >= 1)), patterns=[s.a[j]])


def triple(x, y, z):
    return TRIPLE.dt.mk(x, y, z)


# ---------------------------------------------------------------------------- _get_dv_indices
def indices_of(d, s: Seq, sz, upto):
    """``d`` maps the first ``upto`` names of ``s`` (in that order) to (start, end, size) with adjacent local ranges."""
    j = z3.Int("j!ix")
    x = z3.Const("x!ix", STR)
    return [("count", d.n == upto),
            ("order", forall_pat([j], z3.Implies(z3.And(0 <= j, j < upto), d.keys[j] == s.a[j]), d.keys[j])),
            ("members", forall_pat([j], z3.Implies(z3.And(0 <= j, j < upto), d.member[s.a[j]]), s.a[j])),
            ("only-members", forall_pat([x], z3.Implies(d.member[x], z3.And(0 <= d.pos[x], d.pos[x] < upto, s.a[d.pos[x]] == x)), d.member[x])),
            ("ranges", forall_pat([j], z3.Implies(z3.And(0 <= j, j < upto),
                                                  d.vals[s.a[j]] == triple(off(s.a, sz, j), off(s.a, sz, j + 1), sz[s.a[j]])), s.a[j]))]


def _dv_inv(c, k):
    s = seq_of(c, c.old, "names")
    sz = c.old.self.variable_sizes.vals
    d = c.locals["names_to_indices"]
    return [("start", c.locals["start"] == off(s.a, sz, k)), ("end", c.locals["end"] == off(s.a, sz, k))] + indices_of(d, s, sz, k)


@register
class GetDvIndices(Contract):
    """Local index ranges in the order of ``names``: start(first) = 0, end - start = size, start(next) = end(previous)."""

    targets = (BF + "._get_dv_indices",)
    prop = ("C17",)
    numpy = "precise"
    np_c17 = True
    params = {"names": TList(TStr)}
    returns = INDICES
    loops = {0: LoopSpec(anchor="names", inv=_dv_inv, modifies=("names_to_indices",), local_types={"names_to_indices": INDICES})}

    def requires(self, c):
        s = seq_of(c, c.old, "names")
        return [("names-distinct", distinct(s)), ("names-have-sizes", sized(s, c.old.self.variable_sizes))]

    def axioms(self, c):
        return off_axioms() + [distinct_inj(seq_of(c, c.old, "names"))]

    def ensures(self, c):
        s = seq_of(c, c.old, "names")
        sz = c.old.self.variable_sizes.vals
        return indices_of(c.result, s, sz, s.n)


# ---------------------------------------------------------------------------- facts about off (proved by induction in OffsetLemmas)
def nonneg_sizes(s: Seq, sz):
    j = z3.Int("j!nn")
    return z3.ForAll([j], z3.Implies(z3.And(0 <= j, j < s.n), sz[s.a[j]] >= 0), patterns=[s.a[j]])


def off_mono(s: Seq, sz):
    """With non-negative sizes every chunk [off(i), off(i) + size_i) lies within [0, off(n)) (instances of lemma off-monotone, by induction)."""
    i = z3.Int("i!mo")
    return z3.Implies(nonneg_sizes(s, sz),
                      z3.And(off(s.a, sz, s.n) >= 0,
                             z3.ForAll([i], z3.Implies(z3.And(0 <= i, i < s.n), z3.And(0 <= off(s.a, sz, i), off(s.a, sz, i) + sz[s.a[i]] <= off(s.a, sz, s.n))),
                                       patterns=[off(s.a, sz, i)])))


def prefix_below(s: Seq, sz, k):
    """Loop-carried monotonicity: the chunks of the names handled so far end below the current offset."""
    i = z3.Int("i!pb")
    return z3.ForAll([i], z3.Implies(z3.And(0 <= i, i < k), z3.And(0 <= off(s.a, sz, i), off(s.a, sz, i) + sz[s.a[i]] <= off(s.a, sz, k))), patterns=[off(s.a, sz, i)])


def psum_bridge(s: Seq, sz):
    """sum(sz'[x] for x in s[:k]) = off(s, sz, k) when sz' agrees with sz on these names (lemma psum-bridge, by induction)."""
    A = z3.Const("A!br", z3.ArraySort(INT, INT))
    k, j = z3.Int("k!br"), z3.Int("j!br")
    return z3.ForAll([A, k], z3.Implies(z3.And(0 <= k, z3.ForAll([j], z3.Implies(z3.And(0 <= j, j < k), A[j] == sz[s.a[j]]), patterns=[A[j]])),
                                        psum_i(A, k) == off(s.a, sz, k)), patterns=[psum_i(A, k)])


def el(a, *i):
    return z3.Select(a.obj.elems, *i)


def ln(a, j=0):
    return a.obj.shape[j]


def vsizes(c):
    return c.old.self.variable_sizes


def dsvars(c):
    return c.old.self.optimization_problem.design_space._variables


def vsize(t):
    return VAR.accessor("size")(t)


def all_names(c) -> Seq:
    """The effective sequence of all names: the argument, or the variables of the design space when it is empty."""
    d = dsvars(c)
    v = c.arg("all_data_names")
    if isinstance(v, tuple) and not v:
        return Seq(d.n, d.keys)
    s = seq_of(c, c.old, "all_data_names")
    return Seq(eff_n(s.n, d.n), eff_a(s.n, s.a, d.keys))


eff_n = z3.Function("c17_eff_n", INT, INT, INT)
eff_a = z3.Function("c17_eff_names", INT, NAMES, NAMES, NAMES)


def eff_axioms():
    """Definitions (macros): a non-empty argument is used as it is, an empty one stands for the design space's variables."""
    n, dn, a, dk = z3.Int("n!ef"), z3.Int("dn!ef"), z3.Const("a!ef", NAMES), z3.Const("dk!ef", NAMES)
    return [("def:effective-length", z3.ForAll([n, dn], eff_n(n, dn) == z3.If(n == 0, dn, n), patterns=[eff_n(n, dn)])),
            ("def:effective-names", z3.ForAll([n, a, dk], eff_a(n, a, dk) == z3.If(n == 0, dk, a), patterns=[eff_a(n, a, dk)]))]


def ds_consistent(c):
    """The sizes recorded by the formulation agree with the design space (variable_sizes is a copy taken at construction;
    formulations only remove variables afterwards)."""
    d, vs = dsvars(c), vsizes(c)
    k = z3.Const("k!dc", STR)
    return forall_pat([k], z3.Implies(d.member[k], z3.And(vs.member[k], vs.vals[k] == vsize(d.vals[k]))), d.member[k])


def within(s: Seq, mem):
    j = z3.Int("j!wi")
    return z3.ForAll([j], z3.Implies(z3.And(0 <= j, j < s.n), mem[s.a[j]]), patterns=[s.a[j]])


def mask_ranges(r_el, m: Seq, a: Seq, sz, upto):
    """The index array is the concatenation, in the order of m, of the index ranges the names of m have within a:
    for the i-th masking name, found at position j of all names, r[off_m(i) + t] = off_a(j) + t for 0 <= t < size."""
    i, j, p = z3.Int("i!mr"), z3.Int("j!mr"), z3.Int("p!mr")
    return fa_multi([i, j, p], z3.Implies(z3.And(0 <= i, i < upto, 0 <= j, j < a.n, m.a[i] == a.a[j], off(m.a, sz, i) <= p, p < off(m.a, sz, i) + sz[a.a[j]]),
                                          at(r_el, p) == off(a.a, sz, j) + (p - off(m.a, sz, i))), m.a[i], a.a[j], at(r_el, p))


def some_missing(m: Seq, a: Seq):
    i, j = z3.Int("i!sm"), z3.Int("j!sm")
    return z3.Exists([i], z3.And(0 <= i, i < m.n, z3.ForAll([j], z3.Implies(z3.And(0 <= j, j < a.n), m.a[i] != a.a[j]))))


def _mask_inv(c, k):
    m, a = seq_of(c, c.old, "masking_data_names"), all_names(c)
    sz = vsizes(c).vals
    x = c.locals["x_mask"]
    ind = c.locals["indices"]
    i = z3.Int("i!mi")
    return [("min", c.locals["i_masked_min"] == off(m.a, sz, k)), ("max", c.locals["i_masked_max"] == off(m.a, sz, k)),
            ("length", ln(x) == off(m.a, sz, m.n)), ("nonneg", off(m.a, sz, k) >= 0), ("prefix-below", prefix_below(m, sz, k)),
            ("found", z3.ForAll([i], z3.Implies(z3.And(0 <= i, i < k), ind.member[m.a[i]]), patterns=[m.a[i]])),
            ("ranges", mask_ranges(x.obj.elems, m, a, sz, k)), ("in-range", mask_in_range(x.obj.elems, off(m.a, sz, k), off(a.a, sz, a.n)))]


@register
class GetXMask(Contract):
    """Index array = concatenation (in the order of masking_data_names) of the ranges of these names within all_data_names;
    ValueError iff a masking name is not among all names."""

    targets = (BF + ".get_x_mask_x_swap_order",)
    prop = ("C17",)
    numpy = "precise"
    np_c17 = True
    frame_arrays = True
    params = {"masking_data_names": TList(TStr), "all_data_names": TList(TStr)}
    returns = I1
    raises = {"ValueError": lambda c: some_missing(seq_of(c, c.old, "masking_data_names"), all_names(c))}
    loops = {0: LoopSpec(anchor="masking_data_names", inv=_mask_inv, modifies=("x_mask",))}

    def requires(self, c):
        m, a = seq_of(c, c.old, "masking_data_names"), all_names(c)
        return [("all-names-distinct", distinct(a)), ("all-names-have-sizes", sized(a, vsizes(c))),
                ("design-space-sizes-consistent", ds_consistent(c)), ("sizes-positive", _ds_sizes_positive(c)),
                ("masking-names-in-design-space", within(m, dsvars(c).member))]

    def axioms(self, c):
        m, a = seq_of(c, c.old, "masking_data_names"), all_names(c)
        sz = vsizes(c).vals
        return off_axioms() + eff_axioms() + [distinct_inj(a), ("lemma:off-monotone(masking)", off_mono(m, sz)), ("lemma:off-monotone(all)", off_mono(a, sz)),
                                             ("lemma:psum-bridge", psum_bridge(m, sz))]

    def ensures(self, c):
        m, a = seq_of(c, c.old, "masking_data_names"), all_names(c)
        sz = vsizes(c).vals
        return [("length", ln(c.result) == off(m.a, sz, m.n)), ("ranges", mask_ranges(c.result.obj.elems, m, a, sz, m.n)),
                ("in-range", mask_in_range(c.result.obj.elems, off(m.a, sz, m.n), off(a.a, sz, a.n)))]


def _ds_sizes_positive(c):
    d = dsvars(c)
    k = z3.Const("k!sp", STR)
    return forall_pat([k], z3.Implies(d.member[k], vsize(d.vals[k]) >= 1), d.member[k])


def mask_in_range(r_el, upto, total):
    p = z3.Int("p!ir")
    return fa_multi([p], z3.Implies(z3.And(0 <= p, p < upto), z3.And(0 <= at(r_el, p), at(r_el, p) < total)), at(r_el, p))


# ---------------------------------------------------------------------------- get_optim_variable_names / mask_x_swap_order
@register
class GetOptimVariableNames(Contract):
    """The optimisation variables are the variables of the design space, in its order."""

    targets = (BF + ".get_optim_variable_names",)
    prop = ("C17",)
    np_c17 = True
    returns = TList(TStr)

    def ensures(self, c):
        d = dsvars(c)
        # (the model of list(dict) defines the element array as the dict's key enumeration; stated as an array equality so that
        # offsets computed along either sequence are the same terms for the provers)
        return [("length", c.result.n == d.n), ("names", c.result.elems == d.keys)]


def gathered(res_el, x_el, m: Seq, a: Seq, sz):
    """res[off_m(i) + t] = x[off_a(j) + t] for the i-th masking name found at position j of all names."""
    i, j, p = z3.Int("i!ga"), z3.Int("j!ga"), z3.Int("p!ga")
    return fa_multi([i, j, p], z3.Implies(z3.And(0 <= i, i < m.n, 0 <= j, j < a.n, m.a[i] == a.a[j], off(m.a, sz, i) <= p, p < off(m.a, sz, i) + sz[a.a[j]]),
                                          at(res_el, p) == at(x_el, off(a.a, sz, j) + (p - off(m.a, sz, i)))), m.a[i], a.a[j], at(res_el, p))


@register
class MaskXSwapOrder(Contract):
    """Gather: the components of the masking names, in their order, out of a vector laid out along all names."""

    targets = (BF + ".mask_x_swap_order",)
    prop = ("C17",)
    numpy = "precise"
    np_c17 = True
    frame_arrays = True
    params = {"masking_data_names": TList(TStr), "x_vect": F1, "all_data_names": TList(TStr)}
    returns = F1
    raises = {"ValueError": lambda c: some_missing(seq_of(c, c.old, "masking_data_names"), all_names(c))}

    def requires(self, c):
        a = all_names(c)
        return GetXMask.requires(self, c) + [("vector-has-the-full-dimension", ln(c.old.x_vect) == off(a.a, vsizes(c).vals, a.n))]

    def axioms(self, c):
        return GetXMask.axioms(self, c)

    def ensures(self, c):
        m, a = seq_of(c, c.old, "masking_data_names"), all_names(c)
        sz = vsizes(c).vals
        return [("length", ln(c.result) == off(m.a, sz, m.n)), ("gathered", gathered(c.result.obj.elems, c.old.x_vect.obj.elems, m, a, sz)),
                ("fresh-result", z3.BoolVal(c.result.ref.id != c.old.x_vect.ref.id))]
