"""C15 - JSON-schema grammars: the cache-invalidation protocol of ``JSONGrammar`` ("validation reflects the current definition, never a
stale one ... read-only queries never change the grammar").

Abstract view of a JSON grammar:

    grammar --__schema_builder--> builder(props: name -> property schema, has_strategy: a root strategy exists (after the first add_schema /
                                          add_object), req: the builder's OWN required set, has_req: the strategy has one, meta: other root keywords)
            --_required_names--> RequiredNames(__names)      (the required names of the grammar live here, not in the builder)
            --__schema   : cached ``to_schema()`` dictionary ({} = no cache)
            --__validator: cached compiled validator (None = no cache)

The genson-based builder is an abstract object (pyvc/plug_json.py): its ``properties`` / ``required`` views are the live dictionary / set (or a new
empty set when the root strategy tracks no required names: updates of it are lost), ``to_schema()`` / ``add_schema`` / ``add_object`` have ASSUMED contracts.
A schema value is opaque; what it stands for is read through projections (``json_props_names/nodes``, ``json_names_of``), a compiled validator remembers
(ghost) the content of the dictionary it was compiled from.

CACHE VALIDITY (builder part, CVB), the invariant every mutator must re-establish and every query may rely on:
  * ``__schema`` non-empty  => it lists exactly the CURRENT properties of the builder (names and property schemas) and the current other keywords;
  * ``__validator`` not None => it was compiled from a dictionary listing exactly the current properties and other keywords, without "required"/"id";
  * IDLE: outside ``schema``/``to_json`` the builder's own required set is empty.
The required names cannot be part of such an invariant (``grammar.required_names.add/discard`` are public and know nothing of the caches): that the
schema reflects the CURRENT required names is a postcondition of ``schema`` / ``to_json`` (natively confirmed defects there, see finding_regions).
"""
from __future__ import annotations

import z3

from contracts.c15_grammars import DATA, NAMELIST, NAMES, TEither, TMsg, kq, member_fn, same_dict, same_set
from pyvc import contract as C
from pyvc import plug_json as J
from pyvc.contract import Contract, LoopSpec, register, schema
from pyvc.values import PyObj, TBool, TDict, TInt, TObj, TSet, TStr, TVal, val_none

JG, MB, RN = J.JG, J.MB, J.RN
DF = "gemseo.core.grammars.defaults.Defaults"
RNJ, DFJ = RN + "#json", DF + "#json"
lit = J.lit
P_, R_, ID_ = lit("properties"), lit("required"), lit("id")


class TPartJ(TObj):
    """A part of a JSON grammar holding a back-reference to it (typed by a schema variant)."""

    def __init__(self, cls, key, backfield):
        super().__init__(cls, schema_key=key)
        self.backfield = backfield
        self.name = f"PartJ[{key}]"

    def fresh_in(self, st, hint, owner):
        o = PyObj(self.cls, {})
        o.schema_key = self.schema_key
        ref = st.alloc(o)
        for f, t in C.class_schema(self.schema_key).items():
            o.fields[f] = owner if f == self.backfield else t.fresh(st, f"{hint}.{f}")
        return ref

    def fresh(self, st, hint):
        raise J.Unsupported(f"{self} only exists inside its grammar")


class TBack(TObj):
    """The back-reference field itself (filled by TPartJ.fresh_in)."""

    def __init__(self):
        super().__init__(JG)
        self.name = "Back[JSONGrammar]"


schema(MB, {"props": J.PROPS_T, "req": NAMES, "has_req": TBool, "has_strategy": TBool, "meta": J.SCHEMA_T})
schema(RNJ, {"_RequiredNames__names": NAMES, "_RequiredNames__grammar": TBack()})
schema(DFJ, {"_Defaults__data": DATA, "_Defaults__grammar": TBack()})
schema(JG, {
    "name": TStr,
    "_defaults": TPartJ(DF, DFJ, "_Defaults__grammar"),
    "_required_names": TPartJ(RN, RNJ, "_RequiredNames__grammar"),
    "_JSONGrammar__schema_builder": TObj(MB),
    "_JSONGrammar__schema": J.SCHEMA_T,
    "_JSONGrammar__validator": J.VALIDATOR_T,
})

BUILDER = "self._JSONGrammar__schema_builder"


# ---------------------------------------------------------------------------- views
def bld(g):
    return g._JSONGrammar__schema_builder


def props(g):
    return bld(g).props


def meta(g):
    return bld(g).meta


def req(g):
    return g._required_names._RequiredNames__names


def dfl(g):
    return g._defaults._Defaults__data


def cache(g):
    return g._JSONGrammar__schema


def validator(g):
    return g._JSONGrammar__validator


def has_validator(g):
    return z3.Not(validator(g).is_none())


def the_validator(g):
    return J.VALIDATOR_T.dt.get(validator(g).term)


# ---------------------------------------------------------------------------- what a schema dictionary / a validator represents
def lists_properties(member, vals, pr):
    """The dictionary (membership / value arrays) lists exactly the properties ``pr`` under "properties" (absent when there is none)."""
    k = kq("k!lp")
    v = vals[P_]
    return z3.And(member[P_] == (pr.n != 0),
                  z3.Implies(pr.n != 0, z3.And(v != val_none, J.props_count(v) == pr.n)),
                  z3.Implies(pr.n != 0, z3.ForAll([k], z3.And(J.props_names(v)[k] == pr.member[k], z3.Implies(pr.member[k], J.props_nodes(v)[k] == pr.vals[k])))))


def lists_keywords(member, vals, mt, but=()):
    """Every other keyword is the one of the builder's root node (``but``: keywords that must be absent)."""
    k = kq("k!lk")
    other = z3.And(k != P_, k != R_, *[k != b for b in but])
    return z3.And(z3.ForAll([k], z3.Implies(other, z3.And(member[k] == mt.member[k], z3.Implies(mt.member[k], vals[k] == mt.vals[k])))),
                  *[z3.Not(member[b]) for b in but])


def lists_required(member, vals, names):
    """The dictionary lists exactly ``names`` under "required" (absent when there is none)."""
    k = kq("k!lr")
    return z3.And(member[R_] == (names.n != 0), z3.Implies(names.n != 0, z3.ForAll([k], J.names_of(vals[R_])[k] == names.member[k])))


def schema_reflects_builder(s, g):
    return z3.And(lists_properties(s.member, s.vals, props(g)), lists_keywords(s.member, s.vals, meta(g)))


def validator_reflects_builder(w, g):
    m, v = J.src_member(w), J.src_vals(w)
    return z3.And(lists_properties(m, v, props(g)), lists_keywords(m, v, meta(g), but=(ID_,)), z3.Not(m[R_]))


def idle(g):
    """Outside schema/to_json the builder's own required set is empty."""
    return bld(g).req.n == 0


def cvb(g):
    """Cache validity, builder part."""
    return [("cache:schema-reflects-the-current-builder", z3.Implies(cache(g).n != 0, schema_reflects_builder(cache(g), g))),
            ("cache:validator-compiled-from-the-current-builder", z3.Implies(has_validator(g), validator_reflects_builder(the_validator(g), g))),
            ("cache:required-keyword-lists-at-least-one-name", z3.Implies(z3.And(cache(g).n != 0, cache(g).has(R_)), J.names_of(cache(g).get(R_))[req_witness(cache(g).get(R_))])),
            ("builder:own-required-set-is-empty", idle(g))]


# (Skolem function: a name listed by a "required" keyword value - genson only emits the keyword for a non-empty set)
req_witness = J.required_witness


def wfg_required(g):
    """BaseGrammar's representation invariant (WFG, verified for the template methods in c15_grammars): the required names are elements."""
    k = kq("k!wfr")
    return [("wfg:required-names-are-elements", z3.ForAll([k], z3.Implies(req(g).member[k], props(g).member[k])))]


def meta_wf(g):
    b = bld(g)
    return _meta_wf(meta(g)) + [
        ("builder:required-set-only-with-a-root-strategy", z3.Implies(b.has_req, b.has_strategy)),
        ("builder:no-property-without-a-root-strategy", z3.Implies(z3.Not(b.has_strategy), props(g).n == 0))]


def _meta_wf(m):
    # ("id" / "name": _MergeStrategy.KEYWORDS declares them as handled keywords, genson therefore never re-emits them - natively confirmed)
    return [("builder:keywords-exclude-properties-required-id", z3.And(z3.Not(m.has(P_)), z3.Not(m.has(R_)), z3.Not(m.has(ID_)))),
            ("builder:has-a-$schema-keyword", m.has(lit("$schema")))]  # (genson: the root schema always carries its URI - default URI of a new builder)


def definition_kept(g0, g1, props_too=True, meta_too=True):
    """The definition of the grammar (elements, other keywords, required names, defaults, name) is unchanged."""
    out = []
    if props_too:
        out.append(("kept:properties", same_dict(props(g1), props(g0))))
    if meta_too:
        out.append(("kept:keywords", same_dict(meta(g1), meta(g0))))
    out += [("kept:builder-strategy", z3.And(bld(g1).has_strategy == bld(g0).has_strategy, z3.Implies(bld(g0).has_req, bld(g1).has_req))),
            ("kept:required-names", same_set(req(g1), req(g0))),
            ("kept:defaults", same_dict(dfl(g1), dfl(g0))),
            ("kept:name", g1.name == g0.name),
            ("kept:parts", z3.BoolVal(g1._defaults.ref == g0._defaults.ref and g1._required_names.ref == g0._required_names.ref and bld(g1).ref == bld(g0).ref))]
    return out


def caches_kept(g0, g1):
    return [("kept:cached-schema", same_dict(cache(g1), cache(g0))), ("kept:cached-validator", validator(g1).term == validator(g0).term)]


def size_fact(d):
    """A theorem about any dict (not a restriction): its size is at least the number of the distinguished keywords it holds - the dict model of pyvc only
    relates the size to "some key is present"."""
    return ("model:size-of-the-cached-schema-counts-its-keywords", d.n >= z3.Sum(*[z3.If(d.has(lit(x)), 1, 0) for x in ("properties", "required", "id", "$schema")]))


class _JG(Contract):
    prop = ("C15",)

    def requires(self, c):
        return cvb(c.old.self) + meta_wf(c.old.self) + [size_fact(cache(c.old.self))]


def with_cvb(cls):
    """A mutator re-establishes the cache validity (stated first: these are the clauses of the property)."""
    orig = cls.ensures

    def ensures(self, c):
        return cvb(c.new.self) + meta_wf(c.new.self) + orig(self, c)

    cls.ensures = ensures
    return cls


# ---------------------------------------------------------------------------- the reset
@register
class InitDependencies(_JG):
    """Both caches are dropped; nothing else changes."""

    targets = (JG + ".__init_dependencies",)
    modifies = ("self",)

    def requires(self, c):
        return []

    def ensures(self, c):
        g0, g1 = c.old.self, c.new.self
        return [("no-cached-schema", cache(g1).n == 0), ("no-cached-validator", validator(g1).is_none())] + definition_kept(g0, g1)


# ---------------------------------------------------------------------------- element-level mutators
def removed(d1, d0, gone):
    k = kq("k!rm")
    return z3.And(z3.ForAll([k], d1.has(k) == z3.And(d0.has(k), z3.Not(gone(k)))), z3.ForAll([k], z3.Implies(d1.has(k), d1.get(k) == d0.get(k))))


@register
@with_cvb
class Delitem(_JG):
    """The element disappears from the builder; no cache survives that still shows it."""

    targets = (JG + "._delitem",)
    params = {"name": TStr}
    modifies = ("self", BUILDER)
    raises = {"KeyError": lambda c: z3.Not(props(c.old.self).has(c.old.name))}

    def ensures(self, c):
        g0, g1 = c.old.self, c.new.self
        return [("element-removed", removed(props(g1), props(g0), lambda k: k == c.old.name)),
                ("size", props(g1).n == props(g0).n - 1)] + definition_kept(g0, g1, props_too=False)


@register
@with_cvb
class RenameElement(_JG):
    targets = (JG + "._rename_element",)
    params = {"current_name": TStr, "new_name": TStr}
    modifies = ("self", BUILDER)
    raises = {"KeyError": lambda c: z3.Not(props(c.old.self).has(c.old.current_name))}

    def ensures(self, c):
        g0, g1 = c.old.self, c.new.self
        p0, p1 = props(g0), props(g1)
        a, b = c.old.current_name, c.old.new_name
        k = kq()
        return [("names", z3.ForAll([k], p1.has(k) == z3.Or(z3.And(p0.has(k), k != a), k == b))),
                ("schema-moved", p1.get(b) == p0.get(a)),
                ("others-kept", z3.ForAll([k], z3.Implies(z3.And(p0.has(k), k != a, k != b), p1.get(k) == p0.get(k))))] + definition_kept(g0, g1, props_too=False)


@register
@with_cvb
class Clear(_JG):
    """A new empty builder; no cache survives."""

    targets = (JG + "._clear",)
    modifies = ("self",)

    def requires(self, c):
        return []

    def ensures(self, c):
        g0, g1 = c.old.self, c.new.self
        return [("no-element", props(g1).n == 0), ("builder-tracks-no-required-names", z3.And(z3.Not(bld(g1).has_req), z3.Not(bld(g1).has_strategy))),
                ("new-builder", z3.BoolVal(bld(g1).ref != bld(g0).ref)),
                ("kept:required-names", same_set(req(g1), req(g0))), ("kept:defaults", same_dict(dfl(g1), dfl(g0))), ("kept:name", g1.name == g0.name)]


def _restrict_inv(c, k):
    g0, g = c.old.self, c.new.self
    pos = c.seq.pos
    gone = lambda y: z3.And(z3.Not(member_fn(c.old.names)(y)), pos[y] < k)  # noqa: E731
    return [("elements", removed(props(g), props(g0), gone))] + definition_kept(g0, g, props_too=False) + caches_kept(g0, g) + [("builder-idle", idle(g))]


@register
@with_cvb
class RestrictTo(_JG):
    """Only the given names remain, with their property schemas."""

    targets = (JG + "._restrict_to",)
    params = {"names": NAMELIST}
    modifies = ("self", BUILDER)
    loops = {0: LoopSpec(anchor="self.__schema_builder.keys() - names", modifies=(BUILDER + ".props",), inv=_restrict_inv)}

    def ensures(self, c):
        g0, g1 = c.old.self, c.new.self
        return [("elements", removed(props(g1), props(g0), lambda k: z3.Not(member_fn(c.old.names)(k))))] + definition_kept(g0, g1, props_too=False)


# ---------------------------------------------------------------------------- queries filling the caches
@register
class Schema(_JG):
    """The dictionary of the CURRENT definition: current properties and keywords (from CVB) and the current required names; the definition is not changed
    and the caches stay valid."""

    targets = (JG + ".schema",)
    returns = J.SCHEMA_T
    modifies = ("self", BUILDER)  # (the builder: `required` attaches an empty set to a strategy that has none - 63aba35)
    inline_ok = True  # returns the cached dictionary ITSELF: callers inline it, so that an in-place edit of the result is an edit of the cache

    def requires(self, c):
        return _JG.requires(self, c) + wfg_required(c.old.self)

    def ensures(self, c):
        g0, g1, r = c.old.self, c.new.self, c.result
        return cvb(g1) + meta_wf(g1) + [
            ("result:is-the-cached-dictionary", same_dict(r, cache(g1))),
            ("result:reflects-the-current-builder", schema_reflects_builder(r, g1)),
            ("kept:cached-validator", validator(g1).term == validator(g0).term),
        ] + definition_kept(g0, g1) + [
            # (was a known finding until e774076 / 63aba35: stale cache after required_names.add/discard; lost synchronisation)
            ("result:lists-the-current-required-names", lists_required(r.member, r.vals, req(g0))),
        ]


@register
class CreateValidator(_JG):
    """A validator compiled from the CURRENT definition; the definition is not changed and the cached schema stays the one of the definition."""

    targets = (JG + "._create_validator",)
    modifies = ("self", BUILDER)

    def requires(self, c):
        return _JG.requires(self, c) + wfg_required(c.old.self)

    def ensures(self, c):
        g0, g1 = c.old.self, c.new.self
        s1 = cache(g1)
        return [
            ("validator-created", has_validator(g1)),
            ("cache:validator-compiled-from-the-current-builder", validator_reflects_builder(the_validator(g1), g1)),
            ("builder:own-required-set-is-empty", idle(g1)),
        ] + meta_wf(g1) + definition_kept(g0, g1) + [
            ("cache:schema-reflects-the-current-builder", z3.Implies(s1.n != 0, schema_reflects_builder(s1, g1))),
            # (was a known finding until 0717736: the pops edited the cached dictionary itself)
            ("cache:schema-still-lists-the-required-names", z3.Implies(s1.n != 0, lists_required(s1.member, s1.vals, req(g0)))),
            ("cache:required-keyword-lists-at-least-one-name", dict(cvb(g1))["cache:required-keyword-lists-at-least-one-name"]),
        ]


# ---------------------------------------------------------------------------- ASSUMED contracts of the genson builder (json_schema.py / genson)
class _MBC(Contract):
    prop = ("C15",)
    trusted = True
    modifies = ("self",)


def _source(src):
    """(has properties, property names, property schemas, has required, required names) of the argument of add_schema: a dictionary or another builder."""
    if isinstance(src.obj, PyObj):
        return src.props.n != 0, src.props.member, src.props.vals, z3.And(src.has_req, src.req.n != 0), src.req.member, src.props.n
    pv, rv = src.get(P_), src.get(R_)
    return src.has(P_), J.props_names(pv), J.props_nodes(pv), src.has(R_), J.names_of(rv), J.props_count(pv)


def _merged_props(p0, p1, taken, node, update):
    """p1 = p0 plus the names ``taken`` with the schemas ``node`` (replaced when ``update``, else genson-merged with an existing one)."""
    k = kq("k!mp")
    new = z3.If(z3.And(p0.has(k), z3.Not(update)), J.merged_node(p0.get(k), node(k)), node(k))
    return [("assumed:names", z3.ForAll([k], p1.has(k) == z3.Or(p0.has(k), taken(k)))),
            ("assumed:new-schemas", z3.ForAll([k], z3.Implies(taken(k), p1.get(k) == new))),
            ("assumed:others-kept", z3.ForAll([k], z3.Implies(z3.And(p0.has(k), z3.Not(taken(k))), p1.get(k) == p0.get(k)))),
            ("assumed:size", z3.And(p1.n >= p0.n, z3.Implies(z3.Exists([k], taken(k)), p1.n >= 1)))]


@register
class AddSchema(_MBC):
    targets = (MB + ".add_schema",)
    params = {"schema": TEither(J.SCHEMA_T, TObj(MB)), "update": TBool}
    description = ("assumed (genson Object strategy + gemseo _MergeStrategy): the properties of the schema (a dict, or the to_schema() of a builder) are added - "
                   "replacing (update) or merged with (not update) an existing one -, the others are kept; the builder's own required set becomes the schema's one if it "
                   "tracked none, else is INTERSECTED with it (unchanged when the schema lists none); other root keywords may change, never 'properties'/'required'/'id'; "
                   "a builder added to a NEW builder (no root strategy) gives it its own root keywords")

    def ensures(self, c):
        b0, b1 = c.old.self, c.new.self
        has_p, pn, pv, has_r, rn, count = _source(c.old.schema)
        k = kq("k!as")
        return _merged_props(b0.props, b1.props, lambda x: z3.And(has_p, pn[x]), lambda x: pv[x], c.old.update) + [
            ("assumed:size-into-an-empty-builder", z3.Implies(b0.props.n == 0, b1.props.n == z3.If(has_p, count, 0))),
            ("assumed:tracks-required", b1.has_req == z3.Or(b0.has_req, has_r)),
            ("assumed:root-strategy", z3.And(z3.Implies(b0.has_strategy, b1.has_strategy), z3.Implies(b1.has_req, b1.has_strategy), z3.Implies(z3.Not(b1.has_strategy), b1.props.n == 0))),
            ("assumed:own-required", z3.ForAll([k], b1.req.member[k] == z3.If(has_r, z3.If(b0.has_req, z3.And(b0.req.member[k], rn[k]), rn[k]), b0.req.member[k]))),
            ("assumed:own-required-size", z3.Implies(z3.Or(z3.Not(has_r), z3.And(b0.has_req, b0.req.n == 0)), b1.req.n == z3.If(has_r, 0, b0.req.n))),
            ("assumed:keywords", z3.And(*[f for _, f in _meta_wf(b1.meta)]))] + self._into_empty(c)

    def _into_empty(self, c):
        # a builder copied into a NEW builder (no root strategy yet) reproduces its root keywords (natively checked: JSONGrammar.copy())
        src = c.old.schema
        if not isinstance(src.obj, PyObj):
            return []
        return [("assumed:keywords-of-the-source-into-a-new-builder", z3.Implies(z3.Not(c.old.self.has_strategy), same_dict(c.new.self.meta, src.meta)))]


@register
class AddObject(_MBC):
    targets = (MB + ".add_object",)
    params = {"obj": TEither(DATA, DATA), "update": TBool}
    description = ("assumed (genson): every key of the object becomes a property (schema inferred from the value; replaced or merged), the others are kept; the builder's "
                   "own required set becomes the object's keys if it tracked none, else is intersected with them; other root keywords may change")

    def ensures(self, c):
        b0, b1 = c.old.self, c.new.self
        o = c.old.obj
        k = kq("k!ao")
        node = z3.Function("json_node_of_" + str(o.obj.v.sort()).replace(" ", "_"), o.obj.v.sort(), J.ValS)
        return _merged_props(b0.props, b1.props, lambda x: o.has(x), lambda x: node(o.get(x)), c.old.update) + [
            ("assumed:tracks-required", z3.And(b1.has_req, b1.has_strategy)),
            ("assumed:own-required", z3.ForAll([k], b1.req.member[k] == z3.If(b0.has_req, z3.And(b0.req.member[k], o.has(k)), o.has(k)))),
            ("assumed:own-required-size", z3.Implies(z3.And(b0.has_req, b0.req.n == 0), b1.req.n == 0)),
            ("assumed:keywords", z3.And(*[f for _, f in _meta_wf(b1.meta)]))]


@register
class CastDataMapping(Contract):
    targets = (JG + ".__cast_data_mapping",)
    prop = ("C15",)
    params = {"data": DATA}
    returns = DATA
    trusted = True
    description = "assumed (recursive isinstance dispatch): a new dictionary with the same keys whose values are cast to JSON-interpretable objects (complex->real, ndarray->list, Path->str ...); read-only"

    def ensures(self, c):
        k = kq("k!cd")
        r, d = c.result, c.old.data
        return [("keys", z3.And(r.n == d.n, z3.ForAll([k], r.has(k) == d.has(k)))), ("values", z3.ForAll([k], z3.Implies(d.has(k), r.get(k) == json_cast(d.get(k)))))]


json_cast = z3.Function("json_cast_value", J.ValS, J.ValS)


# ---------------------------------------------------------------------------- updates
def added(p1, p0, taken, node=None, merge=None):
    k = kq("k!ad")
    out = [("names", z3.ForAll([k], p1.has(k) == z3.Or(p0.has(k), taken(k)))),
           ("others-kept", z3.ForAll([k], z3.Implies(z3.And(p0.has(k), z3.Not(taken(k))), p1.get(k) == p0.get(k))))]
    if node is not None:
        # replaced, or (merge) genson-merged with the existing property schema
        out.append(("new-schemas:replaced-or-merged", z3.ForAll([k], z3.Implies(taken(k), p1.get(k) == z3.If(z3.And(p0.has(k), merge), J.merged_node(p0.get(k), node(k)), node(k))))))
    return out


def parts_kept(g0, g1):
    return [("kept:required-names", same_set(req(g1), req(g0))), ("kept:defaults", same_dict(dfl(g1), dfl(g0))), ("kept:name", g1.name == g0.name),
            ("kept:parts", z3.BoolVal(g1._defaults.ref == g0._defaults.ref and g1._required_names.ref == g0._required_names.ref and bld(g1).ref == bld(g0).ref))]


def _from_names_inv(c, k):
    g0, g = c.old.self, c.new.self
    pos = c.seq.pos
    done = lambda y: z3.And(member_fn(c.old.names)(y), pos[y] < k)  # noqa: E731
    return added(props(g), props(g0), done) + parts_kept(g0, g) + caches_kept(g0, g) + meta_wf(g) + [
        ("builder-tracks-required-after-the-first-object", bld(g).has_req == z3.Or(bld(g0).has_req, k >= 1)),
        ("own-required-empty-until-the-first-object", z3.Or(k >= 1, bld(g).req.n == 0))]


@register
@with_cvb
class UpdateFromNames(_JG):
    """Every given name becomes (or stays) an element; the others are untouched; no cache survives."""

    targets = (JG + "._update_from_names",)
    params = {"names": NAMELIST, "merge": TBool}
    modifies = ("self", BUILDER)
    loops = {0: LoopSpec(anchor="names", modifies=(BUILDER,), inv=_from_names_inv)}

    def ensures(self, c):
        g0, g1 = c.old.self, c.new.self
        return added(props(g1), props(g0), member_fn(c.old.names)) + parts_kept(g0, g1)


@register
@with_cvb
class UpdateFromData(_JG):
    targets = (JG + "._update_from_data",)
    params = {"data": DATA, "merge": TBool}
    modifies = ("self", BUILDER)

    def ensures(self, c):
        g0, g1 = c.old.self, c.new.self
        return added(props(g1), props(g0), lambda k: c.old.data.has(k)) + parts_kept(g0, g1) + [("data-not-modified", same_dict(c.new.data, c.old.data))]


def _schema_props(s):
    return lambda k: z3.And(s.has(P_), J.props_names(s.get(P_))[k])


def _schema_required(s):
    return lambda k: z3.And(s.has(R_), J.names_of(s.get(R_))[k])


@register
@with_cvb
class UpdateFromSchema(_JG):
    """The properties of the schema become elements, its required names become required (they must be elements); no cache survives."""

    targets = (JG + ".update_from_schema",)
    params = {"schema": J.SCHEMA_T, "merge": TBool}
    modifies = ("self", BUILDER, "self._required_names")
    raises = {"KeyError": None}

    def ensures(self, c):
        g0, g1, s = c.old.self, c.new.self, c.old.schema
        k = kq()
        r0, r1 = req(g0), req(g1)
        return added(props(g1), props(g0), _schema_props(s), lambda x: J.props_nodes(s.get(P_))[x], c.old.merge) + [
            ("kept:defaults", same_dict(dfl(g1), dfl(g0))), ("kept:name", g1.name == g0.name),
            ("required:old-ones-kept", z3.ForAll([k], z3.Implies(r0.member[k], r1.member[k]))),
            ("required:only-those-of-the-schema-added", z3.ForAll([k], z3.Implies(r1.member[k], z3.Or(r0.member[k], _schema_required(s)(k))))),
            ("required:are-elements", z3.ForAll([k], z3.Implies(z3.And(r1.member[k], z3.Not(r0.member[k])), props(g1).has(k)))),
            # (was a known finding until 02afd7d: genson intersects with the builder's own - cleared - required set)
            ("required:those-of-the-schema-added", z3.ForAll([k], z3.Implies(_schema_required(s)(k), r1.member[k]))),
        ]


@register
@with_cvb
class UpdateFromTypesOrGrammar(_JG):
    """Elements of another JSON grammar, except the excluded names; the other grammar is not changed; no cache survives."""

    targets = (JG + "._update",)
    params = {"grammar": TObj(JG), "excluded_names": NAMES, "merge": TBool}
    modifies = ("self", BUILDER)
    loops = {0: LoopSpec(anchor="excluded_names", modifies=("schema_builder.props",), inv=lambda c, k: _update_inv(c, k))}

    def requires(self, c):
        return cvb(c.old.self) + meta_wf(c.old.self) + [(f"other:{l}", f) for l, f in cvb(c.old.grammar) + meta_wf(c.old.grammar)]

    def ensures(self, c):
        g0, g1, o = c.old.self, c.new.self, c.old.grammar
        ex = c.old.excluded_names
        return added(props(g1), props(g0), lambda k: z3.And(props(o).has(k), z3.Not(ex.member[k]))) + parts_kept(g0, g1) + \
            [(f"other:{l}", f) for l, f in definition_kept(o, c.new.grammar) + caches_kept(o, c.new.grammar)]


def _update_inv(c, k):
    sb = c.locals["schema_builder"]
    o = c.old.grammar
    pos = c.seq.pos
    gone = lambda y: z3.And(c.old.excluded_names.member[y], pos[y] < k)  # noqa: E731
    return [("copy:properties", removed(sb.props, props(o), gone)),
            ("copy:is-a-copy", z3.BoolVal(sb.ref != bld(o).ref and sb.props.ref != props(o).ref)),
            ("copy:own-required", z3.And(sb.has_req == bld(o).has_req, sb.has_strategy == bld(o).has_strategy, sb.req.n == bld(o).req.n)),
            ("copy:keywords", same_dict(sb.meta, meta(o)))]


# ---------------------------------------------------------------------------- validation
@register
class Validate(_JG):
    """The verdict is the one of a validator compiled from the CURRENT definition; the definition is not changed."""

    targets = (JG + "._validate",)
    params = {"data": DATA, "error_message": TMsg()}
    returns = TBool
    modifies = ("self", BUILDER)

    def requires(self, c):
        return _JG.requires(self, c) + wfg_required(c.old.self)

    def ensures(self, c):
        g0, g1 = c.old.self, c.new.self
        w = the_validator(g1)
        cast = z3.Const("cast!v", DATA.sort())
        k = kq("k!va")
        d = c.old.data
        m, v = DATA.acc(0)(cast), DATA.acc(1)(cast)
        is_cast = z3.And(z3.ForAll([k], m[k] == d.has(k)), z3.ForAll([k], z3.Implies(d.has(k), v[k] == json_cast(d.get(k)))))
        return [("validator-exists", has_validator(g1)),
                ("validator-compiled-from-the-current-builder", validator_reflects_builder(w, g1)),
                ("verdict:of-that-validator-on-the-cast-data", z3.Exists([cast], z3.And(is_cast, c.result == J.json_accepts(w, cast)))),
                ("builder:own-required-set-is-empty", idle(g1)),
                ("data-not-modified", same_dict(c.new.data, c.old.data))] + meta_wf(g1) + definition_kept(g0, g1)


# ---------------------------------------------------------------------------- read-only element access
@register
class Getitem(_JG):
    targets = (JG + ".__getitem__",)
    params = {"name": TStr}
    returns = TVal
    raises = {"KeyError": lambda c: z3.Not(props(c.old.self).has(c.old.name))}

    def ensures(self, c):
        return [("value", c.result == props(c.old.self).get(c.old.name))]


@register
class Len(_JG):
    targets = (JG + ".__len__",)
    returns = TInt

    def ensures(self, c):
        return [("value", c.result == props(c.old.self).n)]


@register
class ToJson(_JG):
    """Read-only: the definition and the caches are unchanged and the builder's own required set is empty again afterwards."""

    targets = (JG + ".to_json",)
    returns = TStr
    modifies = ("self", BUILDER)

    def requires(self, c):
        return _JG.requires(self, c) + wfg_required(c.old.self)

    def ensures(self, c):
        g0, g1 = c.old.self, c.new.self
        return cvb(g1) + meta_wf(g1) + definition_kept(g0, g1) + caches_kept(g0, g1)


def _all_types_known(c):
    k = kq("k!atk")
    t = c.old.names_to_types
    return z3.ForAll([k], z3.Implies(t.has(k), z3.Or(t.get(k) == val_none, J.json_known_type(t.get(k)))))


@register
@with_cvb
class UpdateFromTypes(_JG):
    """Every given name becomes (or stays) an element (KeyError for a type JSON cannot express, nothing changed then); the others are untouched; no cache survives."""

    targets = (JG + "._update_from_types",)
    params = {"names_to_types": TDict(TStr, TVal), "merge": TBool}
    modifies = ("self", BUILDER)
    raises = {"KeyError": lambda c: z3.Not(_all_types_known(c))}

    def ensures(self, c):
        g0, g1 = c.old.self, c.new.self
        t = c.old.names_to_types
        k = kq("k!uft")
        return added(props(g1), props(g0), lambda x: t.has(x)) + parts_kept(g0, g1) + [
            ("new-schemas:of-the-types-when-replacing", z3.ForAll([k], z3.Implies(z3.And(t.has(k), z3.Not(c.old.merge)), props(g1).get(k) == J.json_node_of_type(t.get(k)))))]

    def raise_ensures(self, c, exc):
        g0, g1 = c.old.self, c.new.self
        return [("unchanged:properties", same_dict(props(g1), props(g0)))] + caches_kept(g0, g1)


# ---------------------------------------------------------------------------- the two live views of the builder, on the genson representation
# The abstract builder model (pyvc/plug_json.py) reads `builder.properties` / `builder.required` as the LIVE containers of the root strategy.  The two
# properties are verified here against that reading on the representation they really use: builder._root_node._active_strategies[0]._properties/_required
# (no strategy: the list is empty; `_required` is None until genson sees a "required" keyword / an object).
GN, GS = "genson.schema.node.SchemaNode", "genson.schema.strategies.object.Object"
MBG = MB + "#genson"


class TStrategies(J.T):
    """``_active_strategies``: no strategy, or the root Object strategy."""

    name = "Strategies"

    def fresh_in(self, st, hint, owner):
        # (the strategy object is also reachable through the ghost field `_ghost_root` of the node, so that a frame can name it)
        root = st.heap[owner.id].fields["_ghost_root"]
        return () if st.choose(2) == 0 else (root,)

    def fresh(self, st, hint):
        raise J.Unsupported("only inside a schema node")


class TOptNames(J.T):
    """``_required``: None or a set of names."""

    name = "OptNames"

    def fresh(self, st, hint):
        return None if st.choose(2) == 0 else NAMES.fresh(st, hint)


schema(GS, {"_properties": J.PROPS_T, "_required": TOptNames()})
schema(GN, {"_ghost_root": TObj(GS), "_active_strategies": TStrategies()})
schema(MBG, {"_root_node": TObj(GN)})


def _strategy(c, new=False):
    heap = c._new_heap if new else c._old_heap
    node = heap[heap[c.arg("self").id].fields["_root_node"].id]
    ss = node.fields["_active_strategies"]
    return heap[ss[0].id] if ss else None


class _Live(Contract):
    prop = ("C15",)
    variant = "genson"  # (call sites use the abstract model, which is this contract read on (has_strategy, has_req, req, props))
    self_schema = MBG


@register
class BuilderRequired(_Live):
    """The set ATTACHED to the root strategy (an empty one is attached when there was none: an update of the returned set is never lost);
    a new empty set only when there is no strategy at all."""

    targets = (MB + ".required",)
    returns = NAMES
    modifies = ("self._root_node._ghost_root",)  # the root strategy (only its `_required` may change, see the clauses)

    def ensures(self, c):
        s0, s1 = _strategy(c), _strategy(c, new=True)
        r = c.result
        if s0 is None:
            return [("no-strategy:new-empty-set", r.n == 0)]
        had = s0.fields["_required"]
        now = s1.fields["_required"]
        out = [("attached:the-result-is-the-set-of-the-strategy", z3.BoolVal(now is not None and r.ref == now)),
               ("properties-untouched", z3.BoolVal(s1.fields["_properties"] == s0.fields["_properties"]))]
        if had is None:
            out.append(("attached:empty-when-there-was-none", r.n == 0))
        else:
            out.append(("attached:the-same-set-as-before", z3.BoolVal(now == had)))
        return out


@register
class BuilderProperties(_Live):
    """The dictionary of the root strategy itself; a new empty dictionary when there is no strategy."""

    targets = (MB + ".properties",)
    returns = J.PROPS_T

    def ensures(self, c):
        s0, s1 = _strategy(c), _strategy(c, new=True)
        r = c.result
        if s0 is None:
            return [("no-strategy:new-empty-dict", r.n == 0)]
        return [("live:the-result-is-the-dict-of-the-strategy", z3.BoolVal(r.ref == s1.fields["_properties"] and s1.fields["_properties"] == s0.fields["_properties"]))]


# ============================================================================ conversion to a SimpleGrammar ("JSON-schema and simple grammars agree on the definitions both can express")
from contracts import c15_grammars as G  # noqa: E402

SG, BG = G.SG, G.BG
NTT = G.NTT

# the Python type a property schema converts to (JSONGrammar._get_names_to_types): JSON_TO_PYTHON_TYPES[node["type"]] when the property has ONE type keyword
# that the table knows, else None (= any type)
node_has_type, node_type, type_is_hashable, j2p_known, j2p = J.node_has_type, J.node_type, J.type_is_hashable, J.j2p_known, J.j2p


def py_type_of(node):
    t = node_type(node)
    return z3.If(z3.And(node_has_type(node), type_is_hashable(t), j2p_known(t)), j2p(t), val_none)


def some_property(p, pred):
    k = kq("k!sp")
    return z3.Exists([k], z3.And(p.has(k), pred(p.get(k))))


def table_facts():
    """The values of JSON_TO_PYTHON_TYPES are class objects (hence valid element types of a simple grammar)."""
    v = z3.Const("v!j2p", J.ValS)
    return [("table:values-are-types", z3.ForAll([v], z3.Implies(j2p_known(v), z3.And(G.is_type(j2p(v)), j2p(v) != val_none)), patterns=[j2p(v)]))]


def wfg_json(g):
    """BaseGrammar's representation invariant on a JSON grammar (elements = the builder's properties)."""
    k = kq("k!wfj")
    return wfg_required(g) + [("wfg:defaults-are-elements", z3.ForAll([k], z3.Implies(dfl(g).member[k], props(g).member[k]))),
                              ("wfg:name-is-not-empty", G._nonempty(g.name))]


@register
class GetNamesToTypes(_JG):
    """names -> Python types of the CURRENT properties: the type the table gives for the property's single type keyword, None when it has none / several /
    an unknown one; the definition is not changed."""

    targets = (JG + "._get_names_to_types",)
    returns = NTT
    modifies = ("self", BUILDER)
    loops = {0: LoopSpec(anchor="properties.items()", inv=lambda c, k: _gntt_inv(c, k), modifies=("names_to_types",), local_types={"names_to_types": NTT})}

    def requires(self, c):
        return _JG.requires(self, c) + wfg_required(c.old.self)

    # TOTAL (no `raises`): since 4723ed2 a property without type keyword or with several types converts to None; any exception is a failed obligation.

    def ensures(self, c):
        g0, g1, r = c.old.self, c.new.self, c.result
        k = kq("k!gntt")
        return [("names:the-current-elements", z3.ForAll([k], r.has(k) == props(g0).has(k))),
                ("types:from-the-table", z3.ForAll([k], z3.Implies(props(g0).has(k), r.get(k) == py_type_of(props(g0).get(k))))),
                ("size", r.n == props(g0).n),
                ("new-dictionary", z3.BoolVal(r.ref != props(g1).ref))] + cvb(g1) + meta_wf(g1) + definition_kept(g0, g1)


def _gntt_inv(c, k):
    g0 = c.old.self
    r = c.locals["names_to_types"]
    x = kq("k!gi")
    pos = c.seq.pos
    return [("names", z3.ForAll([x], r.has(x) == z3.And(props(g0).has(x), pos[x] < k))),
            ("types", z3.ForAll([x], z3.Implies(r.has(x), r.get(x) == py_type_of(props(g0).get(x))))),
            ("size", r.n == k)]


@register
class SimpleToSimple(Contract):
    targets = (SG + ".to_simple_grammar",)
    prop = ("C15",)
    returns = TObj(SG)
    inline_ok = True  # (`return self`: callers inline it - a summary could only return a NEW object)

    def ensures(self, c):
        return [("itself", z3.BoolVal(c.result.ref == c.arg("self")))]


@register
class ToSimpleJson(Contract):
    """The result is a NEW, well-formed SimpleGrammar (its Defaults and RequiredNames are bound to IT and refer to its own elements) with the same element names,
    the types of the conversion table, the same required names and the same default VALUES (own dictionary); the JSON grammar is not changed."""

    targets = (BG + ".to_simple_grammar",)
    variant = "json"
    prop = ("C15",)
    self_class = JG
    returns = TObj(SG)
    modifies = ("self", BUILDER)
    # (total: no `raises`)

    def requires(self, c):
        g = c.old.self
        return cvb(g) + meta_wf(g) + [size_fact(cache(g))] + wfg_json(g) + G.type_facts() + table_facts()

    def ensures(self, c):
        g0, g1, r = c.old.self, c.new.self, c.result
        k = kq("k!tsj")
        t = G.ntt(r)
        return G.wfg(r) + [
            ("same-names", z3.ForAll([k], t.has(k) == props(g0).has(k))),
            ("types:from-the-table", z3.ForAll([k], z3.Implies(t.has(k), t.get(k) == G.stored_type(py_type_of(props(g0).get(k)))))),
            # (membership only: the set model does not relate the size of `set() | s` to the size of s)
            ("same-required-names", z3.ForAll([k], G.req(r).member[k] == req(g0).member[k])),
            ("same-defaults", same_dict(G.dfl(r), dfl(g0))),
            ("same-name", r.name == g0.name),
            ("independent:defaults", z3.BoolVal(r._defaults.ref != g0._defaults.ref and r._defaults._Defaults__data.ref != g0._defaults._Defaults__data.ref)),
            ("independent:required-names", z3.BoolVal(r._required_names.ref != g0._required_names.ref and
                                                      r._required_names._RequiredNames__names.ref != g0._required_names._RequiredNames__names.ref)),
            ("no-namespace", z3.And(r.to_namespaced.n == 0, r.from_namespaced.n == 0)),
        ] + [(f"source:{l}", f) for l, f in cvb(g1) + meta_wf(g1) + definition_kept(g0, g1)]


class _Logging(Contract):
    prop = ("C15",)
    trusted = True
    description = "assumed: only logs a warning about a feature the conversion to SimpleGrammar ignores (logging is dropped by the extraction); reads the property schema"


@register
class WarnForArray(_Logging):
    targets = (JG + ".__warn_for_array",)
    params = {"property_name": TStr, "property_json_type": TVal, "property_description": TVal}


@register
class WarnForItems(_Logging):
    targets = (JG + ".__warn_for_items",)
    params = {"property_name": TStr, "property_description": TVal}


@register
class DefaultsCopyAlias(G.DFCopy):
    targets = (G.DF + ".copy",)


def _tables():
    """The two conversion tables, read from the REAL class body (dict displays of string constants / type names)."""
    import ast

    from pyvc import source as S

    ci = S.load_class(JG)
    out = []
    for name in ("_JSONGrammar__JSON_TO_PYTHON_TYPES", "_JSONGrammar__PYTHON_TO_JSON_TYPES"):
        e = ci.class_attrs.get(name) if ci else None
        if not isinstance(e, ast.Dict):
            return None
        conv = lambda x: x.value if isinstance(x, ast.Constant) and isinstance(x.value, str) else (("type", x.id) if isinstance(x, ast.Name) else None)  # noqa: E731
        d = {conv(k): conv(v) for k, v in zip(e.keys, e.values)}
        if None in d or None in d.values():
            return None
        out.append(d)
    return out


@register
class TypeTables(Contract):
    """JSON and simple grammars agree on the types both can express: JSON -> Python -> JSON is the identity on every JSON type of the table; Python -> JSON -> Python
    is the identity on str/int/bool/ndarray/complex and generalises the others the documented way (list, tuple -> ndarray; float -> complex); arrays are ndarray."""

    lemma = True
    targets = ()
    prop = ("C15",)

    def lemmas(self):
        t = _tables()
        if t is None:
            return [("tables-are-dict-displays-of-names-and-strings", z3.BoolVal(False))]
        j2p_, p2j = t
        ty = lambda n: ("type", n)  # noqa: E731
        general = {ty("list"): ty("ndarray"), ty("tuple"): ty("ndarray"), ty("float"): ty("complex")}
        out = [(f"json->python->json:{j}", z3.BoolVal(p2j.get(j2p_[j]) == j)) for j in sorted(j2p_)]
        for p in sorted(p2j, key=str):
            back = j2p_.get(p2j[p])
            out.append((f"python->json->python:{p[1]}", z3.BoolVal(back == general.get(p, p))))
        out.append(("arrays-are-ndarray", z3.BoolVal(j2p_.get("array") == ty("ndarray") and all(p2j.get(ty(x)) == "array" for x in ("ndarray", "list", "tuple")))))
        out.append(("five-json-types", z3.BoolVal(sorted(j2p_) == ["array", "boolean", "integer", "number", "string"])))
        return out


# ---------------------------------------------------------------------------- files
def _file_schema(path):
    """(membership, values) of the dictionary json.loads(<text of the file>)."""
    t = J.json_loads(J.json_file_text(path))
    return J.SCHEMA_T.acc(0)(t), J.SCHEMA_T.acc(1)(t)


@register
@with_cvb
class UpdateFromFile(_JG):
    """update_from_schema of the JSON object stored in the file (FileNotFoundError exactly when it does not exist); no cache survives."""

    targets = (JG + ".update_from_file",)
    params = {"path": TStr, "merge": TBool}
    modifies = ("self", BUILDER, "self._required_names")
    raises = {"FileNotFoundError": lambda c: z3.Not(J.json_file_exists(c.old.path)), "KeyError": None}

    def ensures(self, c):
        g0, g1 = c.old.self, c.new.self
        m, v = _file_schema(c.old.path)
        k = kq("k!uff")
        r0, r1 = req(g0), req(g1)
        in_props = lambda x: z3.And(m[P_], J.props_names(v[P_])[x])  # noqa: E731
        in_req = lambda x: z3.And(m[R_], J.names_of(v[R_])[x])  # noqa: E731
        return added(props(g1), props(g0), in_props, lambda x: J.props_nodes(v[P_])[x], c.old.merge) + [
            ("kept:defaults", same_dict(dfl(g1), dfl(g0))), ("kept:name", g1.name == g0.name),
            ("required:exactly-the-old-ones-and-those-of-the-file", z3.ForAll([k], r1.member[k] == z3.Or(r0.member[k], in_req(k))))]

    def raise_ensures(self, c, exc):
        if exc != "FileNotFoundError":
            return []
        g0, g1 = c.old.self, c.new.self
        return [("unchanged:properties", same_dict(props(g1), props(g0)))] + caches_kept(g0, g1)


def written(c, new=False):
    return (c.new_ghost if new else c.old_ghost)("json_written", z3.ArraySort(TStr.sort(), TStr.sort()))


@register
class ToFile(_JG):
    """Read-only for the grammar (definition and caches unchanged, the builder's own required set empty again); something is written at the given path
    (`<name>.json` when the path is empty) and nowhere else."""

    targets = (JG + ".to_file",)
    params = {"path": TStr}
    modifies = ("self", BUILDER, "ghost:json_written")

    def requires(self, c):
        return _JG.requires(self, c) + wfg_required(c.old.self)

    def ensures(self, c):
        from pyvc.models import str_nonempty_f

        g0, g1 = c.old.self, c.new.self
        p = c.old.path
        target = z3.If(str_nonempty_f(p), p, J.path_with_suffix(g0.name, lit(".json")))
        q = kq("q!tf")
        return cvb(g1) + meta_wf(g1) + definition_kept(g0, g1) + caches_kept(g0, g1) + [
            ("written:only-at-the-target-path", z3.ForAll([q], z3.Implies(q != target, written(c, new=True)[q] == written(c)[q])))]


# ---------------------------------------------------------------------------- copy into a new grammar
@register
class CopyInto(_JG):
    """The (new, empty) grammar gets the same properties and keywords, its own copy of the cached schema and the validator - caches that are valid for IT;
    the source is not changed."""

    targets = (JG + "._copy",)
    params = {"grammar": TObj(JG)}
    modifies = ("grammar", "grammar._JSONGrammar__schema_builder")

    def requires(self, c):
        o = c.old.grammar
        b = bld(o)
        # BaseGrammar.__copy__: `grammar = self.__class__(self.name)` (a new grammar: __init__ -> clear() -> _clear(), see Clear)
        return _JG.requires(self, c) + [("target:new-empty-grammar", z3.And(props(o).n == 0, z3.Not(b.has_strategy), z3.Not(b.has_req), b.req.n == 0)),
                                        ("target:not-the-source", z3.BoolVal(c.arg("grammar") != c.arg("self") and b.ref != bld(c.old.self).ref))] + \
            [(f"target:{l}", f) for l, f in meta_wf(o)]

    def ensures(self, c):
        s, o0, o1 = c.old.self, c.old.grammar, c.new.grammar
        return [(f"copy:{l}", f) for l, f in cvb(o1) + meta_wf(o1)] + [
            ("copy:same-properties", same_dict(props(o1), props(s))),
            ("copy:same-keywords", same_dict(meta(o1), meta(s))),
            ("copy:same-cached-schema", same_dict(cache(o1), cache(s))),
            ("copy:own-cached-schema", z3.BoolVal(cache(o1).ref != cache(s).ref)),
            ("copy:same-validator", validator(o1).term == validator(s).term),
            ("copy:own-builder", z3.BoolVal(bld(o1).ref != bld(s).ref and props(o1).ref != props(s).ref)),
            ("copy:kept:name", o1.name == o0.name),
            ("copy:kept:parts", z3.BoolVal(o1._defaults.ref == o0._defaults.ref and o1._required_names.ref == o0._required_names.ref)),
        ]
