"""C04 - the reported optimum is the best point of the recorded history.

Recorded output values are rank-1 real arrays (precise numpy model); database keys are array
contents (HashableNdarray).  Spec functions come from the property statement:
  sat(c, v)   : every component within the tolerance of the constraint's type
  feasible(p) : every constraint has a recorded value that satisfies it
"""
from __future__ import annotations

import z3

from pyvc import contract as C
from pyvc import gmodels as G
from pyvc.contract import Contract, LoopSpec, register, schema
from pyvc.npmodel import TArr
from pyvc.values import TBool, TDict, TInt, TList, TNd, TObj, TReal, TRec, TStr, TStruct, TTuple


A = "gemseo.algos."
CONSTRAINTS = "gemseo.core.mdo_functions.collections.constraints.Constraints"
F1 = TArr("f", 1)
CONS = TRec("ConstraintFn", {"name": TStr, "f_type": TStr}, cls="gemseo.core.mdo_functions.mdo_function.MDOFunction")
TOL = TRec("ConstraintTolerances", {"inequality": TReal, "equality": TReal})
POINT = TDict(TStr, F1)
# database key with a precise array (content equality = equality of the embedded array record)
HNd = TRec("HashableNdarrayF", {"wrapped_array": F1}, cls=A + "hashable_ndarray.HashableNdarray")
DB4 = TDict(HNd, POINT, ordered=True)

G.RECORD_METHODS[(A + "hashable_ndarray.HashableNdarray", "unwrap")] = lambda ex, recv, args, kwargs: recv.ty.get_field(ex.st, recv.term, "wrapped_array")

schema(CONSTRAINTS, {"_functions": TList(CONS), "_Constraints__tolerances": TOL})
schema(A + "database.Database#c04", {"_Database__data": DB4})
schema(A + "optimization_history.OptimizationHistory", {
    "objective_name": TStr,
    "_OptimizationHistory__constraints": TObj(CONSTRAINTS),
    "_OptimizationHistory__database": TObj(A + "database.Database", schema_key=A + "database.Database#c04"),
})

EQ = "eq"


# ---------------------------------------------------------------------------- spec functions
def sat(tol, ftype, v):
    """v: embedded rank-1 array term."""
    from pyvc.values import str_lit

    i = z3.Int("i!sat")
    n, e = F1.dim(v), F1.els(v)
    absv = z3.If(e[i] < 0, -e[i], e[i])
    rng = z3.And(0 <= i, i < n)
    return z3.If(ftype == str_lit(EQ), z3.ForAll([i], z3.Implies(rng, absv <= TOL.accessor("equality")(tol))),
                 z3.ForAll([i], z3.Implies(rng, e[i] <= TOL.accessor("inequality")(tol))))


def feasible(cons, pt):
    """cons: view of the Constraints object; pt: embedded POINT term."""
    k = z3.Int("k!feas")
    F = cons._functions
    mem, vals = POINT.acc(0)(pt), POINT.acc(1)(pt)
    nm = lambda t: CONS.accessor("name")(F.elems[t])  # noqa: E731
    return z3.ForAll([k], z3.Implies(z3.And(0 <= k, k < F.n), z3.And(mem[nm(k)], sat(cons._Constraints__tolerances.term, CONS.accessor("f_type")(F.elems[k]), vals[nm(k)]))))


def point_term(p):
    """Embedded POINT term of a dict view."""
    return POINT.dt.mk(p.member, p.vals, p.n)


# ---------------------------------------------------------------------------- Constraints
@register
class IsConstraintSatisfied(Contract):
    targets = (CONSTRAINTS + ".is_constraint_satisfied",)
    prop = ("C04",)
    numpy = "precise"
    params = {"constraint_type": TStr, "constraint_value": F1}
    returns = TBool

    def ensures(self, c):
        v = c.old.constraint_value
        vt = F1.dt.mk(v.obj.shape[0], v.obj.elems)
        return [("value", c.result == sat(c.old.self._Constraints__tolerances.term, c.old.constraint_type, vt))]


def _feas_inv(c, k):
    s = c.old.self
    pt = c.old.point
    F = s._functions
    j = z3.Int("j!fi")
    nm = lambda t: CONS.accessor("name")(F.elems[t])  # noqa: E731
    return [("prefix-satisfied", z3.ForAll([j], z3.Implies(z3.And(0 <= j, j < k), z3.And(pt.has(nm(j)), sat(s._Constraints__tolerances.term, CONS.accessor("f_type")(F.elems[j]), pt.vals[nm(j)])))))]


@register
class IsPointFeasible(Contract):
    targets = (CONSTRAINTS + ".is_point_feasible",)
    prop = ("C04",)
    numpy = "precise"
    params = {"point": POINT}
    returns = TBool
    loops = {0: LoopSpec(anchor="self._functions", inv=_feas_inv)}

    def ensures(self, c):
        return [("value", c.result == feasible(c.old.self, point_term(c.old.point)))]


# ---------------------------------------------------------------------------- OptimizationHistory.feasible_points
cnt_feas = z3.Function("cnt_feas", z3.IntSort(), z3.IntSort())  # number of feasible points among the first i database entries


def hist(c):
    s = c.old.self
    return s._OptimizationHistory__database._Database__data, s._OptimizationHistory__constraints


def cnt_axioms(c):
    D, cons = hist(c)
    i = z3.Int("i!cnt")
    return [("cnt-zero", cnt_feas(0) == 0),
            ("cnt-step", z3.ForAll([i], z3.Implies(z3.And(0 <= i, i < D.n), cnt_feas(i + 1) == cnt_feas(i) + z3.If(feasible(cons, D.vals[D.keys[i]]), 1, 0)), patterns=[cnt_feas(i + 1)])),
            # consequences of the recursive definition, proved by induction in CntLemmas below
            ("cnt-bounds", z3.ForAll([i], z3.Implies(z3.And(0 <= i, i <= D.n), z3.And(0 <= cnt_feas(i), cnt_feas(i) <= i)), patterns=[cnt_feas(i)])),
            ("cnt-monotone", cnt_monotone(D.n))]


def cnt_monotone(n, upto=None):
    a, b = z3.Int("a!cm"), z3.Int("b!cm")
    top = n if upto is None else upto
    return z3.ForAll([a, b], z3.Implies(z3.And(0 <= a, a <= b, b <= top), cnt_feas(a) <= cnt_feas(b)), patterns=[z3.MultiPattern(cnt_feas(a), cnt_feas(b))])


@register
class CntLemmas(Contract):
    """Induction (base + step) for the two consequences of the recursive definition of cnt_feas that are used as axioms."""

    targets = ()
    prop = ("C04",)
    lemma = True

    def lemmas(self):
        n, m, i = z3.Ints("n m i")
        inc = z3.Function("cnt_inc", z3.IntSort(), z3.IntSort())  # the 0/1 increment of step i (feasible or not)
        defn = z3.And(cnt_feas(0) == 0, z3.ForAll([i], z3.Implies(z3.And(0 <= i, i < n), z3.And(cnt_feas(i + 1) == cnt_feas(i) + inc(i), 0 <= inc(i), inc(i) <= 1))))
        bounds = lambda t: z3.ForAll([i], z3.Implies(z3.And(0 <= i, i <= t), z3.And(0 <= cnt_feas(i), cnt_feas(i) <= i)))  # noqa: E731
        return [
            ("bounds:base", z3.Implies(defn, bounds(z3.IntVal(0)))),
            ("bounds:step", z3.Implies(z3.And(defn, 0 <= m, m < n, bounds(m)), bounds(m + 1))),
            ("monotone:base", z3.Implies(defn, cnt_monotone(n, z3.IntVal(0)))),
            ("monotone:step", z3.Implies(z3.And(defn, 0 <= m, m < n, cnt_monotone(n, m)), cnt_monotone(n, m + 1))),
        ]


def feasible_listing(c, xs, fs, k):
    """xs/fs list exactly the feasible points among the first k entries, in database order."""
    D, cons = hist(c)
    i, j = z3.Int("i!fl"), z3.Int("j!fl")
    key = lambda t: D.keys[t]  # noqa: E731
    return [
        ("lengths", z3.And(xs.n == cnt_feas(k), fs.n == cnt_feas(k))),
        ("complete", z3.ForAll([i], z3.Implies(z3.And(0 <= i, i < k, feasible(cons, D.vals[key(i)])),
                                               # (cnt_feas(i + 1) is mentioned so that the recursive definition is instantiated at i)
                                               z3.And(cnt_feas(i + 1) == cnt_feas(i) + 1, xs.elems[cnt_feas(i)] == HNd.accessor("wrapped_array")(key(i)),
                                                      fs.elems[cnt_feas(i)] == D.vals[key(i)])),
                               patterns=[cnt_feas(i)])),
        ("sound", z3.ForAll([j], z3.Implies(z3.And(0 <= j, j < xs.n), z3.And(D.member[HNd.dt.mk(xs.elems[j])], feasible(cons, D.vals[HNd.dt.mk(xs.elems[j])]),
                                                                               fs.elems[j] == D.vals[HNd.dt.mk(xs.elems[j])])), patterns=[xs.elems[j], fs.elems[j]])),
    ]


@register
class FeasiblePoints(Contract):
    targets = (A + "optimization_history.OptimizationHistory.feasible_points",)
    prop = ("C04",)
    numpy = "precise"
    returns = TTuple(TList(F1), TList(POINT))
    raises = {"ValueError": lambda c: hist(c)[0].n == 0}
    loops = {0: LoopSpec(anchor="self.__database.items()", modifies=("x_history", "f_history"), local_types={"x_history": TList(F1), "f_history": TList(POINT)},
                         inv=lambda c, k: feasible_listing(c, c.locals["x_history"], c.locals["f_history"], k))}

    def axioms(self, c):
        return cnt_axioms(c)

    def ensures(self, c):
        xs, fs = c.result_value
        xs, fs = C.View(c._new_heap, xs, c.st), C.View(c._new_heap, fs, c.st)
        return feasible_listing(c, xs, fs, hist(c)[0].n)


# ---------------------------------------------------------------------------- OptimizationHistory.optimum
from pyvc.npmodel import is_inf, is_nan_r, is_ninf  # noqa: E402
from pyvc.values import TOpt, str_lit  # noqa: E402
from pyvc.models import str_concat  # noqa: E402

OF1 = TOpt(F1)
COPT = TDict(TStr, OF1, ordered=True)
SOLUTION = TStruct(A + "optimization_history.OptimizationHistory.Solution", {})


def obj_of(c, pt):
    """(has objective, first component of the recorded objective) of an embedded POINT term."""
    nm = c.old.self.objective_name
    return POINT.acc(0)(pt)[nm], F1.els(POINT.acc(1)(pt)[nm])[0]


def recorded_values_ok(c):
    """Type invariant of recorded objective values: one finite real component (NaN stops a run, see C03)."""
    D, _ = hist(c)
    p = z3.Const("p!rv", HNd.sort())
    nm = c.old.self.objective_name
    v = POINT.acc(1)(D.vals[p])[nm]
    e = F1.els(v)[0]
    return z3.ForAll([p], z3.Implies(z3.And(D.member[p], POINT.acc(0)(D.vals[p])[nm]), z3.And(F1.dim(v) == 1, z3.Not(is_inf(e)), z3.Not(is_ninf(e)), z3.Not(is_nan_r(e)))))


def grad_name(nm):
    return str_concat(str_lit("@"), nm)


def arr_term(a):
    return F1.dt.mk(a.obj.shape[0], a.obj.elems)


def _objective_clause(c, pt, f0, has, val):
    from pyvc.values import SV

    if f0 is None:
        return z3.Not(has)
    if isinstance(f0, SV) and isinstance(f0.ty, TOpt):
        nm = c.old.self.objective_name
        return f0.term == z3.If(has, OF1.dt.some(POINT.acc(1)(pt)[nm]), OF1.dt.none)
    return z3.And(has, f0 == val)


def reported_point_consistent(c, x_opt, f0, c_opt, c_grad, upto=None):
    """(x, f, c, g) are the values recorded for one feasible recorded point: x is its key, f its objective, and the
    reported constraint values / gradients are the recorded ones of the first `upto` (default: all) constraints.
    f0: the reported objective as a real term, or None when no objective is reported (then the point has none recorded),
    or an SV of type Optional[array] (then it is the recorded lookup)."""
    D, cons = hist(c)
    key = HNd.dt.mk(arr_term(x_opt))
    pt = D.vals[key]
    has, val = obj_of(c, pt)
    F = cons._functions
    m = z3.Int("m!rp")
    nm = CONS.accessor("name")(F.elems[m])
    mem, vals = POINT.acc(0)(pt), POINT.acc(1)(pt)
    lookup = lambda name: z3.If(mem[name], OF1.dt.some(vals[name]), OF1.dt.none)  # noqa: E731
    top = F.n if upto is None else upto
    return [
        ("is-a-recorded-point", D.member[key]),
        ("is-feasible", feasible(cons, pt)),
        ("objective-is-the-recorded-one", _objective_clause(c, pt, f0, has, val)),
        ("constraint-values-are-the-recorded-ones", z3.ForAll([m], z3.Implies(z3.And(0 <= m, m < top), z3.And(c_opt.has(nm), c_opt.vals[nm] == lookup(nm))))),
        ("constraint-gradients-are-the-recorded-ones", z3.ForAll([m], z3.Implies(z3.And(0 <= m, m < top), z3.And(c_grad.has(nm), c_grad.vals[nm] == lookup(grad_name(nm)))))),
    ]


def _opt_inv(c, k):
    """Running best over the first k feasible points."""
    fs = c.locals["feas_f"]
    f_opt = c.locals["f_opt"]
    j = z3.Int("j!oi")
    has_j, val_j = obj_of(c, fs.elems[j])
    rng = z3.And(0 <= j, j < k)
    base = [("listing-kept", z3.And(*[f for _, f in feasible_listing(c, c.locals["feas_x"], fs, hist(c)[0].n)]))]
    flag = c.locals["has_objective_value"]
    flag = flag if z3.is_expr(flag) else z3.BoolVal(flag)
    if isinstance(f_opt, float):  # still the initial +inf: no feasible point with an objective value so far, the first feasible point is the candidate
        cand = [(f"candidate:{l}", f) for l, f in reported_point_consistent(c, c.locals["x_opt"], None, c.locals["c_opt"], c.locals["c_opt_grad"])
                if l != "objective-is-the-recorded-one"]
        F = hist(c)[1]._functions
        m = z3.Int("m!ck")
        nm = CONS.accessor("name")(F.elems[m])
        # (names the key at position m of both reports, so that the facts about the two comprehensions are instantiated at m)
        keys = ("candidate-reports-list-the-constraints-in-order",
                z3.ForAll([m], z3.Implies(z3.And(0 <= m, m < F.n), z3.And(c.locals["c_opt"].keys[m] == nm, c.locals["c_opt_grad"].keys[m] == nm)), patterns=[F.elems[m]]))
        return base + [("nothing-selected-yet", z3.ForAll([j], z3.Implies(rng, z3.Not(has_j)))), ("flag", z3.Not(flag)),
                       ("candidate-is-the-first-feasible-point", arr_term(c.locals["x_opt"]) == c.locals["feas_x"].elems[0]), keys] + cand
    if z3.is_expr(f_opt):
        # the objective was replaced by its norm: only for recorded objectives with several components (excluded by the precondition)
        return base + [("vector-objective-is-excluded-by-precondition", z3.BoolVal(False))]
    f0 = f_opt.obj.elems[0]
    return base + [("best-so-far", z3.ForAll([j], z3.Implies(z3.And(rng, has_j), f0 <= val_j))), ("size-one", f_opt.obj.shape[0] == 1), ("flag", flag)] + \
        reported_point_consistent(c, c.locals["x_opt"], f0, c.locals["c_opt"], c.locals["c_opt_grad"])


def _copt_inv(c, m):
    """Inner loop: the reports of the first m constraints are those recorded for the point being selected."""
    ov = c.locals["output_values"]
    F = hist(c)[1]._functions
    q = z3.Int("q!ci")
    nm = CONS.accessor("name")(F.elems[q])
    lookup = lambda name: z3.If(ov.has(name), OF1.dt.some(ov.vals[name]), OF1.dt.none)  # noqa: E731
    c_opt, c_grad = c.locals["c_opt"], c.locals["c_opt_grad"]
    return [("values", z3.ForAll([q], z3.Implies(z3.And(0 <= q, q < m), z3.And(c_opt.has(nm), c_opt.vals[nm] == lookup(nm))))),
            ("gradients", z3.ForAll([q], z3.Implies(z3.And(0 <= q, q < m), z3.And(c_grad.has(nm), c_grad.vals[nm] == lookup(grad_name(nm))))))]


@register
class GetGradientName(Contract):
    targets = (A + "database.Database.get_gradient_name",)
    prop = ("C04",)
    params = {"name": TStr}
    returns = TStr

    def ensures(self, c):
        return [("value", c.result == grad_name(c.old.name))]


@register
class Optimum(Contract):
    """If a recorded point is feasible, the reported point is a feasible recorded point, its reported objective,
    constraint values and gradients are the recorded ones, and no feasible recorded point with an objective value
    has a strictly smaller objective."""

    targets = (A + "optimization_history.OptimizationHistory.optimum",)
    prop = ("C04",)
    numpy = "precise"
    returns = SOLUTION
    raises = {"ValueError": lambda c: hist(c)[0].n == 0}
    loops = {
        0: LoopSpec(anchor="enumerate(feas_f)", modifies=("c_opt", "c_opt_grad"), inv=_opt_inv,
                    local_types={"c_opt": COPT, "c_opt_grad": COPT, "f_opt": [float("inf"), F1], "x_opt": F1, "obj_value": OF1, "c_name": TStr, "c_key": TStr,
                                 "constraint": CONS, "has_objective_value": TBool}),
        1: LoopSpec(anchor="constraints", modifies=("c_opt", "c_opt_grad"), inv=_copt_inv, local_types={"c_name": TStr, "c_key": TStr}),
    }

    def axioms(self, c):
        return cnt_axioms(c)

    def requires(self, c):
        F = hist(c)[1]._functions
        a, b = z3.Int("a!dn"), z3.Int("b!dn")
        nm = lambda t: CONS.accessor("name")(F.elems[t])  # noqa: E731
        return [("recorded-objective-values-are-finite-scalars", recorded_values_ok(c)),
                ("constraint-names-distinct", z3.ForAll([a, b], z3.Implies(z3.And(0 <= a, a < b, b < F.n), nm(a) != nm(b))))]

    def some_feasible(self, c):
        """Some recorded point is feasible.  (The last two conjuncts hold for every feasible recorded point by the order view
        of the database and the definition of cnt_feas; they are written out so that the provers instantiate them.)"""
        D, cons = hist(c)
        p = z3.Const("p!sf", HNd.sort())
        return z3.Exists([p], z3.And(D.member[p], feasible(cons, D.vals[p]), D.pos[p] >= 0, cnt_feas(D.pos[p] + 1) >= 1))

    def ensures(self, c):
        D, cons = hist(c)
        r = c.result
        some = self.some_feasible(c)
        out = [("feasible-flag", r.is_feasible == some)] if not isinstance(r.is_feasible, bool) else [("feasible-flag", z3.BoolVal(r.is_feasible) == some)]
        if r.is_feasible is True:
            from pyvc.values import SV

            f = r.objective
            if f is None or (isinstance(f, SV) and isinstance(f.ty, TOpt)):
                # no feasible point has an objective value: the first feasible point is reported, with what is recorded for it
                f0, val0 = f, None
            elif isinstance(f, float):
                f0, val0 = None, None
                out.append(("reported-objective-is-a-recorded-value", z3.BoolVal(False)))  # a float literal is never a recorded value
            else:
                f0 = val0 = f if z3.is_expr(f) else f.obj.elems[0]
            for label, cl in reported_point_consistent(c, r.design, f0, r.constraints, r.constraint_jacobian):
                out.append((f"reported:{label}", cl))
            p = z3.Const("p!best", HNd.sort())
            has_p, val_p = obj_of(c, D.vals[p])
            better = z3.BoolVal(False) if val0 is None else val0 <= val_p  # without a reported objective value, no feasible point may have one
            out.append(("no-better-feasible-point", z3.ForAll([p], z3.Implies(z3.And(D.member[p], feasible(cons, D.vals[p]), has_p, D.pos[p] >= 0, cnt_feas(D.pos[p] + 1) >= 1,
                                                                                         cnt_feas(D.pos[p]) >= 0), better))))
        return out


# ---------------------------------------------------------------------------- least infeasible point
viol_of = z3.Function("viol_of", POINT.sort(), z3.RealSort())  # the constraint-violation measure check_design_point_is_feasible returns for a recorded point
OF1_ = TOpt(F1)
OH = A + "optimization_history.OptimizationHistory"
BEST = TTuple(F1, TOpt(TReal), TBool, POINT)


def le_ext(a, b):
    """Order of violation measures: a +inf-tagged measure is the largest."""
    return z3.If(is_inf(b), z3.BoolVal(True), z3.If(is_inf(a), z3.BoolVal(False), a <= b))


def _evaluated_prefix(cons, pt, upto):
    """The first `upto` constraints all have a recorded value at the point."""
    j = z3.Int("j!ep")
    F = cons._functions
    return z3.ForAll([j], z3.Implies(z3.And(0 <= j, j < upto), POINT.acc(0)(pt)[CONS.accessor("name")(F.elems[j])]))


def _sat_k(cons, pt, j):
    F = cons._functions
    return sat(cons._Constraints__tolerances.term, CONS.accessor("f_type")(F.elems[j]), POINT.acc(1)(pt)[CONS.accessor("name")(F.elems[j])])


def _nan_k(cons, pt, j):
    F = cons._functions
    v = POINT.acc(1)(pt)[CONS.accessor("name")(F.elems[j])]
    i = z3.Int("i!nk")
    return z3.Exists([i], z3.And(0 <= i, i < F1.dim(v), is_nan_r(F1.els(v)[i])))


def _cdp_inv(c, k):
    D, cons = hist(c)
    pt = D.vals[c.old.x_vect.term]
    j = z3.Int("j!cdp")
    viol = c.locals["violation"]
    viol = viol if z3.is_expr(viol) else z3.RealVal(0)
    flag = c.locals["x_vect_is_feasible"]
    flag = flag if z3.is_expr(flag) else z3.BoolVal(flag)
    rng = z3.And(0 <= j, j < k)
    all_sat = z3.ForAll([j], z3.Implies(rng, _sat_k(cons, pt, j)))
    return [("evaluated-prefix", _evaluated_prefix(cons, pt, k)),
            ("flag", flag == all_sat),
            ("violation-nonnegative", viol >= 0),
            ("zero-when-all-satisfied", z3.Implies(all_sat, viol == 0)),
            ("no-nan-in-a-violated-constraint-so-far", z3.ForAll([j], z3.Implies(z3.And(rng, z3.Not(_sat_k(cons, pt, j))), z3.Not(_nan_k(cons, pt, j)))))]


@register
class CheckDesignPointIsFeasible(Contract):
    """(flag, measure) over the constraints evaluated at the point (the loop stops at the first constraint without a value):
    flag <=> all of them are satisfied; measure = 0 then; measure = +inf as soon as a violated one has a NaN component;
    otherwise a finite non-negative number.  Its arithmetic (norm of the violated part) is not modelled: `viol_of` names the value."""

    targets = (OH + ".check_design_point_is_feasible",)
    prop = ("C04",)
    numpy = "precise"
    params = {"x_vect": HNd}
    returns = TTuple(TBool, TReal)
    raises = {"ValueError": lambda c: hist(c)[0].n == 0}
    loops = {0: LoopSpec(anchor="constraints", inv=_cdp_inv,
                         local_types={"violation": TReal, "x_vect_is_feasible": TBool, "constraint": CONS, "constraint_value": OF1_, "f_type": TStr, "tolerance": TReal})}

    def requires(self, c):
        D, cons = hist(c)
        return [("recorded-point", D.member[c.old.x_vect.term])]

    def ensures(self, c):
        D, cons = hist(c)
        pt = D.vals[c.old.x_vect.term]
        ok, v = c.result_value
        ok = ok.term if hasattr(ok, "term") else z3.BoolVal(ok)
        v = v.term
        F = cons._functions
        m, j = z3.Int("m!cdp"), z3.Int("j!cdp2")
        # m: number of constraints evaluated at the point before the first one without value
        first_missing = z3.And(0 <= m, m <= F.n, _evaluated_prefix(cons, pt, m), z3.Implies(m < F.n, z3.Not(POINT.acc(0)(pt)[CONS.accessor("name")(F.elems[m])])))
        rng = z3.And(0 <= j, j < m)
        all_sat = z3.ForAll([j], z3.Implies(rng, _sat_k(cons, pt, j)))
        nan_violated = z3.Exists([j], z3.And(rng, z3.Not(_sat_k(cons, pt, j)), _nan_k(cons, pt, j)))
        return [
            ("flag", z3.ForAll([m], z3.Implies(first_missing, ok == all_sat))),
            ("zero-when-all-evaluated-constraints-are-satisfied", z3.ForAll([m], z3.Implies(z3.And(first_missing, all_sat), v == 0))),
            ("infinite-when-a-violated-constraint-has-a-nan", z3.ForAll([m], z3.Implies(z3.And(first_missing, nan_violated), is_inf(v)))),
            ("non-negative-or-infinite", z3.Or(is_inf(v), v >= 0)),
            ("fully-evaluated-feasible-point", z3.Implies(feasible(cons, pt), z3.And(ok, v == 0))),
            ("assumed:deterministic-measure", v == viol_of(pt)),
        ]


def _best_inv(c, k):
    D, cons = hist(c)
    xs, fs, vs, oks = (c.locals[n] for n in ("x_history", "f_history", "viol_criteria", "is_feasible"))
    i = z3.Int("i!bi")
    key = D.keys[i]
    return [("lengths", z3.And(xs.n == k, fs.n == k, vs.n == k, oks.n == k)),
            ("entries", z3.ForAll([i], z3.Implies(z3.And(0 <= i, i < k), z3.And(xs.elems[i] == HNd.accessor("wrapped_array")(key), fs.elems[i] == D.vals[key],
                                                                                 vs.elems[i] == viol_of(D.vals[key])))))]


@register
class GetBestInfeasiblePoint(Contract):
    """A recorded point of minimal constraint-violation measure, with its recorded outputs."""

    targets = (OH + ".__get_best_infeasible_point",)
    prop = ("C04",)
    numpy = "precise"
    returns = BEST
    raises = {"ValueError": lambda c: hist(c)[0].n == 0}
    loops = {0: LoopSpec(anchor="self.__database.items()", modifies=("x_history", "f_history", "viol_criteria", "is_feasible"), inv=_best_inv,
                         local_types={"x_history": TList(F1), "f_history": TList(POINT), "viol_criteria": TList(TReal), "is_feasible": TList(TBool),
                                      "is_pt_feasible": TBool, "f_violation": TReal})}

    def requires(self, c):
        return [("recorded-objective-values-are-finite-scalars", recorded_values_ok(c))]

    def ensures(self, c):
        D, cons = hist(c)
        x, f, ok, outs = c.result_value
        from pyvc.values import Ref as _Ref

        if isinstance(f, _Ref):
            # a recorded objective of size 1 is reported as a scalar: this path contradicts the precondition
            return [("objective-of-size-one-is-unwrapped", z3.BoolVal(False))]
        xv = C.View(c._new_heap, x, c.st)
        ov = C.View(c._new_heap, outs, c.st)
        key = HNd.dt.mk(arr_term(xv))
        p = z3.Const("p!gb", HNd.sort())
        has, val = obj_of(c, D.vals[key])
        fopt = f.term
        return [
            ("is-a-recorded-point", D.member[key]),
            ("outputs-are-the-recorded-ones", point_term(ov) == D.vals[key]),
            ("minimal-violation", z3.ForAll([p], z3.Implies(z3.And(D.member[p], D.pos[p] >= 0), le_ext(viol_of(D.vals[key]), viol_of(D.vals[p]))))),
            ("objective-is-the-recorded-one", z3.If(has, fopt == f.ty.dt.some(val), f.ty.is_none(fopt))),
        ]
