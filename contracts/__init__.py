"""Sidecar contracts on the real gemseo functions, one module per property (DESIGN.md §4)."""

PROPS = {
    "C06": {
        "level_text": "PARTIAL CORRECTNESS ONLY (contracts/c06_mda.py) - nothing is claimed about convergence itself (that a loop ever meets the criterion), about the "
                      "agreement of different algorithms / settings, or about floating point. Proof on the real source, for any number of opaque deterministic "
                      "disciplines, any data, any settings: IF MDAGaussSeidel / MDAJacobi / MDANewtonRaphson._execute returns, THEN with D the local data the last "
                      "iteration started from: the returned local data are sweep(D) (+ the item 'MDA residuals norm'), the residual of every resolved name is "
                      "value(sweep(D)) - value(D) (the value of the discipline's residual variable for a state variable), normed_residual is the scaled norm of the "
                      "packed residuals with the reference stored in _scaling_data, and (normed_residual <= tolerance OR max_mda_iter <= iteration counter); hence "
                      "IF the run ends because the tolerance criterion is met THEN scaled_norm(sweep(D) - D on the resolved variables) <= tolerance - i.e. what is "
                      "guaranteed is that the RETURNED data were obtained by one sweep from data that differ from them by at most tolerance x reference in the "
                      "norm of the scaling table (NOT that re-executing a discipline on the returned data changes them by less than the tolerance: that needs the "
                      "contraction hypothesis, which is outside contracts). sweep = Gauss-Seidel fold (each discipline executed on the data updated by the "
                      "previous ones, list order) resp. Jacobi fold (all on the same data; serial mode; also the sweep of the Newton-type MDAs), both verified "
                      "with loop invariants. Loop invariant of the three loops (k >= 1): the local data are sweep(D) updated with unpack(T), T the output of the "
                      "(abstract) sequence transformer fed with (pack(sweep(D)), residual vector) resp. (y(D) + Newton step, Newton step) for Newton-Raphson. "
                      "_stop_criterion_is_reached / _warn_convergence_criteria: true iff the norm just computed <= tolerance or max_mda_iter <= counter. "
                      "_compute_normalized_residual_norm: the scaling table, one verified variant per ResidualScaling member "
                      "(INITIAL_SUBRESIDUAL_NORM: the reference is exactly one (slice, ||R_first[slice]|| or 1.0 when that is 0) pair per resolved variable - nested "
                      "loop invariants over the converter -> names-to-slices map -, the normed residual is the MAX over ALL pairs of ||R[slice]|| / reference, so every "
                      "resolved variable is monitored; NO_SCALING ||R||; INITIAL_RESIDUAL_NORM ||R||/ref, ref = ||R_first|| or 1; N_COUPLING_VARIABLES ||R||/sqrt(size R_first); "
                      "INITIAL_RESIDUAL_COMPONENT max|R/ref|, ref = R_first + (R_first == 0); SCALED_INITIAL_RESIDUAL_COMPONENT ||R/ref||/sqrt(size R)): the "
                      "reference is fixed the first time the function runs with _scaling_data None and NEVER changes afterwards (also across executions), "
                      "history / starting indices / counter / local-data item as coded; an unknown scaling value raises ValueError. _compute_residuals (nested "
                      "loop invariants over the converter -> names-to-slices map). MDASequential._execute (no warm start): the MDAs run in order, each on the data "
                      "RETURNED by the previous one, the local data end as the data returned by the last executed MDA, the chain stops after the first MDA whose "
                      "normed residual is < (strict) the sequential MDA's tolerance. Scaling setters (after fix 05f502e): BaseMDA.scaling sets the method and RESETS "
                      "the scaling data, the MDAChain / MDASequential overrides propagate the method to every inner MDA through its setter (which resets its data): the "
                      "representation invariant 'scaling data are None or a reference of the CURRENT method' is PROVED to hold after any setter call and is a "
                      "precondition / loop invariant / postcondition of _stop_criterion_is_reached and of the three loops. MDANewtonRaphson.__compute_newton_step "
                      "(delegation): all disciplines linearized at the iteration's start data (execute as configured), then exactly the step of "
                      "JacobianAssembly.compute_newton_step (C07) for those data, the resolved variable names, the configured solver / matrix type / settings, "
                      "the current residual vector and the resolved residual names. MDAQuasiNewton.__compute_residuals (the function handed to scipy root): "
                      "disciplines executed ON Y = local data updated with unpack(x), local data restored and updated with their outputs, residuals = "
                      "value(new data) - value(Y), result = JacobianAssembly.residuals(Y, resolved variable names). All norm / loop contracts are stated for "
                      "COUPLED systems (at least one resolved residual, non-empty residual map): under this precondition no ZeroDivisionError.",
        "level_note": "Trusted: pyvc, z3, pyvc/plug_c06.py. Abstractions: vectors are opaque arrays (numpy results = deterministic uninterpreted functions of the operands), "
                      "norm an uninterpreted non-negative real, n ** 0.5 an uninterpreted sqrt (>= 0, zero iff n == 0), numpy-scalar division by zero an unspecified "
                      "real (no exception), float division by zero ZeroDivisionError. ASSUMED (trusted contracts, listed in the evidence): the lazily computed "
                      "names-to-slices maps (__compute_names_to_slices; names partitioned by converter), pack / unpack between vectors and data "
                      "(get_current_resolved_*_vector, _update_local_data_from_array), IO.update_output_data (stores the items whose key is an output name), the "
                      "sequence transformer (RelaxationAcceleration: free history constructor with observers; identity when no acceleration and relaxation "
                      "factor 1), _prepare_warm_start (changes the local data only), JacobianAssembly.compute_newton_step / residuals as uninterpreted functions of "
                      "the assembly, the disciplines' linearization / execution state and the arguments (their contracts are verified / assumed in C07), the "
                      "packed vector of a non-empty map has at least one component, inner MDAs of composed MDAs obey the verified base setter contract, opaque disciplines (execute records its "
                      "input data, get_output_data a deterministic function of them, execute does not modify its argument), opaque MDAs of a sequence, serial "
                      "mode (n_processes == 1). The loops use the abstract summary of _compute_normalized_residual_norm (normed residual = f(scaling, scaling "
                      "data after the call, residual vector)); the formulas are verified separately per scaling member. Native replays (observations, outside "
                      "the claimed region): an MDA WITHOUT resolved variables behaves differently per scaling (default: converged at once; N_COUPLING_VARIABLES: "
                      "nan, runs to max_mda_iter; SCALED_INITIAL_RESIDUAL_COMPONENT: ZeroDivisionError; INITIAL_RESIDUAL_COMPONENT: ValueError of max() on an empty "
                      "array) - this degenerate case is LEFT OUT of the claim (precondition 'coupled system'), not specified as behaviour. Repaired defect "
                      "(05f502e, known_findings.json): the scaling setter kept the reference of the previous method.",
        "design_ref": "DESIGN.md §6 (was: not applicable; now partial correctness)",
        "modules": ["contracts.c06_mda"],
        "assumptions": ["disciplines are deterministic and do not modify the mapping they are executed on; get_output_data() is a function of the discipline and of the data it was last executed on",
                        "serial mode (settings.n_processes == 1): _execute_disciplines / _linearize_disciplines are the sequential methods",
                        "data converters: convert_data_to_array([name], data) depends on (converter, name, data[name]) only; the resolved names are keys of the data (KeyError not modelled)",
                        "the names of the residual names-to-slices map are partitioned by converter (representation invariant, established by __compute_names_to_slices - assumed)",
                        "_scaling_data is None or a reference of the current scaling method: established by __init__ (None; not verified), PROVED preserved by the three scaling setters; in the per-scaling variants of the norm it is the typing of _scaling_data; a stored scalar reference of INITIAL_RESIDUAL_NORM is not zero (verified to be preserved)",
                        "coupled system: at least one resolved residual name and a non-empty residual names-to-slices map; the packed vector of a non-empty map has at least one component",
                        "_current_iter == 0 when _execute starts (set by BaseMDA.execute)",
                        "abstract sequence transformer, pack / unpack, warm start, Newton step, IO.update_output_data as described in level_note",
                        "float64 arithmetic read as real arithmetic; nan / inf not modelled"],
        "not_covered": ["CONVERGENCE: that any loop ever meets the tolerance criterion; agreement of the algorithms with each other / with the exact solution; independence of the solution from acceleration, relaxation, warm start, scaling, discipline order",
                        "that re-executing a discipline on the returned data reproduces the returned outputs to within the tolerance (needs contractivity; the code guarantees the one-sweep-back statement above)",
                        "MDAs WITHOUT resolved variables (degenerate: nan / ZeroDivisionError / ValueError depending on the scaling - native replay in level_note)",
                        "MDAQuasiNewton._execute and its nested Jacobian / callback functions (scipy.optimize.root calls back an unknown number of times), MDAGSNewton.__init__, MDAChain (C08/C09), parallel execution of the disciplines (C13)",
                        "the sequence transformers themselves (relaxation / acceleration formulas), the vector <-> data conversions, __compute_names_to_slices, _set_resolved_variables, _check_coupling_types, _prepare_warm_start",
                        "residual_history of MDASequential (concatenation of the sub-histories), warm start of MDASequential"],
    },
    "C18": {
        "level_text": "Proof (contracts/c18_surrogates.py, contracts/c18_transformers.py), for all real inputs and all sizes: (a) the seven RBF kernel derivative "
                      "functions used by RBFRegressor.predict_jacobian are the derivatives d/dx_i phi(|x|) = phi'(r) x_i / r of the kernels that "
                      "scipy.interpolate.Rbf evaluates (per component; sqrt/exp/log uninterpreted), up to the documented TOL regularisation; "
                      "(b) Scaler (and MinMaxScaler / StandardScaler, which inherit the four maps): transform[i,j] = x[i,j]*coef[j] + offset[j], "
                      "inverse_transform[i,j] = (y[i,j] - offset[j]) / coef[j], compute_jacobian[i] = diag(coef), compute_jacobian_inverse[i] = diag(1/coef) "
                      "for every sample i and feature j of 2-D data; lemmas: the inverse undoes the transformation in both directions when coef != 0, the "
                      "Jacobian entries are the (exact) difference quotients of the two maps and the two Jacobians are inverse of each other; the offset / "
                      "coefficient setters and Scaler._fit (size-1 parameters expanded to one equal component per feature); MinMaxScaler._fit and "
                      "StandardScaler._fit compute the documented coefficients (min -> 0 and max -> 1, mean -> 0) with the documented fall-back for constant "
                      "features and NEVER a zero coefficient (the fitted scaler is lossless); (c) Pipeline of abstract member transformers, any length: "
                      "transform applies the members first to last, inverse_transform the inverse members last to first, compute_jacobian / "
                      "compute_jacobian_inverse return the chain-rule product J_{n-1}(x_{n-1}) @ (... @ (J_0(x_0) @ I)) with every member Jacobian evaluated at "
                      "the successive intermediate point and multiplied on the left (uninterpreted, non-commutative matrix product); by induction "
                      "inverse_transform(transform(x)) = x and transform(inverse_transform(y)) = y when every member is lossless; (d) "
                      "SurrogateDiscipline._run returns exactly the (flattened) predictions of its regression model for the input data passed - same names, "
                      "nothing else, one call - and _compute_jacobian stores exactly the model's predict_jacobian of the discipline's current input data; "
                      "(e) MOERegressor with hard classification: row s of _predict_jacobian_hard is row s of the PUBLIC predict_jacobian of the local model the "
                      "classifier selects for sample s, and _predict_all stacks the PUBLIC predictions of every local model; (f) the data formatters that wrap "
                      "predict / predict_jacobian (contracts/c18_regressors.py; the wrappers nested in the DataFormatters decorators are verified with the "
                      "decorated function abstract): BaseMLSupervisedAlgo._transform_data and _transform_data_from_variable_names (the result is the "
                      "concatenation, IN THE ORDER OF THE VARIABLE NAMES, of the transformed block of every variable that has a transformer and of the "
                      "untouched block of the others); SupervisedDataFormatters.format_transform: predict = inverse output transformation o raw function o "
                      "input transformation (group-level, then variable-level); RegressionDataFormatters.transform_jacobian: predict_jacobian(x) = "
                      "JI_out(raw(x')) @ (J_raw(x') @ J_in(x)), x' = f_in(x) - the chain rule with the verified transformer contracts, uninterpreted "
                      "non-commutative matrix product, NotImplementedError exactly for variable-level transformers; BaseTransformer._use_2d_array.g (2-D "
                      "data: f itself; 1-D data: first row / matrix of f on the one-row matrix); (g) per-sample predictions: PCERegressor._predict_jacobian "
                      "row s = transposed gradient of the (abstract) OpenTURNS meta-model AT SAMPLE s (loop invariant over the samples), _predict row s = its "
                      "value at sample s; LinearRegressor._predict_jacobian = the fitted coefficients for every sample, _predict = the scikit-learn "
                      "prediction, and (lemma, by induction) the coefficient row is the exact derivative of the affine prediction.",
        "level_note": "Trusted: pyvc, z3 (nonlinear reals, floats read as reals), SciPy's kernel definitions, the element-wise numpy axioms of pyvc/plug_c18.py "
                      "(diag, x @ diag(c), tile, full, atleast_1d, where, column min/max/mean/std as uninterpreted functions with min <= entries <= max, std >= 0, "
                      "unique, nonzero, row gather / scatter). ASSUMED (abstract, listed per function in the evidence): the regression model of a surrogate "
                      "discipline (deterministic predict / predict_jacobian, ghost call logs), IO.get_input_data, Discipline._init_jacobian (touches jac only), "
                      "the member transformers of a pipeline (uninterpreted maps; per-member losslessness is the hypothesis of the round-trip lemmas; the chain "
                      "rule of calculus is what makes the product the derivative), the local models and the classifier of a mixture of experts (sample-wise "
                      "uninterpreted public / raw prediction maps, labels in range). The decorator BaseTransformer._use_2d_array is dropped by extraction: "
                      "the decorated bodies and the wrapper g are verified separately (f abstract in g). Also ASSUMED: split_array_to_dict_of_arrays (blocks of the "
                      "variables by offset/size), the reduced input/output dimensions, the OpenTURNS meta-model (value / gradient = transposed Jacobian, "
                      "sample-wise), the scikit-learn linear model (predict affine in coef_ / intercept_), the decorated function of a data formatter and "
                      "BaseMLSupervisedAlgo._predict (deterministic, no side effect). pyvc additions: functions nested in methods are extracted by "
                      "Class.method.inner[.inner] and their free variables bound by the contract's `closure`.",
        "design_ref": "DESIGN.md §4 C18",
        "modules": ["contracts.c18_surrogates", "contracts.c18_transformers", "contracts.c18_regressors"],
        "assumptions": ["scipy.interpolate.Rbf kernels: multiquadric sqrt((r/eps)^2+1), inverse 1/sqrt((r/eps)^2+1), gaussian exp(-(r/eps)^2), linear r, cubic r^3, quintic r^5, thin_plate r^2 log r",
                        "array expressions of the der_* functions act component-wise (numpy broadcasting)",
                        "numpy (pyvc/plug_c18.py): diag(c)[j,k] = c[j] if j == k else 0; (x @ diag(c))[i,j] = x[i,j]*c[j]; tile(M,(n,1,1))[i,j,k] = M[j,k]; full / atleast_1d / where "
                        "element-wise; a.min(0)/max(0)/mean(0)/std(0) per-column uninterpreted with min <= a[i,j] <= max, min <= mean <= max, std >= 0 (ValueError for min/max "
                        "without rows; NaN/inf not modelled); unique = increasing distinct values; x/0 is an unspecified real (numpy gives inf/nan with a warning)",
                        "a fitted scaler has one coefficient and one offset per feature (established by the three _fit contracts when the initial sizes are 1 or n_features)",
                        "abstract regression model / IO / _init_jacobian / member transformers / local models / classifier as described in level_note",
                        "local models of a mixture of experts predict sample-wise (rows of a prediction on X[idx] are the rows idx of the prediction on X)",
                        "OpenTURNS: f.gradient(x) is the (n_inputs, n_outputs) matrix of the partial derivatives at x; f(X) one row per sample; Point(v) = v",
                        "scikit-learn LinearRegression: predict(X)[s,o] = intercept_[o] + sum_i coef_[o,i] X[s,i], one row per sample",
                        "opaque numpy layer for the data formatters: concatenate / eye / shape / @ are deterministic uninterpreted functions of their operands",
                        "the variables to transform of a supervised algorithm are keys of its `transformer` mapping, the group flags say whether 'inputs' / 'outputs' are keys (_post_init)"],
        "not_covered": ["format_dict / format_samples / format_dict_jacobian wrappers (dict <-> array conversion, 1-D samples) and split_array_to_dict_of_arrays itself",
                        "the learning-time transformation (_learn, __transform_data_from_names / _from_group) - hence that prediction and learning use the same column layout",
                        "polyreg / gpr / rbf _predict and _predict_jacobian (axis bookkeeping), PCE special-variable Jacobians",
                        "BaseTransformer.fit / fit_transform, Pipeline._fit / duplicate, power transforms and dimension reductions (sklearn wrappers), JamesonSensor",
                        "that the OpenTURNS gradient / scikit-learn coefficients are the derivatives of the library's own prediction (assumed), interpolation of the learning data",
                        "MOERegressor._predict (probability-weighted sum over clusters), soft classification, the relation d pred_k / dx = jac_k of the local models",
                        "the relation between the argument of SurrogateDiscipline._run (io.data, or get_input_data(with_namespaces=False)) and io.get_input_data() used by "
                        "_compute_jacobian: both are read by the model through its input names only (not verified)",
                        "SurrogateDiscipline.__init__ (grammars, default inputs, linearization mode)"],
    },
    "C07": {
        "level_text": "Proof, for any number and sizes of functions / variables / couplings (unbounded, linear integer arithmetic), that the Jacobian "
                      "assembly (generator, block grid, matrix representation) places every existing partial Jacobian jac[f_a][v_b] at the prefix-sum "
                      "offsets (off_r(a), off_c(b)), zeros elsewhere and -1 on the diagonal of the residual blocks f_a = v_b, with shape "
                      "(sum sizes(functions), sum sizes(variables)), without touching the disciplines' Jacobians; that split_jac is the inverse column "
                      "slicing (exact key sets); that AUTO resolves to DIRECT iff n_variables <= n_functions; and, over an abstract matrix ring, that "
                      "CoupledSystem._direct_mode (column by column) and _adjoint_mode (row by row, transposed system) both return "
                      "dF/dx - dF/dy (dR/dy)^-1 dR/dx for every requested function, hence agree with each other and with the closed form; "
                      "and that every Jacobian-operator wrapper of jacobian_operator.py (real casting, adjoint/T, identity, sum, difference and the "
                      "three compositions, with operators or real arrays) applies in _matvec the matrix it denotes and in _rmatvec its conjugate "
                      "transpose (Re(A x) / Re(A^H x) for the real casting), and that real / T / + / - / @ / shift_identity build the right wrapper "
                      "over the right operands with the shape of the denoted matrix; that the set returned by _compute_diff_ios_and_couplings only "
                      "depends on the CURRENT request (set(variables), set(functions)) whatever was requested before (representation invariant of "
                      "the cache, both the hit and the miss path); that the LU variants and the dispatchers direct_mode / adjoint_mode return the same "
                      "closed form (the LU option only changes the solver); that compute_newton_step returns the solution of (dR/dy) step = -R for the "
                      "assembled residual Jacobian; and, as SMT lemmas over the ring with ANY exact solver (A solve(A, B) = B), that the direct and the "
                      "adjoint expressions are equal and that selecting a subset of functions / variables (block rows / columns) commutes with the closed form.",
        "level_note": "Trusted: pyvc, z3, reals for floats. ASSUMED (not verified, listed per function in the evidence): the block-placement contracts of "
                      "scipy.sparse eye / csr_matrix / bmat (pyvc/plug_np_c07.py); the textbook identities of the matrix ring (plug_np_c07.ring_axioms: "
                      "row/column of products, (XY)^T = Y^T X^T, (X^T)^-1 = (X^-1)^T, associativity, extensionality by rows/columns); an exact linear "
                      "solver (solution = lhs^-1 rhs for every algorithm/option, invertible lhs); scipy's LinearOperator protocol (matvec(x) = A x, "
                      "rmatvec(x) = A^H x for an operator denoting A, __init__ stores dtype/shape) and the identities of the conjugate transpose "
                      "(plug_np_c07.operator_axioms); scipy's tocsr()/tocsc() return the object itself when it already has the format (format = "
                      "uninterpreted predicate, so the no-alias frame of the generator holds for every format); the shapes of the disciplines' partial Jacobians agree "
                      "with `sizes`. Induction lemmas (prefix-sum congruence / monotonicity, last occurrence) are proved as base + step SMT lemmas. One known "
                      "finding (IndexError for empty functions/variables), see known_findings.json.",
        "design_ref": "DESIGN.md §4 C07",
        "modules": ["contracts.c07_assembly", "contracts.c07_solve"],
        "assumptions": ["scipy.sparse.eye(n) is the n x n identity", "csr_matrix((r, c)) is the r x c zero matrix; csr_matrix(m) has the entries of m",
                        "bmat(blocks) places block (a, b) at the prefix sums of the block-row heights / block-column widths, zeros where a block is None",
                        "jac[f][v].shape == (sizes[f], sizes[v]) for the linearized disciplines (precondition)",
                        "matrix ring identities (22 axioms listed in plug_np_c07.ring_axioms)", "LinearSolverLibraryFactory.execute solves lhs x = rhs exactly (lhs invertible)",
                        "shape (broadcast) errors of row/column assignments are not modelled in the ring model",
                        "LinearOperator protocol: matvec(x) = A x, rmatvec(x) = A^H x, __init__(dtype, shape) stores both; dimension-mismatch errors not modelled",
                        "conjugate-transpose / distributivity identities (13 axioms listed in plug_np_c07.operator_axioms)",
                        "the names selected by traverse_add_diff_io_mda depend only on the coupling structure and on the SETS of requested inputs / outputs",
                        "one assembly is always used with its own coupling structure and the same state variables (precondition of the cache contract)",
                        "scipy.sparse.linalg.factorized(A) returns an exact solver of A x = b; csc_matrix(A) is another storage of A",
                        "compute_sizes and residuals are ASSUMED contracts (callees of compute_newton_step); the disciplines' Jacobian blocks have the shapes of the values' sizes",
                        "array operands of the operator wrappers are real (precondition, from their type SparseOrDenseRealArray)"],
        "not_covered": ["LINEAR_OPERATOR representation (AssembledJacobianOperator)", "JacobianOperator partial Jacobians inside the assembly", "JacobianOperator.copy / get_matrix_representation",
                        "iterative-solver accuracy, conditioning",
                        "_check_inputs", "total_derivatives end to end (composition of the verified pieces; in-place filtering of the cached set)",
                        "compute_sizes and residuals (assumed contracts only)", "set_newton_differentiated_ios", "traverse_add_diff_io_mda (assumed through its set of names)",
                        "plot_dependency_jacobian"],
    },
    "C04": {
        "level_text": "Proof, for every database (any number of points, missing values), tolerance and constraint list, that constraint satisfaction and "
                      "point feasibility follow the property's definitions, that feasible_points lists exactly the feasible recorded points in order "
                      "(recursive counting function with induction lemmas), that the least-infeasible selection returns a recorded point of minimal "
                      "violation measure with its recorded outputs, and that `optimum` reports a feasible recorded point, its recorded objective, "
                      "constraint values and gradients, and no feasible recorded point has a smaller objective; flagged feasible iff some recorded point is. "
                      "The whole statement (feasible and least-infeasible case) is also proved for `optimum` with a typed result (variant `summary`), for "
                      "`OptimizationProblem.optimum` and for `OptimizationResult.from_optimization_problem` (also run as MultiObjectiveOptimizationResult): x_opt / "
                      "f_opt / is_feasible / constraint values / gradients are those recorded for the selected point, the objective sign is restored exactly for a "
                      "maximisation problem reporting its original objective, optimum_index is the position of x_opt in the database (Database.get_iteration / "
                      "get_x_vect verified; no KeyError), the empty history gives the n_obj_call = 0 result; `last_point` reports the last recorded point with what is "
                      "recorded for it; `compute_pareto_optimal_points` (rank-2 numpy model, both loops): no reported sample is infeasible or dominated by a feasible one.",
        "level_note": "Trusted: pyvc, numpy model, z3, reals for floats with finite recorded objective values of size 1 (NaN/inf and vector objectives excluded by "
                      "precondition - also for the multi-objective result class, whose contract therefore only covers the delegation `pareto_front` iff feasible); the "
                      "violation measure of check_design_point_is_feasible is an assumed contract; DesignSpace.convert_array_to_dict and "
                      "ParetoFront.from_optimization_problem (pandas) are assumed deterministic functions; dataclass construction, itertools.islice/next and "
                      "numpy.any(axis=1) are modelled in pyvc/plug_c04r.py. The Pareto contract states the soundness direction only (what C04 says): the code also "
                      "drops non-dominated samples that tie with another feasible sample (observation reported, not a C04 violation).",
        "design_ref": "DESIGN.md §4 C04",
        "runtime": "contracts.rt_c04",
        "modules": ["contracts.c04_optimum", "contracts.c04_result"],
        "not_covered": ["ParetoFront.__get_optima / from_optimization_problem (history assembly, pandas)", "completeness of the Pareto filter (non-dominated samples that are dropped)",
                        "vector-valued objectives (norm-based selection in `optimum`)", "get_data_by_names(filter_non_feasible=True) (dataset code)", "NaN / infinite recorded values"],
    },
    "C16": {
        "level_text": "Proof, for all dimensions, points, steps and component subsets, that forward finite differences build the perturbation "
                      "matrix x + h e_k column by column and return the exact difference quotients of the (uninterpreted) function; "
                      "order-of-accuracy identities on polynomials as real-arithmetic lemmas. Same quotients, with the step actually received (scalar or "
                      "one step per perturbation), for the sequential and for the parallel evaluation (FirstOrderFD._compute_parallel_grad: outputs taken "
                      "positionally from the parallel execution, slot 0 = unperturbed point, slot k+1 = perturbation k). Jacobian checking: "
                      "DisciplineJacApprox._compute_variable_indices returns, for every variable and every selection kind (int, list, slice, Ellipsis, None, "
                      "absent), the flat indices offset(variable) + selected component, the offsets being the prefix sums of the FULL variable sizes "
                      "(loop invariant, any number of variables), and the per-name component lists. Centered differences: perturbation matrix (columns k / n+k = "
                      "x +- h e_k; with a design space a step is dropped exactly when it would leave the bounds OF THE DIFFERENTIATED COMPONENT, in physical or "
                      "normalised coordinates, so that no perturbed point leaves its bounds) and quotients (F(P[:,k]) - F(P[:,n+k])) / ||P[:,k] - P[:,n+k]||. "
                      "Complex step over (re, im) pairs of real arrays: purely imaginary one-hot perturbation columns 1j h_k e_{I_k} (h_k != 0 when the step is), "
                      "quotients Im F(x + P[:,k]) / h_k for any subset of components, sequential and parallel (the column sum used as divisor is the one-hot "
                      "entry: lemma by induction). Glue: BaseGradientApproximator.f_gradient (with generate_perturbations inlined) for forward and centered "
                      "differences without design space, default step, one global step or ONE STEP PER INPUT COMPONENT (perturbation k uses the step of component "
                      "I_k and the forward quotient divides by that same step), any x_indices (all the components, in order, when empty), sequential or parallel: "
                      "J[i, k] is the quotient at the perturbed points x +- h_k e_{I_k}, shape (m, len(I)); parallel centered differences return the quotients of the "
                      "sequential computation. Discipline level: split_array_to_dict_of_arrays places block (a, b) = rows of output a x columns of input b at the "
                      "prefix sums of the sizes (one and two levels, loop invariants, recursion through its own contract); DisciplineJacApprox.compute_approx_jac "
                      "returns jac[o][x] = that block of the complete flat Jacobian, which is the approximator's Jacobian J (all components) or the zero matrix "
                      "whose column x_indices[k] is column k of J; Discipline.__compute_jacobian stores exactly this in self.jac in the three approximation modes. DisciplineJacApprox.check_jacobian "
                      "(no `indices`, no reference file, no plot): approximates with compute_approx_jac and succeeds iff every (output, input) block of the approximated "
                      "Jacobian has an analytic counterpart (the given Jacobian, or discipline.jac) of the same shape within `threshold` in numpy.allclose's norm "
                      "(atol = rtol = threshold; two nested loop invariants over the dict of dicts).",
        "level_note": "Trusted: pyvc, the numpy model (npmodel.py: rank<=2 real arrays, paired fancy indexing, tile/reshape/T pattern), reals for floats; "
                      "pyvc/plug_c16.py (list displays with starred items, [f]*n, lists of arrays, selection union type, flattening comprehension relative to "
                      "contract-supplied offsets whose prefix-sum recurrence is a generated obligation). ASSUMED: the parallel execution is seen through the summary "
                      "of its C13 contract for tasks that all succeed (len(result) = len(inputs), result[i] = functions[i](inputs[i]); one callable per input is a "
                      "generated obligation; the task body is the real _wrap_function). "
                      "Centered differences: numpy.linalg.norm is uninterpreted (its value 2|h| on these columns is NOT derived). Complex arrays are pairs of real "
                      "arrays, the differentiated function two uninterpreted maps of the real and imaginary parts; `column.imag.sum()` is replaced by the one-hot "
                      "entry named by the contract under the generated obligation that the column is one-hot (cited lemma proved as base + step SMT lemmas). "
                      "ASSUMED: DesignSpace.get_lower_bounds / get_upper_bounds return the cached bound arrays. Three defects found with these contracts were "
                      "repaired (known_findings.json `fixed`: 5c282a6, fde9871, 04a9b48). Discipline level, ASSUMED environment (contracts/c16_discipline.py): data converters (compute_names_to_sizes: name -> size, "
                      "convert_data_to_array: length = total size), _create_approximator (the function handed to the approximator concatenates the outputs in "
                      "output_names order: output dimension = total output size), the approximator seen through the shape-only summary of f_gradient, no cache "
                      "(__set_zero_cache_tol only yields), sum(dict.values()) as an uninterpreted total stated by the converter contract. "
                      "numpy.allclose is an uninterpreted predicate of the two blocks and the tolerances. Four defects found with these contracts were repaired "
                      "(07a0abc: per-component steps with a subset of components). Not covered: check_jacobian with `indices` / reference file, auto_set_step, float rounding.",
        "design_ref": "DESIGN.md §4 C16",
        "modules": ["contracts.c16_derivatives", "contracts.c16_approx", "contracts.c16_complex", "contracts.c16_centered", "contracts.c16_discipline"],
        "assumptions": ["CallableParallelExecution.execute: summary of its C13 contract (result:length, result:positional) for tasks that all succeed; extra **kwargs of the "
                        "differentiated function are not modelled (empty)",
                        "flattening comprehension: item t of sublist j at offsets(j) + t for the unique prefix-sum offsets of the sublist lengths",
                        "a list has a non-negative length (type invariant of the selection lists)",
                        "data converters / _create_approximator / f_gradient (shape) summaries of contracts/c16_discipline.py (see level_note); variable sizes are a function of the name "
                        "for the discipline's current data; offsets 0 <= off(j) <= off(j+1) <= off(n) (OffsetLemmas: induction steps proved)",
                        "get_lower_bounds()/get_upper_bounds() return the cached arrays of all bounds when the normalisation data are up to date",
                        "sum of a vector with a single non-zero entry = that entry (OneHotSumLemmas, proved by induction; applied under the generated one-hot obligation)"],
        "not_covered": ["centered differences: ||2 h e|| = 2|h| (norm uninterpreted), hence the textbook quotient; a NEGATIVE centered step returns the opposite Jacobian "
                        "(division by 2|h|; observation, not repaired)", "ComplexStep.f_gradient (complex input check) and step setter",
                        "DisciplineJacApprox.check_jacobian WITH `indices` (restriction of the blocks to the selected rows / columns; _compute_variable_indices itself is verified), "
                        "with a pickled reference Jacobian or a plot; auto_set_step, "
                        "_create_approximator / DisciplineAdapterGenerator (assumed), compute_approx_jac with a cache (tolerance save/restore)",
                        "Discipline.linearization_mode setter, set_jacobian_approximation, Discipline.check_jacobian, linearize",
                        "f_gradient with a design space and for the complex step",
                        "compute_optimal_step / _get_opt_step", "slices with a step in check_jacobian indices; a NEGATIVE integer component is added to the offset as is (flat index in the previous variable; observation)",
                        "float cancellation error"],
    },
    "C02": {
        "level_text": "Proof (all histories by invariant preservation, all sizes/values symbolically) that remove_variable, rename_variable, add_variable, filter_dimensions, "
                      "set_lower/upper_bound, the integer-normalisation setter, set_current_variable and their helpers preserve the representation invariant of DesignSpace "
                      "(one variable order for variables, normalisation policies and index ranges; adjacent index ranges summing to the dimension; cached normalisation data "
                      "dropped), and that normalize_vect / unnormalize_vect / round_vect compute the affine maps component-wise for every vector; bijection, unit-interval "
                      "and gradient-scaling identities as real-arithmetic lemmas over those postconditions. "
                      "LINK LEVEL (contracts/c02_more.py; variables with precise bound vectors, precise policies): __update_normalization_vars establishes, from the "
                      "representation invariant alone, the validity of the cached normalisation data (wfnum: the precondition of the numerical contracts here and in "
                      "C14 / C16) AND their link to the per-variable view: component start(name)+j of the cached lower/upper bound arrays is component j of the bound of "
                      "`name`, the integer mask tells the variable types, norm_factor = ub - lb, inverse = 1/(ub-lb) (1 where ub = lb), the normalised indices are exactly "
                      "(pairwise distinct, increasing) the components whose policy is True; _add_norm_policy sets policy[j] = (float variable or integer normalisation) "
                      "and lb[j] != -inf and ub[j] != inf; convert_dict_to_array (every variable) = concatenation in the variable order at the index ranges (KeyError iff a "
                      "variable has no value); get_lower_bounds / get_upper_bounds (cache hit or not) = the concatenated per-variable bounds; normalize_vect and "
                      "project_into_bounds from ANY well-formed state (they refresh the cache themselves; projection: inside unchanged, outside onto the bound, result within "
                      "the bounds); check_membership(array) raises ValueError iff some component is outside the CURRENT per-variable bounds (+- tolerance) whatever the "
                      "history; __check_membership(dict) checks EVERY variable (None skipped): ValueError iff wrong size / out of bounds / non-integer value of an integer "
                      "variable; filter_dimensions filters bounds AND policy (one policy entry per component afterwards); unnormalize_vect WITH integer variables (points: "
                      "affine map then numpy.round on integer components; gradients, minus_lb=False: pure scaling, no rounding) and normalize_grad / unnormalize_grad as the "
                      "matching linear scalings with or without integer variables; transform_vect / untransform_vect = normalize_vect / unnormalize_vect for points; VALUES (contracts/c02_values.py): convert_array_to_dict (the real loop of split_array_to_dict_of_arrays, inlined, under an invariant) gives one entry per variable in the variable order, the value of `name` being the block x[start(name) : start(name)+size(name)] - the inverse of convert_dict_to_array (LosslessConversionLemmas: array -> dict -> array and dict -> array -> dict give back every component); set_current_value(array): ValueError unless `dimension` components, every variable gets its block (integer part for an integer variable), status flag refreshed, cached copies dropped; set_current_value(dict of arrays): exactly the entries whose key is a variable are stored, flag = every variable has a value; get_current_value() as an array: KeyError iff the flag is off, otherwise the concatenation of the per-variable values at the index ranges (cache hit or not); induction lemmas: offsets of the concatenation = index-range starts, index ranges "
                      "within [0, dimension), every component has an owner variable, increasing => pairwise increasing.",
        "level_note": "Trusted: pyvc with its ordered-dict model, numpy model (npmodel.py + pyvc/plug_c02.py: sequences of vectors built by comprehensions, concatenate of a "
                      "sequence of vectors at the prefix sums of the lengths (plug_c14's hstack model, its two consequences re-used), nonzero triggers, Variable(...) with "
                      "precise bounds), z3, reals for floats (an infinite bound is a tagged real: order comparisons with infinite bounds are not faithful, clauses about "
                      "projection are stated for finite bounds); pydantic's Variable is a modelled record (validation = an uninterpreted predicate; bounds of `size` "
                      "components); bound arrays are real vectors (an int64 bound array is its real image). ASSUMED contracts: _check_value, _check_current_value, "
                      "get_current_value (frame only), __get_common_dtype of the current values (float or integer dtype: complex not covered), __is_integer of a scalar (a "
                      "deterministic predicate), and - restated for the link-level schema, verified under the structural one - set_current_variable / "
                      "__update_current_metadata. Cited induction lemmas are proved as lemma contracts over uninterpreted index-range functions and instantiated at the "
                      "design space's ranges (hypotheses of each citation are proved obligations). KNOWN FINDING: unnormalize_vect casts the whole result to int64 when the "
                      "common dtype of the current values is an integer dtype although some variable is a float variable (known_findings.json). "
                      "Value level: an int64 array is represented by its real image (astype(int64) = truncation), stored values are arrays (a None entry is not covered there), __update_current_metadata restated (verified structurally) and _check_current_names assumed (ValueError or nothing), OptimizationResult form not covered. Not covered: filter, extend, get_current_value for a subset / as a dict / normalised, conversions and bounds "
                      "for a SUBSET of names, get_indexed_variable_names, get_variables_indexes, check, __eq__, initialize_missing_current_values, to_scalar_variables, "
                      "`out=` arguments, batches (C14), sparse inputs, complex dtype, file I/O; preservation of the link-level "
                      "invariants (policy = policy of the variable) by the mutators other than filter_dimensions / _add_norm_policy is proved only at the structural level.",
        "design_ref": "DESIGN.md §4 C02",
        "assumptions": ["pydantic Variable: construction / assignment raises ValueError or yields size >= 1 and bounds of `size` components (modelled record)",
                        "current values are real or integer arrays (no complex dtype); __is_integer(x) is a deterministic predicate of the scalar x",
                        "numpy.concatenate of a sequence of vectors places the blocks at the prefix sums of their lengths (offset function + monotonicity / block-of-position, "
                        "proved by induction under C14 HstackLemmas); numpy.round uninterpreted with ground axioms (integer-valued)",
                        "floats are reals; +-inf bounds are tags on reals (comparisons `!= inf` exact, order comparisons with an infinite bound not faithful)",
                        "link-level restatements of set_current_variable / __update_current_metadata / get_current_value (verified or assumed at the structural level)"],
        "not_covered": ["filter", "extend", "set_current_value(OptimizationResult) / None entries", "get_current_value for a subset of names, as a dict, normalised", "conversions / bounds for a subset of variable names",
                        "get_indexed_variable_names / get_variables_indexes", "check / __eq__", "out= arguments, sparse, complex"],
        "modules": ["contracts.c02_design_space", "contracts.c02_normalization", "contracts.c02_more", "contracts.c02_values"],
    },
    "C01": {
        "level_text": "Proof, function by function and for all inputs, of the database lookup / compute / store protocol of ProblemFunction: a recorded point is "
                      "served from the database without calling the user's callables (ghost call log unchanged), a miss returns what the evaluation "
                      "sequence computes and records exactly that value (the unnormalised Jacobian in the normalised case) under the physical point, "
                      "every other database entry untouched; Database.store / get_function_value as whole-map postconditions. "
                      "Composition: EvaluationProblem._preprocess_function (all five branches, any function / dense linear function) hands the ProblemFunction "
                      "exactly F o R? o U? and normalize_grad? o dense? o J o R? o U? as selected by (normalized, round_ints, sparse support), the matching "
                      "with_normalized_inputs flag, the database or None, counter and store_jacobian; preprocess_functions keeps the rounding option iff SOME "
                      "design variable has an integer component, replaces every function of every collection and every named function by its preprocessed "
                      "version with these flags (physical inputs for new-iteration observables), and does nothing when already preprocessed (loop invariant, "
                      "any number of functions). MDOLinearFunction.normalize: scaled coefficients (dense matrix: A diag(s); CSR: data[p] s[indices[p]] in fresh "
                      "arrays), offset computed from the ORIGINAL coefficients, result.func(xn) = self.func(U(xn)) by an induction lemma, and the frame: "
                      "the coefficients and every attribute of self but last_eval/dim are unchanged. "
                      "Restart (contracts/c12_backup_clauses.py, set_optimization_history_backup@restart): with load=True and an existing backup file an empty database "
                      "holds, before the run, exactly the points of the file in file order (index level of the C11 reader) - the points the memoisation clauses above "
                      "then serve without calling the original functions - and evaluation_counter.current = len(database).",
        "level_note": "Trusted: pyvc, z3; arrays are opaque contents (HashableNdarray equality = content equality, byte-level caveats such as -0.0/dtype ignored); "
                      "the user's callables are deterministic uninterpreted functions; unnormalize_vect/normalize_grad/unnormalize_grad are uninterpreted here "
                      "(their arithmetic is proved under C02). Preprocessing part: precise numpy model for dense linear functions, scipy CSR matrices "
                      "modelled abstractly (three mutable heap arrays, CSR matrix-vector product uninterpreted: pyvc/plug_c01.py); the ProblemFunction constructor is a "
                      "record model capturing its arguments; ASSUMED contracts: DesignSpace.get_lower_bounds/get_upper_bounds/convert_dict_to_array(normalize) (abstract "
                      "view of the space), Functions.__check_function_type, EvaluationProblem.check, expression-string builders of MDOLinearFunction, and the abstract "
                      "summary pp(f, flags) of _preprocess_function used inside preprocess_functions (functions are opaque identities there; collections of "
                      "fixed shapes [observables, new_iter_observables] and [constraints, observables, new_iter_observables] + `_objective`). "
                      "Not covered: sparse linear function at the _preprocess_function call site, sparse Jacobians at evaluation time, tolerance lookup.",
        "design_ref": "DESIGN.md §4 C01",
        "modules": ["contracts.c01_c03_evaluation", "contracts.c01_preprocessing", "contracts.c02_more", "contracts.c12_backup_clauses"],
        "assumptions": ["DesignSpace.get_lower_bounds()/get_upper_bounds() return the bound vectors, convert_dict_to_array(normalize) the per-component normalisation policies",
                        "ProblemFunction.__init__ stores its arguments (record model); it passes f_type=function.f_type",
                        "csr_matvec: the CSR matrix-vector product is a function of the contents of indptr/indices/data and of the vector (row sums not interpreted)",
                        "MDOFunction.generate_input_names, MDOLinearFunction._generate_1d_expr/_generate_nd_expr only build strings",
                        "EvaluationProblem.check only validates (may rewrite differentiation_step); Functions.__check_function_type raises iff the type is not authorized",
                        "the linear function is defined over the design space (coefficients.shape[1] == dimension) and its offset has one entry per row (class invariant)"],
        "not_covered": ["_preprocess_function with a SPARSE linear function (normalize@sparse is verified on its own)", "row-sum semantics of CSR products",
                        "ProblemFunction.__init__ body (selection of _compute_*_db[_norm], gradient approximator replacing J-seq)", "_convert_array_to_dense (assumed value-preserving)",
                        "sparse Jacobian branches at evaluation time", "Database tolerance > 0 lookup", "problems whose _sequence_of_functions / _function_names have another shape than the two verified ones"],
    },
    "C03": {
        "level_text": "Proof of the evaluation-budget mechanism on gemseo's side of the algorithm/problem interface, hence for every algorithm: each "
                      "database-assisted evaluation creates at most one new non-empty entry and only while the counter is below its maximum "
                      "(MaxIterReachedException is raised before the user's callable is invoked otherwise); Database.store notifies the new-iteration "
                      "listeners exactly when a new non-empty entry appears; the driver callback adds exactly one to the counter per notification; "
                      "the budget invariant and its corollary 'at most N new entries' are then SMT lemmas over these contracts. "
                      "Driver side (contracts/c03_driver.py), on the real source of BaseDriverLibrary.execute: for an OptimizationProblem every path through "
                      "_pre_run / _run - normal return or ANY TerminationCriterion (the class hierarchy of stop_criteria.py is read from the source; a lemma "
                      "checks on the AST that the one try guarding both calls catches each of the 8 classes) - ends with a non-None result built by "
                      "from_optimization_problem from the database as the run left it (_get_result on the normal path, _get_early_stopping_result on the "
                      "exceptional one, with the documented message per criterion and no status: one verified variant per criterion class); the driver callback "
                      "(and the new-iteration observables) are registered in the database before _pre_run (precondition of the run summary, proved at the call "
                      "site), exactly the listeners this execution added are removed afterwards on both paths (Database.__add_listener / add_*_listener / "
                      "clear_listeners / _clear_listeners verified, loop invariant over the driver's own listener set; duplicate-freeness of the listener list "
                      "is preserved), the driver's own listener set is empty again and self._problem is None; a plain EvaluationProblem gets result None. "
                      "_init_iter_observer sets maximum = max_iter and resets the counter iff reset_iteration_counters. BaseToleranceTester.check raises its "
                      "criterion exactly when it is met and raise_exception is set; is_x_tol_reached / is_f_tol_reached route their tolerances unswapped and "
                      "never raise; BaseOptimizationLibrary._new_iteration_callback counts once (also when stopping) and raises Ftol before Xtol. Sequential "
                      "DOE loop (BaseDOELibrary._run, n_processes <= 1): loop invariant 'samples 0..k-1 have each been handed once, in order, to "
                      "EvaluationProblem.evaluate_functions' (ghost evaluation log), a failing sample (ValueError) is skipped, termination criteria propagate, "
                      "nothing else is raised; with Database.store's order clauses an induction lemma gives: keys created by earlier samples precede keys "
                      "created by later ones. Parallel DOE branch (_run@parallel, n_processes > 1, use_database): loop invariant of the pre-registration loop - after k "
                      "iterations every PHYSICAL sample self.samples[j], j < k, has a database entry, existing keys keep their positions, and the new keys stand "
                      "in the order of their first occurrences (first-index function) - stated over self.samples whatever the loop iterates; the parallel execution "
                      "is the summary of the C13 contract (each callback exactly once per successful task, ANY order) composed with the verified contract of the "
                      "callback __store_in_database (outputs of sample `index`, Jacobians under the gradient names, stored under the key of self.samples[index]; order "
                      "kept), its precondition 'every sample has a registered entry' being proved at the call site; induction lemmas (ParallelStoreLemmas) show that "
                      "the summary's clauses hold for every completion order (arbitrary permutation); after remove_empty_entries: every successfully evaluated "
                      "sample is recorded with the names of its own outputs/Jacobians, the recorded new keys stand in generation order, only sample keys were added "
                      "and no empty placeholder is left. Two budget clauses FAIL on the pinned tree and are recorded as known findings, each proved outside its failing "
                      "region and replayed on the real code at every run: 'LagrangeMultipliers.__init__ leaves the evaluation counter of the problem "
                      "unchanged' (region counter-is-nonzero) and 'once the maximum is reached the evaluation entry points of ProblemFunction evaluate nothing' "
                      "for the entry points used without a database (_compute_output / _compute_jacobian@no-database, region database-not-used). "
                      "Backup listener (contracts/c12_backup_clauses.py, the contract-expressible part of C12): Database.store@c12 - the stored point is registered in the "
                      "export buffer and BOTH notifications happen after the point is recorded and registered (preconditions of notify_*_listeners@c12, proved at their only "
                      "call sites); EvaluationProblem.add_listener registers a store listener iff at_each_function_call and a new-iteration listener iff at_each_iteration; "
                      "BaseScenario.set_optimization_history_backup: ValueError iff the file exists and erase and load; the backup callback becomes store / new-iteration "
                      "listener as selected (+ the plot callback), other listeners keep their places; the file is removed iff erase; with load the database is updated "
                      "from the file (an empty database then holds exactly the file's points in file order) and evaluation_counter.current = len(database); otherwise "
                      "database and counter are untouched; no file handle left open. (Observation: _init_iter_observer resets the restored counter to 0 unless "
                      "reset_iteration_counters=False - proved as 'counter-reset-or-kept'.)",
        "level_note": "Trusted: pyvc, z3; opaque arrays; listeners are opaque callables logged in a ghost call log (their effect on the counter is linked by the lemma, "
                      "not by store's frame). Driver side: plugin pyvc/plug_c03.py (bound methods as opaque callables compared by (object, name); list "
                      "membership as a function symbol whose handed-over consequences are proved in ListMembershipLemmas; list.remove; logging-only branches "
                      "and the OneLineLogging/nullcontext choice do not fork). ASSUMED thin summaries (listed per function in the evidence): _check_algorithm, "
                      "_check_integer_handling, _validate_settings (returns a dict with every BaseDriverSettings field - field names checked against the source), "
                      "problem.check, preprocess_functions (verified under C01), progress bars, _post_run, OptimizationResult.from_optimization_problem, "
                      "EvaluationProblem.get_functions / evaluate_functions, the numerical tolerance tests ObjectiveToleranceTester._check / "
                      "DesignToleranceTester._check, and the run summary of the abstract _pre_run / _run: they go through ProblemFunction only, keep the listener "
                      "lists, return or raise a TerminationCriterion (represented in execute by MaxIterReachedException and the base class = a subclass unknown "
                      "to the code). The KeyError of _get_result for feasible points without objective value (shared with C04) is repaired in /repo (b727d31). "
                      "Known findings (known_findings.json, confirmed by contracts/rt_c03.py on every run): (a) LagrangeMultipliers.__init__ resets the evaluation "
                      "counter (reset(current_iter=True) by default) - with a KKT tolerance it is built at every stored point, so L-BFGS-B max_iter=5 "
                      "kkt_tol_abs=1e-12 creates 30 database entries; OptimizationProblem/EvaluationProblem.reset is an assumed thin summary whose counter clause is "
                      "checked against the source AST (ResetCounterClauseMatchesSource); (b) with use_database=False nothing tests the budget and nothing "
                      "increments the counter: max_iter=5 gives 32 (L-BFGS-B), 45 (SLSQP), 8 (NLOPT_COBYLA) objective calls.",
        "design_ref": "DESIGN.md §4 C03",
        "runtime": "contracts.rt_c03",
        "modules": ["contracts.c01_c03_evaluation", "contracts.c03_driver", "contracts.c12_backup_clauses"],
        "assumptions": [
            "run summary (_RunPhase) of every _pre_run/_run override: evaluations go through ProblemFunction; the database's listener lists, the driver's own listener set and "
            "its settings fields are kept; only TerminationCriterion subclasses (or ValueError from _pre_run validation) are raised",
            "class invariants used as preconditions of execute: the driver's own listener set is empty between executions (established by __init__, re-established by every "
            "terminating execute - proved), the database's new-iteration listener list is duplicate-free (preserved by add/clear - proved)",
            "execute is analysed with the **settings passed by the caller replaced by the validated settings dictionary (assumed to hold every BaseDriverSettings field)",
            "c03_lmem(n, E, f) is defined as `exists i. 0 <= i < n and E[i] == f`; the first-occurrence choice of list.remove is CPython's",
            "DOE: user callbacks of the sequential loop are the default (none); samples are a sequence of opaque rows",
            "parallel DOE: CallableParallelExecution.execute(self.samples, exec_callback=[self.__store_in_database]) is the summary of its C13 contract; c03_task_ok / "
            "c03_task_data / c03_task_jac name the outcome of task i (the worker's evaluation happens in another process and is not tracked); "
            "Database.remove_empty_entries is an assumed summary (exactly the entries without output are removed, relative order kept) whose body shape is checked on the AST; "
            "c03_first_index(key) is DEFINED as the index of the first sample with that key; `problem` is `self._problem` (execute binds the driver before the run)",
        ],
        "not_covered": ["use_database=False: known finding (no budget clause holds; only the failing clause on the two entry points is stated)",
                        "kkt_residual_computation, _KKTChecker, KKTConditionsTester, LagrangeMultipliers.compute (only LagrangeMultipliers.__init__ is under contract: known finding); "
                        "bodies of EvaluationProblem.reset / OptimizationProblem.reset (assumed summary, counter clause checked on the AST)",
                        "BaseOptimizationLibrary._pre_run / BaseDOELibrary._pre_run bodies (summarised), parallel DOE: user callbacks, use_database=False, values (not only names) of the recorded outputs after the whole branch, listeners notified by the stores; sequential DOE user callbacks; a sample failing part-way is kept (partial entry) by the sequential branch and dropped by "
                        "the parallel one (observation, replayed natively)",
                        "OptimizationResult.from_optimization_problem body (assumed; KeyError region of the C04 finding)", "third-party optimiser wrappers (_run of each library)",
                        "restart clause: BaseScenario.set_optimization_history_backup sets evaluation_counter.current = len(database) after loading a backup (pathlib / HDF I/O "
                        "not modelled); note that _init_iter_observer resets the counter to 0 unless reset_iteration_counters=False",
                        "execute raising a non-termination exception from _run leaves the listeners registered (no try/finally in gemseo; outside the property)"],
    },
    "C05": {
        "level_text": "Proof (function by function, all inputs, all histories by invariant preservation) that (1) SimpleCache implements a one-entry map from "
                      "input content to (outputs, Jacobian) and never keeps a reference to an array the caller passed in; (2) BaseFullCache "
                      "(cache_outputs, cache_jacobian, __getitem__ exact and with tolerance, last_entry, clear, __len__ and their helpers) refines a finite "
                      "map from input content to (outputs?, Jacobian?) under a representation invariant of the hash buckets, with hash_data an uninterpreted "
                      "(colliding) function of the content, relative to the specification of the four abstract storage methods; (3) MemoryFullCache's "
                      "storage methods satisfy that specification (behavioural subtyping), freshness of the stored arrays included (repaired: e3d0f65); (4) "
                      "BaseDiscipline.execute with the default SimpleCache runs the body iff the lookup returned no outputs, returns the inputs merged "
                      "with the cached outputs on a hit and stores (pristine prepared inputs, produced outputs) on a miss; (5) HDF5Cache is a behavioural subtype "
                      "of the same storage specification (contracts/c05_more.py): _initialize_entry (inherited), _has_group, _read_data, _write_data satisfy the four "
                      "storage contracts over the model field `_store` kept COUPLED with the abstract cache file of HDF5FileSingleton (coupling invariant: same groups, "
                      "same names, every stored array is what its dataset decodes to, entries named by positive integers carrying the hash of their inputs), so every "
                      "BaseFullCache theorem holds for HDF5Cache; HDF5Cache.clear empties file and table; HDF5FileSingleton.read_hashes / HDF5Cache._read_hashes "
                      "rebuild, from a file a previous session left, a hash table satisfying the representation invariant over the SAME abstract entries (a reopened "
                      "cache serves the same entries); HDF5FileSingleton.has_group / clear; (6) get_all_entries / __iter__ of BaseFullCache, HDF5Cache and SimpleCache "
                      "enumerate the entries 1..len(cache) in index order with their stored inputs, outputs and Jacobian. The call-site preconditions the storage "
                      "specification needs for a file-based store (index unused / group absent / inputs written first / index >= 1 / inputs present) are proved at every "
                      "call site of BaseFullCache, with the new invariant clause `nothing is stored beyond max_index`; (7) BaseDiscipline.__can_load_cache with a FULL "
                      "cache (data-converter branch, exact matching): True iff the entry of the input data has outputs, the local data are the inputs merged with the "
                      "converted cached outputs, and nothing of the cache changes - in particular no dictionary the cache handed out is written to: the results of the "
                      "read contracts (_read_data, __getitem__, last_entry, _read_input_output_data) are registered as POSSIBLE ALIASES of the stored entry "
                      "(MemoryFullCache(is_memory_shared=False) returns the stored dictionary itself), any write into one sets the ghost `fc_entry_written`, which no "
                      "contract has in its frame; (8) Discipline.linearize / execute / _store_cache / _set_data_from_cache / __compute_jacobian / _get_differentiated_io with the default "
                      "SimpleCache (contracts/c05_linearize.py; BaseDiscipline.execute, __can_load_cache, _store_cache re-verified for a Discipline receiver): a lookup returning "
                      "outputs and a Jacobian covering the requested outputs x inputs returns that Jacobian without computing or running anything; otherwise the Jacobian is "
                      "computed exactly once (at most once when the run provides one), restricted to the differentiated outputs x inputs (all grammar names with "
                      "compute_all_jacobians), and cached under the prepared inputs as passed; execute resets _has_jacobian so that a Jacobian is flagged valid only if loaded "
                      "with the entry or provided by that very run; (9) BaseDiscipline.execute / _store_cache / __create_input_data_for_cache with a FULL cache "
                      "(contracts/c05_execute_full.py, exact matching, through the verified BaseFullCache contracts): on a hit (an entry filed under the content of the prepared "
                      "input data has outputs) the body does not run, the returned data are the inputs merged with the converted stored outputs and nothing of the cache changes; on "
                      "a miss the body runs exactly once and the cache then holds, under the prepared input data as they were at the call (converted to arrays), the returned outputs "
                      "(converted, restricted to the output names), stored as copies; an entry that had outputs keeps them whatever happens.",
        "level_note": "Trusted: pyvc VC generator and its dict/list/set models, z3/cvc5, arrays as opaque contents in a symbolic heap (allocation only, no "
                      "in-place modification inside the verified functions), compare_dict_of_arrays / hash_data / flatten-nest of Jacobians assumed, "
                      "ghost code in __ensure_input_data_exists (ghost variables only), DictProxy stores pickled copies, IO/grammar/_run environment of "
                      "execute assumed; HDF5Cache: abstract h5py/scipy model of the cache file (C11 assumptions), model code maintaining the model field `_store` "
                      "(pyvc/plug_c05more.py), open/close protocol of the file handle assumed. Not covered: locking, execute with a full cache (data converters).",
        "design_ref": "DESIGN.md §4 C05",
        "modules": ["contracts.c05_caches", "contracts.c05_full_cache", "contracts.c05_discipline", "contracts.c11_hdf5_cache_file", "contracts.c05_more", "contracts.c05_execute_full"],
        "runtime": "contracts.rt_c05",
        "assumptions": [
            "arrays are opaque values compared by content; numpy's `!=`/norm inside compare_dict_of_arrays are not modelled: tolerance 0 = equal contents, "
            "tolerance t>0 = an uninterpreted predicate of the two contents and t",
            "hash_data is an arbitrary (possibly colliding) deterministic function of the content of the input data",
            "Jacobian data are dicts of arrays keyed by (output, input) pairs; flatten_nested_bilevel_dict / nest_flat_bilevel_dict are inverse key renamings sharing the arrays "
            "(rectangular Jacobians, separator not occurring in names)",
            "the abstract storage methods of BaseFullCache (_initialize_entry/_has_group/_read_data/_write_data) are specifications over a model field; verified for MemoryFullCache and HDF5Cache",
            "HDF5Cache: the model field `_store` is updated by model code next to the file writes (fresh arrays holding the written contents); one HDF5Cache object per node of a file "
            "(another object or process writing the same node breaks the coupling invariant); data handed to the cache are numeric or str arrays and numeric dense or sparse Jacobians "
            "(no bytes array, no sparse str array); at the cache level the content of a sparse array IS the matrix it denotes (a CSC/COO Jacobian is read back as the CSR array of the same "
            "matrix); h5 paths and str(int) are injective; int(array([h], dtype='bytes')[0]) == h; exists(path) false implies no node; `del file[node]` removes the node with its entries",
            "HDF5FileSingleton.__open is not verified: `with self.__open()` gives access to the persistent content, and inside keep_open a file operation leaves the handle open, outside it "
            "closed (assumed clause `file-handle` of HDF5Cache._read_data); keep_open itself IS verified on the real source for an arbitrary state of the handle (no handle left open, no "
            "exception; __close assumed, its assert being its precondition) and summarised by that contract inside HDF5Cache.get_all_entries",
            "BaseFullCache._all_groups (sorted(chain(*tolist()))) is assumed to be [1..max_index] under the representation invariant",
            "Discipline.jac is a nested dict of array addresses; SimpleCache stores it as is and its contracts see it as the flat dict of blocks keyed by an injective "
            "jac_pair_key(output, input) (plugin conversion pyvc/plug_c05lin.py; 'no empty row' is a proved obligation where a Jacobian is handed to the cache, assumed on what the cache returns)",
            "_run may provide a Jacobian (run_sets_jacobian(run number)), _compute_jacobian / DisciplineJacApprox.compute_approx_jac bind allocated Jacobian data without empty row and do not "
            "modify existing arrays (ghosts disc_linearizations, disc_lin_jac); ExecutionStatus.handle calls its callable exactly once",
            "_check_jacobian_shape assumed: KeyError only if a requested output/input is missing, ValueError unconstrained (shapes not modelled), nothing changed on a raise, otherwise blocks "
            "replaced by their real parts",
            "closeness with tolerance is reflexive; prepare_input_data is idempotent; _jac_approx is not None in an approximation mode",
            "data converters: convert_array_to_value(name, array) is a function of the name and of the content of the array and does not modify the array (a Python scalar/str value is an "
            "opaque content in the array heap); convert_value_to_array likewise; a dictionary returned by a cache read may be the stored one - `d.copy()` is not; execute with a full cache "
            "looks the entry up under the content of the prepared data and files it under their CONVERTED content (equal for array-typed inputs; the relation between the two is not assumed)",
            "a multiprocessing manager DictProxy stores a pickled deep copy of an assigned value (MemoryFullCache(is_memory_shared=True))",
            "multiprocessing.Value cells and the index arrays of _hashes_to_indices are modelled as integer cells / lists of integers; lock decorators are identity",
            "BaseDiscipline.execute: SimpleCache policy, no data processor, grammar validation has no effect, prepare_input_data is a function of the data passed in, "
            "_run (through _execute_monitored) allocates but does not modify existing arrays in place",
        ],
        "not_covered": ["HDF5Cache.__init__ (construction of the singleton file handler, file format version check), _copy_empty_cache, update_file_format, __getstate__/__setstate__ (C20); "
                        "that the file a NEW session finds satisfies the invariants the previous session left it with is the precondition of _read_hashes (nothing else writes the node)",
                        "multi-process locking; two HDF5Cache objects on the same node",
                        "linearize with a full cache or without cache; _check_jacobian_shape / _init_jacobian / array shapes; perturbed executions of the Jacobian approximation; "
                        "_linearize_on_last_state subclasses; consequences of SimpleCache keeping self.jac by reference (known finding)",
                        "execute with a full cache and a tolerance > 0, with virtual_execution or a data processor; Discipline (Jacobian-storing override of _store_cache) with a full cache", "in-place modification of inputs by _run",
                        "BaseCache.input_names/output_names/names_to_sizes (cached names), update, __add__, __setitem__, to_dataset (pandas), to_ggobi; MemoryFullCache.copy",
                        "arrays returned by a lookup are shared with the cache (SimpleCache, MemoryFullCache not shared): modifying them in place changes the cached entry",
                        "compare_dict_of_arrays itself (assumed contract)"],
    },
    "C13": {
        "level_text": "Proof, for an arbitrary number of tasks and workers, an arbitrary completion order (any permutation of the results in the out-queue) and an "
                      "arbitrary set of failing tasks, that CallableParallelExecution.execute returns the outputs positionally matched to the inputs, calls every "
                      "callback exactly once per successful task with the matching (index, output), confines a failure to its own slot, re-raises the first "
                      "received exception of a listed class and always terminates and joins its workers; proof of the worker loop (_execute_workers: exactly one "
                      "result per task taken, on the normal and on the exception path) and of _TaskCallables.__call__.",
        "level_note": "The OS scheduler and the queue implementation are outside of the logic: the queue contract (exactly-once delivery, arbitrary order) is an "
                      "assumption, under which the order-sensitive sequential code is proved for every delivery order. Parallel forward finite differences "
                      "(FirstOrderFD._compute_parallel_grad, contracts/c16_approx.py) , the parallel complex step (ComplexStep._compute_parallel_grad, contracts/c16_complex.py), the parallel centered differences and f_gradient in parallel mode (contracts/c16_discipline.py) are proved to return exactly the quotients of the sequential _compute_grad (same "
                      "postcondition, which determines the result) through the positional summary of execute. Shared full caches (\"including when workers share a cache\"): the per-operation contracts of BaseFullCache / MemoryFullCache (contracts/c05_full_cache.py, also C05) state every operation over the WHOLE abstract store for an arbitrary prior history - cache_outputs / cache_jacobian address the entry whose inputs match, whatever entry another worker created or accessed last - so that any interleaving of the operations of several workers (each operation atomic under the cache lock, assumed) yields the store of a sequential execution of the same operations. Disciplines, linearization and chains (contracts/c13_disciplines.py, the verified contract of execute being the callee "
                      "summary of super().execute): DiscParallelExecution.execute returns the positional list and, with one discipline per input, leaves in discipline i of the ORIGINAL list the data of "
                      "worker result i (the last successful task of a discipline listed twice wins; a failed task leaves its discipline untouched with processes); _Functor.__call__ and "
                      "DiscParallelLinearization.execute likewise for (local data, Jacobian), the returned list of Jacobians being positional OUTSIDE the known finding (failed tasks are dropped from it); "
                      "MDOParallelChain._execute leaves in io.data the update, in list order, with the outputs of every discipline executed on the chain's data (later discipline wins) OUTSIDE the known "
                      "finding (a failed discipline / a single discipline with processes: stale data or KeyError). The parallel branch of BaseDOELibrary._run and the other derivative approximators are not under contract.",
        "design_ref": "DESIGN.md §4 C13",
        "runtime": "contracts.rt_c13",
        "modules": ["contracts.c13_parallel", "contracts.c16_approx", "contracts.c16_complex", "contracts.c16_discipline", "contracts.c05_full_cache", "contracts.c13_disciplines"],
        "assumptions": [
            "queue contract: every item put in a queue is delivered exactly once, to exactly one getter, in an arbitrary order; every started worker runs "
            "_execute_workers to completion (fairness/termination of the scheduler)",
            "user tasks have a deterministic outcome (value or exception) that depends only on the callable and its input, and do not touch the state of "
            "the caller; process-based workers operate on pickled copies with the same behaviour (C20)",
            "callbacks return normally; exceptions_to_re_raise only contains exception classes; n_processes >= 1 (PositiveInt in all settings)",
            "POSIX platform; a process named 'subprocess' is a (daemonic) gemseo worker",
            "c13_disciplines: a discipline is an opaque value; its local data / Jacobian / parent-side counters are ghost maps; Discipline.execute returns its (non-None) data holding every "
            "output name, Discipline.linearize is deterministic (lin_data / lin_jac / lin_raises); the representation invariants set by the constructors (worker i = task callable of discipline i; "
            "the chain's parallel execution runs the chain's disciplines with exceptions_to_re_raise=()) are preconditions; effect of THREAD workers on the shared disciplines (assumed, ghost "
            "definition before the write-back): with pairwise distinct disciplines, one per input, discipline i holds result i if task i succeeded (unspecified if it failed), unlisted "
            "disciplines untouched - process workers have no effect on the caller's disciplines; MDOParallelChain._get_input_data_copies is an assumed (trusted) summary; cited lemma: a filtered "
            "sub-sequence keeping every item is the whole sequence; MULTI_PROCESSING_START_METHOD and ExecutionStatistics.is_enabled are arbitrary",
        ],
        "not_covered": ["_check_unicity (set cardinality)", "parallel DOE (BaseDOELibrary._run parallel branch, __store_in_database) / compute_optimal_step of the gradient approximators; the constructors of "
                        "DiscParallelExecution / DiscParallelLinearization / MDOParallelChain (their representation invariants are preconditions); MDOParallelChain._compute_jacobian; worker-side "
                        "statistics counters (shared memory under fork)",
                        "the lock protocol of shared caches under true concurrency (each cache operation is treated as atomic)", "pickling of workers and data (C20)"],
    },
    "C08": {
        "level_text": "Proof (all inputs, unbounded number of disciplines) that DependencyGraph builds the dependency graph of the name sets, that the "
                      "leaf-peeling loop of get_execution_sequence terminates and returns a valid schedule (every discipline exactly once; groups = classes of "
                      "mutual dependency, listed in the caller's order; a group strictly after every group producing one of its inputs), that the strong/weak/all coupling sets and the "
                      "strongly/weakly coupled disciplines (both return shapes; every discipline strongly xor weakly coupled; strong couplings = union over the groups needing an MDA of inputs(group) & outputs(group), per group) "
                      "computed by CouplingStructure are the set identities implied by the name sets, and that MDOChain._execute is the exact left fold of "
                      "update(d.execute(data)) in list order, and that MDAChain._create_mdo_chain (with __create_process_from_disciplines, __compute_parallel_disciplines, __requires_mda) builds "
                      "one process per stage in sequence order, one per group inside a stage, an inner MDA over exactly the disciplines of the group iff the group has several "
                      "disciplines or a self-coupled one (not itself an MDA), else the discipline itself. Relative to assumed contracts of three networkx functions and one cited lemma; see level_note.",
        "level_note": "Trusted: pyvc VC generator and its container models, z3/cvc5, the graph plugin pyvc/plug_graph.py (model of networkx.DiGraph as ordered node set + "
                      "edge relation + ghost removal history). Assumed: contracts of networkx.strongly_connected_components / condensation (incl. acyclicity as a rank "
                      "function), lemma 'a non-empty finite DAG has a sink'. Not proved: order-independence of the chain result (see not_covered).",
        "design_ref": "DESIGN.md §4 C08",
        "modules": ["contracts.c08_dependency", "contracts.c08_coupling", "contracts.c08_mdachain"],
        "assumptions": [
            "MDAChain: the inner-MDA class, MDOChain(...) and MDOParallelChain(...) are abstract constructors (uninterpreted functions of (class, disciplines, settings, sub coupling structure) / (processes, name) / (processes, settings) with observers); isinstance(d, BaseMDA) is an uninterpreted predicate of the discipline; the representation invariant coupling_structure.sequence = valid schedule is assumed (proved postcondition of get_execution_sequence); task_ok is a predicate defined by task_ok_definition (pyvc/plug_mdachain.py, contracts/c08_mdachain.py)",
            "a discipline is an opaque value; its input/output grammars are the name sets in_names(d)/out_names(d), not modified by the functions under contract",
            "networkx.strongly_connected_components(G) returns the partition of the nodes into classes of mutual reachability (reach = reflexive-transitive closure of the edge relation; only its closure axioms are used)",
            "networkx.condensation(G, scc): nodes 0..m-1 in the order of scc, node attribute members, mapping, an edge a->b iff a!=b and some member edge crosses, result acyclic (a rank function exists); its preconditions (scc = duplicate-free partition of the nodes) are proved at the call site",
            "DiGraph.nodes iterates in insertion order; add_nodes_from/add_edge/remove_nodes_from/out_degree/edges(data=...) as modelled in pyvc/plug_graph.py",
            "cited lemma (assumed, instantiated once when the peeling loop is left): a non-empty finite DAG (edges strictly decrease a rank into the naturals) has a node without successor",
            "Discipline.execute(data) returns a mapping that is a deterministic function of (discipline, content of data) and does not modify `data`",
            "sorted() of names: permutation only (the alphabetical order of the returned name lists is not modelled)",
            "representation invariant of CouplingStructure assumed by its methods: self.sequence is a valid schedule of self.graph (the proved postcondition of get_execution_sequence, with the ghost locations c08_stage/slot/idx)",
            "self_coupled(d) and strong_coupling(sequence, locations, nodes, x) are predicates *defined* by the axioms self_coupled_definition / strong_coupling_definition (conservative definitions, assumed where used)",
            "itertools.chain(*generator of sets) and set.update(*generator of sets) are described by their membership (skolemised union), only to be consumed as sets",
        ],
        "not_covered": [
            "lazy caching properties of CouplingStructure (strong_couplings, all_couplings, ...): get_output/input_couplings are verified reading the cached lists as they are",
            "order-independence of MDOChain results for acyclic systems (lemma over the fold), MDOChain._initialize_grammars, MDAChain.__init__/_initialize_grammars/execute",
            "MDAChain.__create_inner_mda_settings (pydantic: assumed), the inner MDA / MDOChain / MDOParallelChain constructors (abstract, uninterpreted); StopIteration of _create_mdo_chain when fewer sub coupling structures than inner MDAs are given is allowed but not characterised",
            "numerical equality of an MDA chain with a monolithic solve when cycles exist (C06)",
            "rendering functions of DependencyGraph, __get_leaves on a non-condensed graph",
        ],
    },
    "C09": {
        "level_text": "Proof, set level only (all graphs, all requested name lists): the selection computed by traverse_add_diff_io covers every edge p->c of the dependency "
                      "graph lying on a path from a discipline with a requested input to a discipline with a requested output (the coupling names of the edge are differentiated "
                      "outputs of p and differentiated inputs of c), a discipline with both a requested input and a requested output keeps all of them, and "
                      "Discipline.add_differentiated_inputs/outputs and _apply_diff_ios only ever add names (monotonic, exact sets). Function by function: _initialize_add_diff_io, "
                      "_bfs_one_way_diff_io, _merge_diff_ios, _merge_diff_io_special, _apply_diff_ios, traverse_add_diff_io, DependencyGraph.__create_graph. "
                      "Chains (contracts.c09_chains): MDOChain._compute_diff_in_outs - for ANY previously cached request (representation invariant of the cache: None, or a pair "
                      "of sets the disciplines already cover) the disciplines' differentiated inputs/outputs cover the CURRENT request as traverse_add_diff_io's contract says, nothing "
                      "is ever removed, and the cache stays valid (two variants: existing / not yet built coupling structure); MDOAdditiveChain._compute_jacobian - for any number of "
                      "disciplines, summed outputs and requested inputs (loop invariants) the block of every summed output w.r.t. every requested input has the variables' sizes and is "
                      "the sum, in chain order, of the blocks of the disciplines that have one (conditional fold cfold; no entry and no exception when none has one), the summed outputs have only requested inputs, every other "
                      "output keeps the entry the parallel chain computed, and the disciplines' own Jacobian arrays are not modified; plus a bounded stand-in (2 disciplines, 1 summed output, "
                      "1 input) that executes the code as written - comprehension, sum, in-place operators on the very arrays of the disciplines - with the sum written out explicitly. "
                      "MDOChain.copy_jacs (blocks = references into a symbolic heap of arrays): same outputs, same inputs per output, every block a FRESH array with the content of the source "
                      "block, the argument and every existing array untouched (two loop invariants). contracts.c09_numeric: copy_jacs on ONE row {input: block} (the flat-dictionary branch, the call made by "
                      "reverse_chain_rule): same inputs, every block a fresh array with the content of the source block, copies pairwise distinct, existing arrays untouched. "
                      "MDOChain.reverse_chain_rule (repaired source 53b5901; contracts.c09_numeric, blocks = references into the heap of arrays denoting matrices of the abstract ring of C07, three nested loop invariants, "
                      "any number of chain outputs / row entries / blocks): ONE exact step of the reverse accumulation - for every chain output o the running dictionary J holds and EVERY variable v, "
                      "J'[o][v] = (J[o][v] unless the discipline produces v) (+) sum over y in sorted(keys J[o] & keys D) with v in D[y] of J_entry[o][y] * D[y][v] (recursive ghost fold c09n_g over the sorted enumeration, "
                      "absent = structural zero; the entries of the produced variables are dropped unless re-created by the composition: overwritten and self-coupled variables included); a chain output J does not hold and "
                      "the discipline produces gets a fresh copy of D[o]; every other row, every array of the disciplines (watermark frame) and every popped block are untouched - the in-place += only hits blocks owned by "
                      "the row - and the blocks of J stay allocated, above the watermark and pairwise distinct. The composition of the steps by MDOChain._compute_jacobian (T_k recursion) is not addressed; see not_covered. "
                      "MDAChain._compute_jacobian: with chain_linearize the Jacobian is the one of the (abstract) inner chain at the CURRENT input data, the inner chain being re-executed at that "
                      "point (its state may be another point when the outputs came from a cache), and its differentiated names only grow; otherwise the (assumed) assembly result.",
        "level_note": "Chains: disciplines are opaque, their Jacobians a ghost dictionary of the chain (pyvc/plug_c09.py); ASSUMED: the summary of MDOParallelChain._compute_jacobian "
                      "(prophecy ghosts for what the parallel linearisation leaves in the disciplines and in self.jac), the constructor model of CouplingStructure (its graph is the "
                      "dependency graph specified by the contract verified on __create_graph), shapes of linearised blocks = variable sizes (what Discipline._check_jacobian_shape enforces), "
                      "sum(filtered comprehension) = conditional left fold. (The KeyError of the additive chain for a discipline without an entry for a summed output was found here "
                      "and repaired: ee4b1a3; the contract now proves: no exception, no entry when no discipline has a block.) Trusted: as C08 (graph plugin pyvc/plug_graph.py), the ghost maps of differentiated names for opaque disciplines. Assumed: contract of "
                      "networkx.edge_bfs/reverse_view; reach = reflexive-transitive closure (closure axioms). Not proved: requested endpoints of paths of length >= 1 "
                      "(needs the unfolding of reach), minimality of the selection, the Jacobian accumulation of MDOChain.",
        "design_ref": "DESIGN.md §4 C09",
        "modules": ["contracts.c09_chain_rule", "contracts.c09_chains", "contracts.c09_numeric", "contracts.c09_mdachain"],
        "assumptions": [
            "MDAChain._compute_jacobian (contracts/c09_mdachain.py): the inner MDO chain is an opaque discipline; linearize(data, execute) = [execute => its state point := content of data]; jac := Jac(discipline, state point, differentiated inputs, differentiated outputs) (ghost maps c09m_state / c09m_jac); IO.get_input_data() is a deterministic function of the content of io.data; BaseMDA._compute_jacobian (coupled adjoint through the Jacobian assembly, C07) is an assumed summary: self.jac := total derivatives at the current data for the requested names",
            "networkx.edge_bfs(G, source) enumerates exactly the edges whose tail is reachable from the source, each once; reverse_view(G) = same nodes, reversed edges with the same data",
            "reach = reflexive-transitive closure of the edge relation (closure axioms only)",
            "lset(list) is *defined* as the set of the elements of a list of names; the facts on lset added by the plugin for list.extend / list(set) / set(list) are consequences of that definition",
            "an opaque discipline reacts to add_differentiated_inputs/outputs as the contract verified on Discipline.add_differentiated_inputs/outputs states (ghost maps c09_diff_in/out)",
            "grammar.data_converter.is_continuous(name) is an uninterpreted predicate of (discipline, grammar, name); BaseGrammar.has_names(names) = set(keys).issuperset(names)",
            "a tuple of lists stored in a dict is stored by value; the lists it holds are tracked as the lists of that slot (aliasing between two mappings sharing a list, as created by _merge_diff_io_special, is not tracked)",
            "chains: discipline.jac of an opaque discipline is its slot in a ghost dictionary of the chain; a block read from it is the block of that slot (in-place writes are written back)",
            "chains: after MDOParallelChain._compute_jacobian every discipline's jac is a dictionary; blocks of the pair (o, x) have shape (size(o), size(x))",
            "chains: MDOChain class invariant - _coupling_structure is None implies _last_diff_inouts is None (both set by __init__, only _compute_diff_in_outs assigns them)",
            "chain rule (pyvc/plug_c09n.py): array blocks denote matrices of the abstract ring (a @ b / a + b allocate a fresh array denoting the product / sum, a += b updates a in place; shapes not modelled); "
            "discipline.linearize leaves in discipline.jac the dictionary of the ghost slot _c09n_disc_jacs[discipline] held in arrays existing at entry (at or below a watermark); sorted(set(a) & set(b)) and the iteration "
            "order of a dictionary are bijective enumerations (order itself not modelled); {x: d.pop(x) for x in names} = the popped entries in list order; the dictionary read from a slot of a dictionary of dictionaries "
            "is the live object already standing for that slot (reference semantics), also across loop iterations; definitional axioms of the step fold c09n_g and of the always-true trigger functions",
        ],
        "bounded_standins": ["MDOAdditiveChain._compute_jacobian@two-disciplines: 2 disciplines (possibly the same twice), 1 summed output, 1 requested input, symbolic names, shapes and block contents"],
        "not_covered": [
            "for a path of length >= 1: that the requested input x is a differentiated input of the first discipline and the requested output o a differentiated output of the last one (the contracts of _merge_diff_ios give it once a first/last edge is exhibited; exhibiting it needs the unfolding axiom of reach)",
            "exactness/minimality of the selection (only coverage is proved for the traversals and merges)",
            "ValueError of traverse_add_diff_io (allowed, not characterised; the state of the request cache after it is not specified)",
            "MDOChain._compute_jacobian: the composition of the verified steps of reverse_chain_rule over the disciplines in reverse order (T_k recursion, initial deep copy - needs the pairwise distinctness of the copies of a "
            "nested dictionary -, final filtering to the requested inputs) and Discipline._init_jacobian (zero blocks for independent pairs); in reverse_chain_rule: shapes of the blocks (ValueError of @ / +=), "
            "JacobianOperator blocks, the lexicographic order of sorted() (the fold is over the enumeration sorted() returns, whatever it is), that a local alias of a row stays bound to its slot across loop iterations (model assumption)",
            "copy_jacs: JacobianOperator blocks; pairwise distinctness of the fresh copies of a NESTED dictionary among themselves (proved for one row: copy_jacs@row)",
            "MDOParallelChain._compute_jacobian itself (assumed summary: parallel execution machinery, merge loop), MDAChain, nested combinations",
            "additive chain: that the disciplines' blocks are the exact Jacobians of the disciplines (opaque), sparse / JacobianOperator blocks, numpy broadcasting of blocks of unequal shapes",
            "the constructor of CouplingStructure (consistency check, execution sequence) - modelled, not executed",
        ],
    },
    "C15": {
        "level_text": "Proof (function by function, all inputs, unbounded) on the real source of RequiredNames, Defaults, SimpleGrammar and of the BaseGrammar template "
                      "methods (instantiated with SimpleGrammar's primitives) that every edit (update from names/types/data/another grammar with exclusions, restriction, "
                      "renaming, deletion, namespacing, clearing, copying, construction, defaults assignment) preserves the representation invariant WFG (required names and "
                      "default keys are element names, the two parts are bound to their own grammar, namespaced names are elements), changes the abstract view "
                      "(names->types, required set, defaults, namespace maps) exactly as specified and nothing else, that read-only queries change nothing, and that SimpleGrammar "
                      "validation raises InvalidDataError exactly when a required name is missing or a present typed element holds a non-instance (both directions). "
                      "For JSONGrammar (contracts/c15_json_grammar.py, the genson builder being an abstract object with ASSUMED add_schema/add_object/to_schema contracts): "
                      "proof of the CACHE-INVALIDATION PROTOCOL - every mutator (_delitem, _rename_element, _restrict_to, _clear, _update, _update_from_names/_types/_data, "
                      "update_from_schema) changes the builder's properties exactly as specified and re-establishes cache validity (a cached schema dictionary lists exactly the "
                      "current properties and keywords; a cached validator was compiled from a dictionary listing exactly the current properties, without 'required'), and the "
                      "queries schema, _create_validator, _validate, to_json rely on it, leave the definition unchanged and (validate) return the verdict of a validator "
                      "compiled from the CURRENT definition; schema/to_json list exactly the CURRENT required names (given WFG), validate() leaves the cached schema intact and "
                      "update_from_schema adds the schema's required names - the four defects found here were repaired (0717736, 63aba35, 02afd7d, e774076, see known_findings 'fixed') "
                      "and the clauses are proved without regions; the builder's `required` / `properties` views are verified on the genson representation "
                      "(_root_node._active_strategies[0]._required/_properties: the attached live containers). "
                      "Conversion (JSON <-> simple agreement on what both express): BaseGrammar.to_simple_grammar for JSON and pydantic receivers (SimpleGrammar returns itself) yields a NEW "
                      "well-formed SimpleGrammar - its Defaults / RequiredNames are bound to IT and checked against ITS elements - with the same names, required names, default VALUES (own "
                      "dictionary) and the types of JSONGrammar._get_names_to_types (JSON_TO_PYTHON_TYPES of the property's single `type` keyword, else None; total) "
                      "resp. PydanticGrammar._get_names_to_types; lemma on the REAL conversion tables (JSON->Python->JSON identity, Python->JSON->Python identity up to list/tuple->ndarray, "
                      "float->complex); the defaults setter also for a Defaults argument; JSONGrammar._copy (caches valid for the copy), update_from_file / to_file (delegation, file system "
                      "abstract). PydanticGrammar (contracts/c15_pydantic_grammar.py, pydantic abstract: create_model / model_rebuild / model_validate / model_json_schema assumed over "
                      "(model_fields, ghost built fields)): every mutator (_delitem, _rename_element, _restrict_to, _clear, _update, _update_from_names/_types, __update_from_annotations) "
                      "changes the fields exactly as specified and re-establishes MODEL VALIDITY (flag down => the model is built from the current fields); __rebuild_model / _validate honour "
                      "it (verdict of a model built from the CURRENT fields). PydanticGrammar.schema rebuilds first; PydanticGrammar._copy gives the copy its OWN model with a copied fields dictionary; the JSON conversion is total (no exception). The "
                      "four defects found here (d39649c, e892c2a, 4723ed2) are repaired and the clauses are proved without regions. The reference-validator agreement is NOT covered; see level_note.",
        "level_note": "Trusted: pyvc and its dict/set models; types and data values are opaque values and isinstance(value, type) is an uninterpreted predicate; the "
                      "collections.abc mixin methods the classes inherit (Mapping.__contains__/keys/items/get, MutableMapping.pop/update, MutableSet.__ior__/__iand__/remove/clear, "
                      "copy.copy of a plain instance) are modelled in pyvc/plug_grammars.py from their CPython definitions over the verified primitives (add, discard, __setitem__, "
                      "__delitem__, __getitem__, __iter__). BaseGrammar methods are verified for self: SimpleGrammar only (SimplerGrammar shares everything but _validate). "
                      "The check currently reports genuine violations on the pinned tree (BaseGrammar.__copy__ shares the required names with the original; rename_element drops a "
                      "None default; __delitem__/rename_element/restrict_to/update leave stale namespace entries) - see the report / known findings.",
        "design_ref": "DESIGN.md §4 C15",
        "modules": ["contracts.c15_grammars", "contracts.c15_json_grammar", "contracts.c15_pydantic_grammar"],
        "assumptions": [
            "type objects and data values are opaque; py_isinstance(value, type) and py_is_type(x) are uninterpreted; class objects (dict, Mapping, ndarray) are distinct type objects; type(v) is a type v is an instance of",
            "collections.abc mixins of RequiredNames/Defaults/grammars are summarised from their CPython source over the classes' verified primitives (pyvc/plug_grammars.py)",
            "an Iterable[str] argument (names, excluded_names, required_names) is represented by its set of elements; a StrKeyMapping argument by a dict",
            "update_namespaces: keys of the other map are added, other entries unchanged (values - a name or a list of names - are opaque); __create_data_converter only sets _data_converter",
            "distinct grammar arguments do not alias (g.update(g) is not covered)",
            "JSON grammars: genson builder = (properties dict, own required set or none, other root keywords never including properties/required/id, always $schema); assumed add_schema "
            "(replace/merge properties, INTERSECT the own required set), add_object, to_schema/to_json; `properties`/`required` are the live containers of the root strategy (`required` attaches an empty set when the strategy has none; a new empty set only without any strategy); "
            "fastjsonschema.compile depends only on the dictionary content; __cast_data_mapping keeps the keys; len(dict) >= number of distinguished keys it holds",
            "message construction (MultiLineString, f-strings, logging) is dropped",
        ],
        "not_covered": [
            "JSONGrammar: JSON-schema acceptance vs a reference validator (fastjsonschema.compile is a function of the schema dictionary, nothing more), the property schema genson infers from a value, "
            "set_descriptions (in-place edits of genson nodes), _check_name, __iter__, __repr__, the text written by to_file (only where it is written); the BaseGrammar template methods are verified for SimpleGrammar only",
            "PydanticGrammar: __init__ from a user model, set_descriptions, _check_name, __iter__, __getstate__/__setstate__, defaults/required-name changes (by the property's definition an element is "
            "required exactly when its model field has no default); validation agreement Simple <-> JSON <-> pydantic on concrete data (pickling of JSON grammars: see C20, contracts/c20_state.py)",
            "renaming onto another existing element: only WFG and the frame are specified (the overwritten element's requiredness/default survive)",
            "the values of to_namespaced/from_namespaced (only their key sets are specified); names_without_namespace, __repr__/_repr_html_, data converter",
            "__iter__ of the three classes and RequiredNames._from_iterable/__str__ are only exercised inlined at their call sites",
        ],
    },
    "C20": {
        "level_text": "Proof that Serializable.__getstate__ returns exactly {name: enc(value)} for the instance dictionary minus _ATTR_NOT_TO_SERIALIZE (any "
                      "dictionary, any exclusion set; Synchronized replaced by its value, Path by an OS-specific pure path) without touching the object, that "
                      "__setstate__ on a fresh instance restores plain attributes from the state and writes the saved values of shared attributes into the NEW "
                      "shared cells created by _init_shared_memory_attrs_before (no cell of the original is written), proof of the before-hooks of ProblemFunction, "
                      "ExecutionStatistics and ExecutionStatus against that hook specification, round-trip lemma over these contracts, and per-class lemma that "
                      "the declared exclusion names designate the attributes they are meant to exclude. "
                      "contracts/c20_state.py: HDF5Cache.__init__/__getstate__/__setstate__ (state = tolerance, path of THIS cache's file, path of THIS cache's node, name; "
                      "__setstate__ re-runs __init__ with exactly these keywords, CPython keyword binding of the state dictionary) with the round-trip lemma (same node, same real "
                      "file path, same tolerance and name); JSONGrammar.__getstate__ (state = instance dictionary minus validator/builder/_defaults plus the CURRENT defaults as a plain "
                      "dict under 'defaults', whatever stray entry the dictionary holds under that key) and __setstate__ (every entry restored, builder refilled from the pickled "
                      "schema with its own required set emptied again (034df8e), restored defaults exactly those of the state; KeyError exactly when a default is no property of the pickled schema). "
                      "contracts/c20_classes.py (class by class, the hierarchy being re-read from every file of src/gemseo at each run, contracts/c20_hierarchy.py): EVERY definition of __getstate__/__setstate__/"
                      "__reduce__[_ex]/__getnewargs__[_ex]/__deepcopy__/__copy__/_init_shared_memory_attrs_before/after/_ATTR_NOT_TO_SERIALIZE in the source is under a contract (a new override fails the check); "
                      "the classes named by the property (BaseDiscipline, Discipline, ProcessDiscipline, the MDAs, chains, scenarios; formulations, MDO functions, design/parameter spaces, problems, Database, "
                      "SimpleCache, SimpleGrammar, IO, factories, algorithm libraries, transformers with all their subclasses) only inherit the verified protocol resp. the default one (expectation re-computed from the real C3 MRO); "
                      "for each Serializable class (96 on the pinned tree), with the exclusion set read from the real class body: the hooks it resolves to are verified, every name dropped at pickling is created again at restore, "
                      "the shared counters are not excluded (carried over as values); proofs on the real source of the no-op hooks of Serializable, BaseDOELibrary/DirectoryCreator._init_shared_memory_attrs_after "
                      "(NEW lock / NEW shared cell), AnalyticDiscipline/SobieskiDiscipline.__setstate__ (through the contract of Serializable.__setstate__), CustomTqdmProgressBar, DisciplineData and "
                      "PydanticGrammar.__getstate__/__setstate__ with their round-trip lemmas; every attribute bound to a multiprocessing/threading lock is kept out of the state. "
                      "DirectoryCreator (a94ccfa): the excluded lock is re-created whenever the original holds one (class lemma over the verified hook). Three known findings (ScalableDiscipline, XLSDiscipline, MemoryFullCache: see known_findings.json).",
        "level_note": "Instance dictionaries are modelled as a dict field; attribute values are opaque with recognisable kinds (Synchronized / Path / PurePath / lock / stream / pydantic model class). "
                      "The hierarchy lemmas of c20_classes.py are facts computed from the parsed source (ground obligations), not symbolic executions; picklability is only addressed for locks.",
        "design_ref": "DESIGN.md §4 C20",
        "modules": ["contracts.c20_serialization", "contracts.c20_state", "contracts.c20_classes"],
        "assumptions": [
            "attribute stores on instances of the classes under contract go to the instance dictionary (no slots/descriptors)",
            "pickle calls __setstate__ on an instance created by cls.__new__ (empty dictionary)",
            "hook specification (assumed for overrides that are not verified): _init_shared_memory_attrs_before creates new shared cells only; "
            "_init_shared_memory_attrs_after only touches attributes excluded from serialization",
            "HDF5Cache: str(s) == s for a str, HDF5FileSingleton(path) is the handler of realpath(path) holding a str path, the cache name is never empty (class invariants used by the round-trip lemma)",
            "round-trip lemma: same-platform path round trip Path(to_os_specific(p)) == p; class well-formedness (the Synchronized attributes are exactly "
            "those re-created as Synchronized by the before-hook)",
            "c20_classes: the state of AnalyticDiscipline / SobieskiDiscipline / PydanticGrammar handed to __setstate__ is one produced by __getstate__ of a constructed object (it lists the attributes "
            "the re-creation reads); AnalyticDiscipline._init_expressions (sympy), PydanticGrammar._clear / __rebuild_model (pydantic), DirectoryCreator.__get_initial_counter (file system) and "
            "XLSDiscipline.__setstate__ (Excel) are assumed, the attribute sets they bind being checked against the real source; SobieskiProblem(dtype), StringIO(), DisableOnWriteError(...) are opaque constructions; "
            "a dict-subclass instance is its dictionary content; self.__class__ is the class under contract (PydanticGrammar has no subclass in the repository: checked)",
            "c20_hierarchy: classes are found by parsing class statements (classes created dynamically are not seen); the instance attributes of a class are the names bound by `self.X = ...` in the repository",
        ],
        "not_covered": ["for JSONGrammar the parts (Defaults, builder, required names) are opaque values read through ghost heaps: "
                        "BaseGrammar.clear / schema / Defaults.update / builder.add_schema are assumed there (verified under C15 on the field-level model); HDF5Cache: BaseFullCache.__init__, _read_hashes "
                        "and the HDF5FileSingleton multiton are assumed", "pickle itself, picklability of the "
                        "remaining attribute values (only locks are tracked: e.g. the mappingproxy inside ScalableDiscipline.scalable_model, lambdas in MDO functions are not)", "behavioural equivalence of restored disciplines (execute/linearize agree)",
                        "c20_classes: XLSDiscipline.__setstate__ (assumed), identity/aliasing of re-created values other than locks and shared cells (SobieskiProblem(dtype), {} are values), "
                        "classes outside the repository's class statements (user subclasses: e.g. a subclass of PydanticGrammar is not picklable, the state key is built from __class__.__name__)"],
    },
    "C10": {
        "level_text": "Proof, index-wise and for all dimensions m, n and all points, with the operands as uninterpreted maps f, g: R^n -> R^m and uninterpreted "
                      "Jacobian maps Df, Dg (shape (m, n), or a number / an (n,) gradient for number-valued functions): the value of f+g, f-g, f*g, f/g and of the "
                      "combinations with a number or a vector (_OperationFunctionMaker._compute_operation, 20 typed variants) is the component-wise combination; the "
                      "Jacobians of sums/differences, of scalings by a number or a vector and of products/quotients (_AdditionFunctionMaker / "
                      "_MultiplicationFunctionMaker._compute_operation_jacobian) equal the textbook rules entry by entry; negation (_min_pt/_min_jac incl. the "
                      "last_eval/dim bookkeeping of evaluate) and linear functions (A x + b and its Jacobian A) likewise; the sum-of-squares, positive "
                      "sum-of-squares and maximum aggregations and their total/partial Jacobians equal their defining sums entry by entry (all components or a "
                      "subset of distinct indices), the KS/IKS values and Jacobians equal the documented shifted exp/log formulas with exp/log uninterpreted; "
                      "frame: no array existing at entry (input point, vector operand, constraint values, constraint Jacobian) nor any array returned by an "
                      "operand function is modified. Sums are prefix sums; equal summands => equal sums is proved once by induction (PrefixSumLemmas). "
                      "The product and quotient rules are proved for every output dimension m >= 1 (rank-2 Jacobians: the values are reshaped to (m, 1) columns; "
                      "rank-1 gradient of a number-valued function; number-valued function with a (1, n) Jacobian). MDOLinearFunction.normalize (dense and sparse "
                      "CSR coefficients; contracts shared with C01, contracts/c01_preprocessing.py): the result is a new linear function with coefficients "
                      "A diag(s) and offset A shift + b, and the operand's coefficients, offset and other attributes are untouched (no aliasing of the "
                      "sparse arrays). Two defects found by these contracts were repaired (8b9981c product/quotient Jacobian of vector-valued functions; "
                      "1e06522 in-place scaling of the caller's arrays by the max/KS/IKS aggregations), see known_findings.json `fixed`. "
                      "ConvexLinearApprox (contracts/c10_approximations.py): __init__ evaluates Df once, at the reference point, and splits the columns of "
                      "the approximated inputs by sign into non-negative direct / reciprocal coefficients; _func_to_wrap = f(merged) + sum_k D[:,k] step_k + "
                      "sum_k R[:,k] inv_k with f evaluated at the merged point (reference values on the approximated inputs); _jac_to_wrap = Df at that same "
                      "merged point on the exact-input columns and D[:,k] - R[:,k] inv_k^2 on the approximated ones (entry-wise derivative of the evaluated "
                      "expression). compute_linear_approximation: coefficients Df(x0), offset f(x0) - Df(x0) x0 (TaylorLemmas: = f(x0) + Df(x0)(x - x0)); "
                      "MDOLinearFunction.__neg__ / offset: (-A, -b) / (A, b + c) in a new function; restrict: the columns of the inputs that are not frozen (increasing, "
                      "complete enumeration) and the offset b + sum_k A[:, F_k] v_k; compute_linear_approximation also for a number-valued f (one row = the gradient); "
                      "MDOFunction.__neg__: the new function evaluates with the operand's _min_pt / _min_jac (verified above) and keeps type, declared dimension and "
                      "output names. ConvexLinearApprox._jac_to_wrap wrote into the array returned by the operand's Jacobian: repaired (81c6c57), now proved for "
                      "every mask. Public operators (contracts/c10_operators.py): _AdditionFunctionMaker/_MultiplicationFunctionMaker.__init__ (direct and inverse; second operand a "
                      "function with or without Jacobian, or a number) record exactly (first, second) in this order, the flags and the numpy operator assumed by the "
                      "verified _compute_operation/_compute_operation_jacobian, and build a NEW MDOFunction whose func / jac are these closures (jac iff the operands "
                      "have one), with dim / output names / normalisation flag of the first operand and the type as coded; MDOFunction.__add__/__sub__/__mul__/"
                      "__truediv__ (function or number operand) and offset(number) return that function of a new maker holding (self, other). "
                      "FunctionRestriction._func_to_wrap/_jac_to_wrap: f / Df are evaluated at the point that holds the given values on the active inputs "
                      "and the frozen values on the frozen ones; the Jacobian is the active columns of Df there.",
        "level_note": "Trusted: pyvc, the numpy model (npmodel.py + plug_np_c10.py: ufunc functions, atleast_2d, tile, axis sums, max/argmax, heaviside, matrix-vector "
                      "product, in-place `a op= b` on array names), reals for floats (the shift by the maximum in KS/IKS only matters in floating point), exp/log "
                      "uninterpreted (positivity of exp only). Operand functions are deterministic and are called at the given point only. Not covered: the "
                      "MDOFunction objects built by __add__/__mul__/__neg__/offset/restrict (constructor wiring, names, expr), mixed number-/vector-valued operands, "
                      "FunctionRestriction, LinearCompositeFunction, Concatenate, quadratic approximation, the bound side of "
                      "KS/IKS, and the formula of three KS/IKS Jacobians for a subset of components (validated at run time only).",
        "design_ref": "DESIGN.md §4 C10",
        "runtime": "contracts.rt_c10",
        "modules": ["contracts.c10_function_algebra", "contracts.c10_approximations", "contracts.c10_operators", "contracts.c01_preprocessing"],
        "assumptions": [
            "MDOFunction conventions (preconditions): f(x) is a vector of size m >= 1 with Jacobian of shape (m, len(x)), or a number with a gradient of shape (len(x),); both "
            "operands of a binary operation have the same output dimension (the result is built with dim = first_operand.dim); a vector operand has size m",
            "the flags _second_operand_is_number/_second_operand_is_func and _operator/_operator_repr of a function maker are those its __init__ derives from the type of "
            "the second operand and from `inverse` (constructor not under contract)",
            "aggregations: at least one constraint component, the Jacobian has one row per component, rho > 0, indices (when given) are in range and pairwise distinct, "
            "scale is a number (vector scale not covered)",
            "numpy division by zero yields an unspecified value (inf/nan not modelled); max/argmax ignore NaN ordering; numpy.exp is positive; math.log raises ValueError for x <= 0",
            "numpy.atleast_2d of a vector and A[0, :] are modelled as copies (numpy returns views; no later in-place write to them in the verified code)",
            "lemma instances offered to the solver: congruence and positivity of prefix sums, proved by induction in PrefixSumLemmas",
        ],
        "not_covered": ["operators with a VECTOR second operand, an operand without Jacobian or MDOLinearFunction operands at the level of the public operators "
                        "(the makers' constructors cover function-with/without-Jacobian and number operands); input names of f <op> g (sorted union: not specified); "
                        "names / expr / special_repr of the results (assumed string glue _compute_expr); MDOFunction.offset with a vector",
                        "names / expression strings of the "
                        "functions built by __neg__/offset/restrict/compute_linear_approximation (assumed string glue: pretty_str, _generate_*_expr, generate_input_names); "
                        "sparse coefficient matrices outside normalize; restrict with negative or repeated frozen indexes (excluded by precondition, see report)",
                        "mdo_quadratic_function.py, compute_quadratic_approximation, FunctionRestriction.__init__ (its _func_to_wrap/_jac_to_wrap are verified relative to the "
                        "index invariant it establishes), linear_composite_function.py, concatenate.py, NormFunction/NormDBFunction, "
                        "SetPtFromDatabase, MDOFunction.concatenate/restrict/linear_approximation wrappers; ConvexLinearApprox with approx_indexes=None "
                        "(all inputs: ones_like(dtype=bool) not modelled) and the super().__init__ naming",
                        "mixed operands (vector-valued with number-valued function), vector `scale` in the aggregations, aggregation_func.py wrappers and ConstraintAggregation discipline",
                        "bound side of KS/IKS (KS_lower <= max <= KS_upper): not proved (lemmas `dominates` on prefix sums are available, exp/log monotonicity axioms not introduced)",
                        "entry formulas of compute_total_ks_agg_jac / compute_total_iks_agg_jac / compute_partial_iks_agg_jac for a subset of components (proofs not stable; "
                        "checked by the run-time contract only)",
                        "that exp-shifted formulas equal the unshifted KS definition and that the IKS quotient rule is the derivative (needs calculus of exp)"],
    },
}

PROPS["C11"] = {
    "level_text": "PARTIAL. Proof, for every index, every set of output names/values (any mix of scalars and arrays) and every prior content of the node, of the "
                  "index bookkeeping of the HDF WRITER primitives of gemseo.algos._hdf_database over an abstract model of the HDF node (a group = a map from "
                  "names to datasets/sub-groups, a dataset = a resizable sequence; h5py operations have assumed contracts): __add_hdf_input_dataset, "
                  "__add_hdf_name_output, __add_hdf_scalar_output, __add_hdf_vector_output, __add_hdf_output_dataset (both calling conventions; loop invariant: "
                  "the names are appended to k/<i> in one duplicate-free order, every array value becomes v/arr_<i>/<position of its name in k/<i>>, the scalar "
                  "values are appended to v/<i> in listing order = at the rank of their position among the scalar positions), "
                  "__get_missing_hdf_output_dataset (exactly the unlisted names, positioned after the listed ones), __create_hdf_input_output, "
                  "__append_hdf_output (exception condition, no-op case, frame; callee preconditions proved), add_pending_array (under an explicit "
                  "hash-collision-freedom assumption). Induction lemmas for the recursive rank function and for filtered sub-sequences (what the reader "
                  "computes). to_file is proved (both branches, loop invariants over the pending buffer / the database) at the INDEX level: full export "
                  "and append give the same file view - x has exactly the entries 0..n-1, x/<i> = the i-th key, every point (also one stored with no output) has its names "
                  "dataset listing as many names as it has outputs, pending buffer emptied - under history preconditions stated as `requires append:*`; update_from_file is "
                  "proved at the index level too (never raises on a well-formed node, rebuilds exactly N points in index order); lemmas: the record written for a new "
                  "point decodes (fhas/fval) to exactly its outputs (PointRoundTripLemmas), reader(writer(db)) has the same points in the same order and "
                  "'incremental append == single final export' at the index level (IndexRoundTripLemmas). The CONTENT clauses of the reader are proved too (staged ghost assertions): the names of the i-th "
                  "reloaded point are exactly those listed in k/<i>, every value is the decoded array / the scalar at its rank; ValueRoundTripLemmas: with per-point records "
                  "encoding the database (pt_is, a hypothesis) reader(writer(db)) has the same points, names and values. NOT proved: the assembly of pt_is into a file-level "
                  "invariant of to_file (index level proved; new-point case in PointRoundTripLemmas, append case not) - covered only by the bounded run-time stand-in below. "
                  "DESIGN-SPACE TEXT FILES (contracts/c11_design_space_files.py): DesignSpace.from_csv (header read from the file) is proved over an abstract text table "
                  "(what numpy.genfromtxt returns as a str and a float table of the same shape; assumed contracts T1-T4 of pyvc/plug_dsfiles.py): loop invariants "
                  "'the scanned rows of the name column form consecutive blocks, one per unique name' and 'k = start + the rows of the variables already read; "
                  "variable j was added with the arguments read from EXACTLY its own rows'; on a normal return the header holds the minimal fields, the names form "
                  "consecutive blocks, the design space has one variable per block in block order whose index range is the block's row range (size = block length), and "
                  "add_variable received for it the type of its first row, the lower/upper bounds of exactly its rows and the value column of exactly its rows - None iff "
                  "one of ITS OWN rows says 'None' or there is no value column (ghost call record c11_added; add_variable re-verified with that record: variant @c11); "
                  "a missing minimal field or a non-consecutive repeated name ends in ValueError (no normal return); induction lemma IntervalCount for list.count (CsvLemmas). "
                  "NOT proved: to_csv / get_pretty_table (PrettyTable layer), the text round-trip lemma, to_hdf / from_hdf / to_file / from_file of DesignSpace, "
                  "OptimizationProblem.from_hdf - bounded stand-in only. "
                  "BACKUP CLAUSES (contracts/c12_backup_clauses.py, the contract-expressible part of C12): to_file@c12 re-proves to_file with the per-point history "
                  "only demanded for `append and the node already holds points` (the first backup export falls back to the full export) and with the file handle closed "
                  "at exit (ghost h5_nopen; no exception escapes); update_from_file@c12 (handle closed, file untouched, listeners kept); Database.to_hdf / "
                  "update_from_hdf delegate to them with the database itself; OptimizationProblem.to_hdf (description block = assumed summary) calls "
                  "Database.to_hdf(append=True) only AFTER its own handle is closed and leaves the file listing the database; BaseScenario._execute_backup_callback "
                  "= that export in APPEND mode: when the listener returns the file lists exactly the points 0..n-1 of the database in order, every point with as "
                  "many names as it has outputs, buffer emptied, handle closed; BackupInvariantLemmas: the precondition R of the callback holds initially (absent / "
                  "erased / empty file), is preserved by every Database.store (any number of stores between two notifications) and restored by the export (to_file@c12 also proves, "
                  "through @c12 variants of __add_hdf_output_dataset / __create_hdf_input_output / __append_hdf_output, that the record of every exported point only lists names "
                  "of that point - its own per-point history precondition - so the induction uses proved postconditions only). Database.from_hdf: a NEW database "
                  "(constructor model) holding exactly the file's points in file order. BaseScenario.execute: after a run that recorded new points the file lists the database (exported view, records) and "
                  "nothing is pending, whatever the size of the database before the run (the guard `0 < n_x < n_x_a` that skipped the final export for a run starting from an "
                  "empty database is REPAIRED in /repo 6142829; the revert is a registered mutant). One clause FAILS on the pinned tree and is a known finding, "
                  "proved outside its region and replayed on real files (contracts/rt_c12.py): set_optimization_history_backup@file 'the first export starts from an "
                  "empty file or one listing the database' (region existing-file-neither-erased-nor-loaded).",
    "level_note": "Trusted: pyvc, z3, the abstract h5py model pyvc/plug_hdf.py (assumed contracts A1-A15, each validated against the real h5py by "
                  "tools/validate_h5py_model.py), sorted() as a deterministic duplicate-free listing, float64 = reals, ASCII output names. "
                  "The property is claimed at the level of the writer primitives only; DesignSpace / OptimizationProblem / HDF5Cache files are not under contract.",
    "design_ref": "DESIGN.md §4 C11",
    "modules": ["contracts.c11_hdf_database", "contracts.c11_hdf5_cache_file", "contracts.c11_design_space_files", "contracts.c11_design_space_hdf", "contracts.c12_backup_clauses"],
    "runtime": "contracts.rt_c11",
    "assumptions": [
        "abstract HDF node (pyvc/plug_hdf.py): A1 File modes w/a/r and persistence of what was written; A2 require_group; A3 `in`/len of a group; A4 create_dataset "
        "(ValueError on an existing name); A5 group[name] (KeyError); A6 names round trip through array(.., dtype=bytes_)/string_dtype/decode (ASCII names); "
        "A7 resize + ds[offset:] = block appends; A8 TypeError on a block of another length; A9 sub-groups and items(); A10 require_group on a dataset name: TypeError; "
        "A11 dataset iteration in order; A12 array(dataset) = stored content; A13 str(int) injective, int(str(i)) == i, 'arr_'+s injective and never decimal; "
        "A15 get_hdf5_group - every one validated natively on h5py 3.11 by tools/validate_h5py_model.py",
        "one node: all exports of a history go to the same file and node (history precondition; natively, alternating two files makes the reload raise KeyError)",
        "backup clauses (pyvc/plug_c12.py, opt-in c12): h5py.File opens one handle (ghost h5_nopen), leaving the `with` block closes it, also on an exception; an open "
        "is only modelled when no handle is open (precondition no-handle-open of to_file@c12 / update_from_file@c12: A1/A14 speak of the last CLOSED writer); the "
        "backup path names the modelled file (Path.exists / unlink = ghost h5_file_exists; an absent file has no content); ASSUMED thin summaries: the description "
        "block of OptimizationProblem.to_hdf (checked on the AST to mention neither the database nor the groups x/k/v), BaseScenario.set_algorithm, "
        "Database.get_x_vect, and the run BaseMonitoredProcess._execute_monitored (database only grows; export preconditions preserved - the statement of "
        "BackupInvariantLemmas), DesignSpace.from_file inside Database.from_hdf, the constructor model Database(name, input_space) = empty database without listeners",
        "history preconditions (derived from the call sites Database.store -> add_pending_array and to_file): between two exports to the same node the database only "
        "grows - new points are appended, new names are added at existing points, no deletion / re-ordering / overwrite of an exported name "
        "(Database.clear*, filter, remove_empty_entries, __delitem__ are excluded); stated as `requires` history:* of __get_missing_hdf_output_dataset / __append_hdf_output",
        "ASSUMED explicitly (axiom of add_pending_array): hash(HashableNdarray) is collision free on the arrays of one history - the pending buffer is keyed by "
        "hash(array); with a collision the earlier pending array is silently replaced and never exported (counter-model exists, not replayable with xxh3-64)",
        "cited lemma (finite sets, assumed): the names of a finite map not in a duplicate-free list of some of its names are |map| - |list| many",
        "design-space group of an HDF node (contracts/c11_design_space_hdf.py; model: pyvc/plug_hdf.py part 'design-space group', ghosts h5ds_*, opt-in c11_hdf): "
        "DesignSpace.to_hdf (variant @hdf) and from_hdf are verified - names dataset in variable order, per variable size / bounds / type and a value dataset EXACTLY "
        "when that variable has a current value; the reader restores each listed name through add_variable@c11 with the stored arguments (value None iff no value "
        "dataset) - with the round-trip lemmas DesignSpaceHdfRoundTrip (same names in order, sizes, types, bounds, per-variable current values incl. absent ones). "
        "Assumed: h5py A17 (dataset[()], group.get), numpy: element 0 of array([t] * n, dtype='bytes') decodes to t for n >= 1, __to_real identity on real data, "
        "no variable is called 'names' / has an empty name; inside HDFDatabase.to_file the call input_space.to_hdf keeps its assumed summary (only writes the design_space group); "
        "scipy S5 (validated natively): csr_array((data, indices, indptr)) WITHOUT shape infers (len(indptr) - 1, max(indices) + 1) and raises ValueError for empty indices",
        "HDF5 cache file (contracts/c11_hdf5_cache_file.py, also served to C05): HDF5FileSingleton.write_data / read_data / _has_group / __write_sparse_array / "
        "__read_sparse_array are verified over the abstract cache file (entries -> hash + entry groups -> datasets with attributes; h5py A4/A16) with SciPy sparse "
        "arrays modelled as (format tag, data, indices, indptr, shape): ASSUMED scipy contract S1 tocsr() is a CSR array denoting the same matrix, S2 a CSR array "
        "denotes csr_den(triple, shape), S3 csr_array((d, i, p), s) has these components, S4 hasattr(v, 'indptr') depends on the format only and holds for CSR "
        "(validated natively, tools/validate_h5py_model.py); numpy astype str->bytes->str is the identity on (ASCII) str arrays; data are str, numeric or sparse "
        "arrays (never bytes arrays); the open/keep_open/close protocol and the lock of HDF5FileSingleton are not verified (self.__file gives the persistent content); "
        "round-trip lemmas SparseRoundTrip / CacheFileRoundTrip: read(write(v)) is an equal array, sparse arrays equal AS MATRICES",
        "output values: isinstance(value, (ndarray, list)) is the uninterpreted predicate is_arr(value); HDFDatabase.__to_real is the identity on real data; "
        "sorted(names) is a deterministic duplicate-free listing of the set of names (alphabetical order not modelled)",
        "design-space text files (pyvc/plug_dsfiles.py, validated natively by tools/validate_csv_model.py): T1 genfromtxt(path, dtype='float') / (.., dtype='str') are two "
        "tables of the same shape over the same cells, not two-dimensional for fewer than two lines or columns (2-index subscript: IndexError); T2 numpy basic indexing "
        "table[r, :] / table[a:b, c] / table[r, c] with clamped slices and IndexError for an integer out of range, .tolist(); T3 `'None' in column part`; T4 list.count = "
        "recursive specification function csv_count; float cells are opaque contents (no parsing / 16-digit rounding modelled); DesignSpace() is the empty design space "
        "(model of __init__); pydantic Variable model of C02; _check_current_names (called by check()) assumed to only inspect; precondition of from_csv: the header "
        "fields are pairwise distinct (files written by to_csv have the header TABLE_NAMES; applicability of the dict-comprehension model of col_map); only the variant "
        "with the header read from the file (header=()) is verified",
    ],
    "bounded_standins": [
        "contracts/rt_c11.py (run: PYTHONPATH=/repo/src:/verif /venv/bin/python -m contracts.rt_c11 3): all sequences of length <= 3 (root node; <= 3 on a nested node) "
        "over {store(p, block): 3 points x 5 output blocks (one empty) mixing scalars, rank-1/rank-2 arrays and names sorting before/after exported ones; export; export-append} "
        "with at least one export and at most two distinct points, on REAL h5py files in a tempfile directory: after every export Database.from_hdf(file) equals the "
        "in-memory database (points in order, names, values), and at the end the incrementally appended file reloads to the same content as a single non-append "
        "export. 3208 scenarios, 0 failures on the pinned tree (48 s). This stands in for the unproved to_file / update_from_file / round-trip clauses.",
        "contracts/rt_c11.py bounded_check_ds (same command, second line of output): every ordered selection of 1..3 distinct variables out of 6 (float/integer, sizes 1-3, "
        "infinite bounds, missing current values, multi-character names) written and read back on REAL files with to_csv/from_csv, to_file/from_file (.csv and .h5), "
        "to_hdf/from_hdf (root and nested node): same names in the same order, sizes, types, bounds, current values (None stays None), reloaded == original. "
        "780 scenarios, 0 failures on the pinned tree (5 s). Stands in for the unproved to_csv / HDF / to_file clauses of the design-space files.",
    ],
    "not_covered": ["file-level per-point CONTENT invariant of HDFDatabase.to_file (index level proved; per-point content = postconditions of the per-point writers; append-case point lemma missing; bounded stand-in)",
                    "Database.input_space / DesignSpace.to_hdf inside to_file (assumed to leave x, k, v untouched)",
                    "DesignSpace.to_csv / get_pretty_table (PrettyTable text layer) and hence the text round-trip lemma, from_csv with an explicit header argument, files with duplicate header fields, "
                    "DesignSpace.to_hdf/from_hdf/to_file/from_file (bounded stand-in only), OptimizationProblem.from_hdf and the description groups written by OptimizationProblem.to_hdf "
                    "(assumed thin summary; its x/k/v part is proved)", "backup: the state of the file when the process dies INSIDE an export (between h5py.File(..) and the end of the `with` "
                    "block: C12 not applicable), Database.clear* / clear_history_before_execute between two exports, values of the reloaded entries after a restart", "HDF5Cache itself (hash index read_hashes, behavioural subtyping of _read_data/_write_data against BaseFullCache's storage specification, update_file_format); only its file handler HDF5FileSingleton is under contract", "HDF5 library / file-system behaviour, complex values (imaginary part dropped by __to_real), "
                    "non-ASCII output names (numpy.array(.., dtype=bytes_) raises UnicodeEncodeError: export fails)", "hash collisions in the pending buffer"],
}

PROPS["C17"] = {
    "level_text": "Proof (index / variable-mapping / scaling part, for every list of names, all variable sizes and all vectors) that the formulations' "
                  "index bookkeeping is exact: _get_dv_indices yields adjacent local index ranges in the order of the names (first at 0, end - start = size, "
                  "next start = previous end); get_x_mask_x_swap_order is the concatenation, in the order of the masking names, of their ranges within all "
                  "names (ValueError iff a masking name is unknown); mask_x_swap_order is the gather and unmask_x_swap_order the scatter along it (vectors "
                  "and matrices; chunks consumed in the order of all names; zeros or a copy of x_full elsewhere, arguments untouched); inductive lemmas on the "
                  "offset functions and the two inverse lemmas mask(unmask(y)) = y and unmask(mask(x), x_full = x) = x for a duplicate-free sub-list in the "
                  "same order; get_x_names_of_disc returns such a sub-list of the design variables (so every in-tree call site satisfies the precondition); "
                  "FunctionFromDiscipline evaluates its adapter on exactly the gathered components of its input names and scatters the adapter's gradient "
                  "to the columns of these variables (zeros elsewhere); the IDF consistency constraint is (y(x) - y_copy)/norm_factor component-wise with "
                  "y_copy the coupling targets read from the design vector, hence zero exactly when y_copy = y(x) - outside the known finding below; "
                  "IDF._update_design_space raises unless every coupling is a design variable and leaves the design space unchanged. "
                  "Construction (c17_build, for any number of disciplines): IDF._build_constraints adds exactly one constraint per discipline with output "
                  "couplings, in the order of the disciplines and none for the others (ghost log of add_constraint): the ConsistencyConstraint of (these "
                  "couplings, this formulation) or, for a linear discipline adapter, the linear approximation OF THAT CONSTRAINT at zeros(input_dimension) with type EQ; "
                  "IDF.__init__ takes all_couplings from the coupling structure of the disciplines, raises ValueError iff a coupling is no design variable, keeps "
                  "the design space, and builds the constraints only after the design-space check and after storing normalize_constraints (preconditions of "
                  "_build_constraints checked at the call site); get_top_level_disciplines of IDF (serial / parallel) and MDF; BaseFormulation."
                  "_remove_unused_variables keeps a design variable iff it is an input of a top-level discipline (definitions kept, design space well-formed); "
                  "MDF._update_design_space: afterwards no coupling of the MDA is a design variable and a variable is kept iff it was one, is no coupling "
                  "and is an input of the MDA; MDF.__init__: the user's design space is the problem's and, after construction, holds no coupling of the MDA "
                  "created by the factory and exactly its entry variables that are inputs of this MDA and no couplings. "
                  "Consistency constraint as an object (c17_consistency): ConsistencyConstraint.__init__ (the real MDOFunction.__init__ is executed) builds its "
                  "coupling function from exactly (the given output couplings, the given formulation), takes the factor from _get_normalization_factor "
                  "(finite, non-zero; 1.0 when not normalising), wraps its own _func_to_wrap / _jac_to_wrap, has type EQ and the names of its coupling "
                  "function; its precondition 'the output couplings are design variables' is checked where IDF._build_constraints constructs it "
                  "(output couplings among all_couplings, all_couplings required as design variables) and discharges the precondition of "
                  "_get_normalization_factor; _jac_to_wrap: entry (i, p) = (dy_i/dx_p - [p is the column of the coupling target of component i]) / norm_i "
                  "(identity blocks through 2-D slice stores of eye, row-wise division through newaxis; matrix Jacobian, and gradient of a scalar "
                  "coupling through unmask_x_swap_order(ones)); lemmas: this Jacobian clause is the first-order change of the value clause of "
                  "_func_to_wrap; two layouts selecting the same physical variables give the same adapter input vector, hence the same objective / "
                  "constraint value for MDF at x and IDF at (x, y*(x)); all consistency constraints vanish iff y = Y(x, y). "
                  "Disciplinary formulation: DisciplinaryOpt.__init__ / _filter_design_space / get_top_level_disciplines (the top-level discipline is the "
                  "discipline or the chain of the disciplines; the user's design space is kept and restricted to exactly its variables that are inputs of "
                  "it, definitions kept; IndexError for no discipline), DesignSpace.filter in place (exactly the asked variables are kept; ValueError iff "
                  "an asked name is unknown), BaseFormulation._remove_sub_scenario_dv_from_ds (no variable of a sub-scenario remains, the others are kept); "
                  "BaseFormulation._build_objective_from_disc: the objective becomes the FunctionFromDiscipline of (objective name, formulation) or, for a "
                  "linear adapter, its linear approximation at zeros(dimension of the current design space), stated for the FILTERED design space in "
                  "DisciplinaryOpt.__init__ and MDF.__init__.",
    "level_note": "Trusted: pyvc, numpy model (npmodel.py + plug_np_c17.py: builtin sum as a prefix-sum ghost function, empty/arange/copy), z3, reals for floats. "
                  "Known finding (reported, to be triaged): with normalize_constraints and a zero or infinite normalisation factor (coupling variable with equal "
                  "or infinite bounds - the default bounds) the consistency constraint is nan/inf or identically 0 although y_copy != y(x); region "
                  "`degenerate-normalization-factor` of ConsistencyConstraint._func_to_wrap (replayed natively by contracts/rt_c17.py). "
                  "Repaired (known_findings.json `fixed`: 5e6b38b): DisciplinaryOpt with a discipline declared linear and a design variable that is no input "
                  "of it raised ValueError (objective linearised at zeros(sum of the UNFILTERED variable sizes)); BaseFormulation._build_objective_from_disc is "
                  "now verified (linear approximation at zeros(dimension of the CURRENT design space)) and DisciplinaryOpt.__init__ / MDF.__init__ are proved "
                  "without any region (native replay: contracts/rt_c17.py, kind dopt). "
                  "Not covered: 'optimising any of them reaches the same optimum' (optimiser behaviour), total derivatives through the MDA (C07/C09), BiLevel.",
    "design_ref": "DESIGN.md §4 C17",
    "runtime": "contracts.rt_c17",
    "modules": ["contracts.c17_formulations", "contracts.c17_idf_norm", "contracts.c17_mdf", "contracts.c17_build", "contracts.c17_consistency"],
    "assumptions": [
        "facts about the recursive offset functions off/offm and the prefix sum psum_i used as axioms in the function contracts (off-monotone, offm-monotone, "
        "psum-bridge, consumed-is-offset) are proved by induction (base + step obligations) in the lemma contract OffsetLemmas",
        "c17_idx / c17_members / c17_member_index are choice functions (index of a name in a duplicate-free sequence, set of the names of a sequence)",
        "formulation.variable_sizes agrees with the design space on its variables and sizes are >= 1 (variable_sizes is a copy taken at construction; "
        "formulations only remove variables afterwards; DesignSpace invariant of C02)",
        "an explicit all_data_names list is non-empty (all in-tree call sites pass the default ())",
        "FunctionFromDiscipline / ConsistencyConstraint: the discipline adapter's value / gradient and the coupling function are deterministic uninterpreted "
        "functions of their input vector with one output component per (differentiated input / coupling) component; the stored bound methods are those "
        "of the formulation (ghost field c17_formulation); a grammar is seen through `name in grammar` only; scalar-output gradient (rank 1), no "
        "differentiated-input substitute",
        "c17_build: MDO functions are values (pyvc/plug_c17b.py: consistency(couplings, formulation) / from_disc(outputs, formulation)); the constructor "
        "call ConsistencyConstraint(couplings, formulation) is abstracted by the first value and .coupling_function by the second (ConsistencyConstraint."
        "__init__ itself is NOT verified); the adapter's is_linear / input_dimension (assumed to be an int), CouplingStructure.get_output_couplings (C08), "
        "compute_linear_approximation and the numpy zeros are uninterpreted functions; add_constraint is a ghost log (default value / type / sign)",
        "c17_build: models of BaseFormulation.__init__ (disciplines = tuple(disciplines), a new OptimizationProblem holding the very design space, arbitrary "
        "settings) and of CouplingStructure(disciplines) (a record of name lists, uninterpreted function of the disciplines); MDOParallelChain(...) is an "
        "opaque new object, MDAFactory.create(...) a new MDA with arbitrary couplings / input names; _build_objective_from_disc, _compute_equilibrium and _set_default_input_values_from_design_space are assumed not to touch the "
        "variables of the design space, the constraints or the formulation's attributes; BaseFormulation.get_top_level_disciplines (abstract) returns "
        "opaque disciplines whose input names are uninterpreted sets; a grammar is seen through its set of names; DesignSpace contracts of C02",
        "c17_consistency: FunctionFromDiscipline(...) inside ConsistencyConstraint.__init__ is a captured construction (a new object with arbitrary name / "
        "input names / output names that remembers its constructor arguments); DesignSpace.variable_sizes returns a new dictionary; the bounds of a "
        "variable have the same size (DesignSpace invariant); _jac_to_wrap: the coupling Jacobian is an uninterpreted function of the design vector "
        "with one row per coupling component and one column per design component, __dv_len agrees with formulation.variable_sizes on the design "
        "variables (both are copies of the design space's sizes, IDF never changes its design space); numpy model of a[r0:r1, c0:c1] = M "
        "(pyvc/plug_c17b.py, compared with numpy on 4000 random cases) and of v[:, newaxis]; gradient variant: one output coupling of size 1",
        "c17_build (DisciplinaryOpt): MDOChain(disciplines) is an opaque discipline (uninterpreted function of the disciplines), get_all_inputs returns "
        "exactly the input names of the given disciplines, get_sub_scenarios the sub-scenarios (seen through the variable names of their design "
        "spaces); _build_objective_from_disc: FunctionFromDiscipline(names, formulation, discipline=, top_level_disc=) is the value from_disc(names, "
        "formulation) (which discipline computes the outputs is not part of the value), `problem.objective = f` is a ghost assignment (c17_objective), "
        "MDOFunction.FunctionType is seen through its members OBJ / OBS / NONE",
        "formulation lemmas: physical values of the variables as an uninterpreted function (x for design variables, y*(x) = abstract mda_solution for "
        "couplings); the adapter is a function of the content of its input vector; first-order (affine) change of the coupling function along a coordinate",
    ],
    "not_covered": ["same optimum across formulations (optimiser behaviour)", "BiLevel", "sparse Jacobians",
                    "the MDA factory (MDF.__init__ sees a new MDA with an arbitrary coupling structure / input grammar), MDOChain / get_all_inputs / "
                    "get_sub_scenarios (abstract), a None adapter input_dimension, FunctionFromDiscipline.__init__ (which discipline computes the objective), "
                    "the OptimizationProblem.objective setter, DesignSpace.filter with copy=True",
                    "that the MDA's outputs are the disciplines' outputs at the fixed point (abstract mda_solution in the lemmas; MDA convergence: C09)",
                    "DisciplineAdapter (__create_discipline_input_data, _convert_jacobian_to_array: data converters / slices of the grammar)",
                    "matrix-valued FunctionFromDiscipline Jacobians (unmask itself is proved for matrices)"],
}

PROPS["C14"] = {
    "level_text": "PARTIAL: gemseo's own side of the DOE libraries (the third-party samplers are assumed). Proof, for every design space (any number, sizes, types and "
                  "bounds of variables), every settings dictionary and every unit sample, (driver level) that BaseDOELibrary.compute_doe returns the unit samples of "
                  "the algorithm when unit_sampling and otherwise exactly DesignSpace.untransform_vect(unit samples, no_check=True) computed with the "
                  "integer-normalisation flag enabled and the entry variables, that _pre_run stores the unit samples of the filtered settings and their image, "
                  "that on every normal return the flag has its entry value and the variables, index ranges, current values and dimension are untouched; "
                  "__enable/__reset_integer_variables_normalization toggle exactly the flag; __check_unnormalization_capability raises ValueError iff some "
                  "component has a False normalisation policy (never for CustomDOE); Seeder.get_seed returns a given seed unchanged and increments the default seed "
                  "exactly once per call; DiagonalDOE returns exactly n_samples rows, one column per component in the design space's order, column j = "
                  "linspace(0,1,n) or its reverse exactly when 'j' or the owner variable of j is listed, every entry in [0,1]; CustomDOE raises ValueError iff the "
                  "matrix does not have one column per component and otherwise returns as many rows, row r = transform_vect(given row r); (numerical level, "
                  "cached normalisation data typed precisely) unnormalize_vect / round_vect on a BATCH of unit samples compute, row by row and component by "
                  "component (hence in the design space's component order), u (ub - lb) + lb on normalised components, u elsewhere, then numpy.round on the integer "
                  "components (in place, integer dtype recast included); (round 2) the integer arithmetic of the stratified OpenTURNS designs: _compute_n_levels of "
                  "OTAxialDOE / OTFactorialDOE / OTCompositeDOE returns the LARGEST number of levels L >= 1 whose documented point count (1 + 2dL, 1 + 2^d L, "
                  "1 + (2d + 2^d) L) does not exceed n_samples and raises ValueError iff even one level does not fit; BaseOTStratifiedDOE.generate_samples (n_samples > 0) "
                  "returns that documented count <= n_samples of points of [0,1]^d; the three wrapper libraries (OpenTURNS, SciPyDOE, PyDOELibrary) hand to the "
                  "third-party sampler exactly Seeder.get_seed(given seed) (a given seed unchanged, 0 included; None -> incremented default seed), the dimension of the "
                  "design space, n_samples and the (filtered) settings unchanged, call it exactly once and return what it returned (pyDOE non-LHS designs: mapped "
                  "entry-wise from [-1,1] to [0,1]); OATDOE returns d + 1 points following the coded one-factor-at-a-time step rule, inside [0,1]^d for a step <= 1/2 "
                  "(KNOWN FINDING beyond); compute_doe on a dimension samples the new space of one float variable x of size d; lemmas: determinism by congruence "
                  "(same algorithm, settings, seed => same samples; a given seed is independent of the Seeder state), documented-count arithmetic,  a unit sample lands inside [lb, ub], end points, equal bounds, monotonicity; with "
                  "integer bounds the rounded value is an integer inside the bounds; induction lemmas for the hstack offsets and the linspace bounds.",
    "level_note": "Trusted: pyvc (three small additive engine features: typed **kwargs, `f(**d)` into a `**kw` callee, per-contract callee contract variants), the numpy "
                  "model npmodel.py + pyvc/plug_c14.py (hstack of a list, where(mask), set(int vector), linspace, newaxis, a[..., mask], apply_along_axis(transform_vect), "
                  "str(int), kwargs with a known key set), z3, reals for floats, numpy.round as an uninterpreted function with its three axioms. ASSUMED contracts "
                  "(listed in the evidence): the abstract sampler _generate_unit_samples (deterministic function of algorithm, dimension, validated settings and "
                  "default seed; rows in [0,1]^d), DesignSpace.untransform_vect at the driver level (uninterpreted image function of flag, variables, policies and input; "
                  "its per-component meaning is what the numerical-level contracts prove under C02's validity of the cached data), pydantic settings validation / "
                  "filtering, the stop_if_nan setter and _init_iter_observer. OBSERVATION (not a clause of the property, reported): when "
                  "__check_unnormalization_capability raises (a component unbounded on one side), compute_doe and _pre_run leave "
                  "design_space.enable_integer_variables_normalization = True although it was False on entry (and the policies of the integer variables changed). "
                  "KNOWN FINDING (known_findings.json, region step-larger-than-one-half): OATDOE / MorrisDOE leave the unit hypercube - hence the bounds - for a relative "
                  "step > 1/2 (settings only require step > 0). Round-2 engine additions: chained comparisons inside comprehension elements; plug_c14: int(float), 2 ** d as "
                  "pow2, third-party sampler calls recorded in ghost variables, list.remove, packaging version predicates, array(list of vectors), DesignSpace() as the "
                  "ASSUMED empty design space.",
    "design_ref": "DESIGN.md §4 C14",
    "modules": ["contracts.c14_doe"],
    "assumptions": [
        "third-party samplers (SciPy, OpenTURNS, pyDOE, full factorial...): _generate_unit_samples returns one column per component, entries in [0,1], a deterministic "
        "function c14_unit_samples(algorithm name, dimension, validated settings, default seed of the Seeder); only the Seeder may change",
        "driver level: DesignSpace.untransform_vect(x, no_check=True) = c14_untransform(integer-normalisation flag, variables, policies, x), a new array of the shape of x; it only "
        "refreshes the cached normalisation data (bridge to the numerical level: UnnormalizeVectBatch is proved under wfnum, which C02 proves to be what "
        "__update_normalization_vars establishes from the representation invariant - contracts/c02_more.py UpdateNormalizationVars@lnk: validity of the cached data AND their "
        "link to the per-variable bounds / policies / types; the `monotone-lemma` precondition is C02 MonotoneLemma)",
        "numerical level preconditions: cached normalisation data valid (C02 wfnum, established by UpdateNormalizationVars@lnk), one column per component; NO assumption on the "
        "common dtype of the current values (since the repair 4832538 the result is cast to integers only in an all-integer design space, by construction)",
        "_validate_settings raises a ValueError or returns a deterministic function of (algorithm, settings model, settings); _filter_settings a deterministic function of "
        "(settings, excluded model) without keys `self` / `design_space`; the **settings of a function never contain the names of its own parameters (CPython)",
        "DiagonalDOE: n_samples >= 2 (validated by DiagonalDOE_Settings, ge=2), reverse is a list of strings; linspace(a, b, n)[i] = a + (b - a) t(i, n) with "
        "t(i, n) (n - 1) = i (bounds / end points proved from this definition in LinspaceLemmas); str(int) is a deterministic injective function",
        "numpy.hstack of a list of vectors: blocks at the prefix sums of the lengths (monotone offsets and block-of-position proved by induction in HstackLemmas); hstack of n x 1 columns",
        "CustomDOE: samples given as a matrix (no file, no mapping / sequence of mappings); apply_along_axis(transform_vect, 1, A) maps every row, in order, by the deterministic "
        "length-preserving function c14_transform_vect of the design-space state",
        "OpenTURNS Axial / Factorial / Composite(centre, levels).generate() return 1 + weight(d) * len(levels) points (weight 2d / 2^d / 2d + 2^d; checked natively for "
        "d, L in 1..3), with coordinates in [0,1] for centre 1/2 and levels in ]0, 1/2]; 2 ** d is the uninterpreted pow2(d) >= 1; int(x / y) is exact truncation (float64 = "
        "reals: natively int((n - 1) / 2 / d) differs from (n - 1) // (2 d) for n around 1e17)",
        "third-party samplers are deterministic uninterpreted functions c14_third_party_samples(algorithm, dimension, n_samples, seed, options); "
        "numpy.random.RandomState(seed) = c14_random_state(seed); RandomGenerator.SetSeed sets the seed used by the next OpenTURNS design; the name tables of the wrapper "
        "libraries have the keys of ALGORITHM_INFOS; validated settings contain every field of their model (seed / random_state: int or None); packaging version "
        "comparisons are an uninterpreted predicate of the version string",
        "OATDOE: step > 0 (PositiveFloat) and an initial point in the unit hypercube; _compute_n_levels: n_samples > 0 (call site) and dimension >= 1",
        "DesignSpace() is the empty design space satisfying the C02 invariant (constructor not under contract); the abstract _compute_n_levels is used through the "
        "contract proved for its three implementations (weight written c14_stratified_weight)",
        "variable types are 'float' or 'integer' (pydantic-validated DataType); assigning a dtype that differs only by metadata leaves the elements unchanged",
    ],
    "not_covered": ["the third-party samplers themselves (sample count, range, seed handling of SciPy / OpenTURNS / pyDOE wrappers and their gemseo adapters)",
                    "MorrisDOE._generate_unit_samples (factory / nested compute_doe calls; only its count arithmetic r (d + 1) <= n_samples is a lemma over the documented formula; it "
                    "inherits the OAT step finding)", "full-factorial level computation n_samples ** (1 / d) (BaseFullFactorialDOE, real powers) and the OpenTURNS / pyDOE full "
                    "factorial designs", "BaseOTStratifiedDOE.generate_samples with explicit centers / levels (n_samples = 0); the other OpenTURNS algorithm classes "
                    "(LHS, Sobol, Monte Carlo...: thin calls into OpenTURNS)",
                    "ParameterSpace (random variables: untransform through the inverse CDFs)", "_run / parallel evaluation of the samples (C13) and storage order in the database",
                    "CustomDOE.read_file, samples given as mappings", "DOEScenario / factory / settings models",
                    "a single end-to-end 'compute_doe output lies inside the bounds' theorem: it is the composition of the driver-level proof (untransform_vect uninterpreted there), "
                    "the link proved under C02 (UpdateNormalizationVars@lnk: the cached arrays are the concatenated per-variable bounds / policies / types and satisfy wfnum) "
                    "and the numerical-level proof - the composition itself (batch unnormalize_vect called from a not-yet-computed state) is not a checked obligation",
                    "that untransform_vect(transform_vect(x)) = x for CustomDOE (holds per component for lb < ub: C02 BijectionLemmas; equal bounds map to lb)",
                    "error paths: the state of the design space when compute_doe / _pre_run raise (see the observation in level_note)"],
}

PROPS["C19"] = {
    "level_text": "Proof of gemseo's OWN side of the property, the third-party distribution objects being abstract (contracts/c19_uncertainty.py, pyvc/plug_c19.py): "
                  "(a) wrappers: SPDistribution / OTDistribution compute_cdf, compute_inverse_cdf, _cdf, _pdf, mean, standard_deviation return exactly what the wrapped object "
                  "answers; compute_samples returns the values of exactly ONE call of the wrapped sampler (ghost record of the third-party draws); _create_distribution wraps the "
                  "object made from exactly (library, name, parameters) - for OpenTURNS composed with the transformation, then truncated, in this order - and records as range / "
                  "support what THIS FINAL object reports (SciPy: interval(1) and the quantiles at 1e-12 / 1 - 1e-12; OpenTURNS: getRange(), -inf / +inf where it says the bound "
                  "is not finite); BaseDistribution.range / support return the recorded bounds; (b) joint distributions: compute_cdf / compute_inverse_cdf of SPJointDistribution "
                  "and OTJointDistribution send component i through marginal i (length min(len(value), number of marginals)); _set_bounds, mean, standard_deviation, range, "
                  "support take component i from marginal i; (c) named SciPy-based distributions (normal, uniform, exponential, triangular, beta) and SPDistribution.__init__: the "
                  "SciPy name and EXACTLY the keyword parameters computed from the arguments (loc / scale / c / a / b), + arithmetic lemmas that these denote the law the arguments "
                  "describe under SciPy's documented location-scale parameterisation; (d) ParameterSpace: evaluate_cdf returns exactly one entry per uncertain variable, the "
                  "(inverse) joint CDF of THE distribution of this variable applied to the entry of this variable, and __check_dict_of_array rejects exactly the entries of "
                  "uncertain variables of the wrong size or outside [0, 1]; __normalize_vect / __unnormalize_vect / normalize_vect / unnormalize_vect / transform_vect / "
                  "untransform_vect return the concatenation, IN THE VARIABLE ORDER, of blocks R[v]: (inverse) joint CDF of the distribution OF v applied to the block of v for "
                  "every uncertain v, the block of v of DesignSpace.[un]normalize_vect (the affine design-space map of C02) for every deterministic v, and change nothing; "
                  "is_uncertain / is_deterministic (partition of the variables); get_range / get_support (what the distribution OF the variable reports); remove_variable (C02 "
                  "postcondition + the variable leaves uncertain_variables with the order of the others kept and its distribution is dropped, the parameter-space invariant is "
                  "kept; the DesignSpace helpers are re-verified with the ParameterSpace fields in the state: they do not touch them); (e) lemmas over these contracts + the "
                  "ASSUMED marginal axioms (icdf(cdf(x)) = x on the support, cdf(icdf(u)) = u on (0,1), monotone, values in [0,1] / in the support): the joint inverse CDF undoes "
                  "the joint CDF component-wise (and conversely), CDF values are probabilities, and untransform_vect(transform_vect(x)) recovers every component of every "
                  "variable block of x (uncertain: marginal axioms; deterministic: the C02 bijection), the transformed uncertain components lying in [0, 1] as untransform_vect "
                  "demands; (f) registration: add_random_vector WITHOUT distribution parameters (variant default-parameters, verified) and add_random_variable (verified against the "
                  "add_random_vector summary): the vector is appended last to uncertain_variables and to the design variables (orders kept), one float component per marginal, its "
                  "joint distribution (size marginals of the named class) is registered under its name, the design variable gets the SUPPORT the distribution reports as bounds and "
                  "the MEAN it reports as current value, the joint distribution of ALL uncertain variables is rebuilt from exactly the final uncertain variables in order, and the "
                  "design-space and parameter-space invariants hold afterwards (this ESTABLISHES the invariant assumed by the transformations); remove_variable rebuilds that joint "
                  "distribution from exactly the remaining uncertain variables; (g) compute_samples: the n x d matrix of exactly ONE draw from the joint distribution of all uncertain "
                  "variables, and with as_dict one dictionary per row whose keys are exactly the uncertain variables, each entry being the block of its variable laid out along "
                  "uncertain_variables in order; (h) rename_variable: C02 postcondition + uncertain_variables keeps its order with the name replaced AT THE SAME POSITION, the distribution is "
                  "re-keyed, the invariant is kept and marginal block i of the (not rebuilt) joint distribution is still the distribution of uncertain_variables[i]; (i) log-normal "
                  "laws: compute_mu_l_and_sigma_l(mu, sigma, location) returns sigma_l >= 0 with sigma_l^2 = log(1 + (sigma/(mu - location))^2) and mu_l = log(mu - location) - "
                  "sigma_l^2/2 (log / sqrt uninterpreted, ground instances of their usual axioms), lemma: the law with these parameters shifted by location has mean mu and variance "
                  "sigma^2 (exp(log t) = t, exp(a+b) = exp(a)exp(b)); SPLogNormalDistribution forwards lognorm(s=sigma_l, loc=location, scale=exp(mu_l)), OTLogNormalDistribution "
                  "LogNormal(mu_l, sigma_l, location). REPAIRED in /repo bc82ce9 (found here): normalize_vect / unnormalize_vect dropped `minus_lb` (normalize_grad / unnormalize_grad of a "
                  "ParameterSpace were wrong); the deterministic blocks are now proved to be those of the design-space map WITH THE GIVEN minus_lb. REPAIRED in /repo 910a44a (found here): remove_variable left `distribution` describing the removed variable when the "
                  "LAST uncertain variable was removed (compute_samples went on sampling it); it is now proved to be None when no uncertain variable remains and the joint of exactly "
                  "the remaining ones otherwise.",
    "level_note": "Trusted: pyvc, z3 (floats read as reals; infinite bounds are tags), pyvc/plug_c19.py. ASSUMED - this IS the third-party part: a wrapped SciPy / OpenTURNS "
                  "distribution object is an abstract record; cdf / ppf / pdf / mean / std / interval (computeCDF / computeQuantile / computePDF / getMean / getStandardDeviation / "
                  "getRange) are deterministic uninterpreted functions of the object and the argument without side effect; every sampler call (rvs / getSample) returns a new array of the "
                  "requested size that is not a function of the arguments; creation returns an object made from exactly (library, name, parameters) or raises; the inverse / monotony / "
                  "range axioms of the marginals are HYPOTHESES of the lemmas, nowhere proved. ASSUMED callee summaries (listed in the evidence): "
                  "_create_distribution_from_module, OTDistribution.__transform_distribution / __truncate_distribution (string formatting, comparisons with infinite bounds), "
                  "ParameterSpace.build_joint_distribution (nested comprehension; what the joint was built from is recorded in ghosts), add_random_vector for ARBITRARY "
                  "distribution parameters (same clauses as the verified default-parameter variant: the parameters only select the marginals), __get_random_vector_size, "
                  "DesignSpace.add_variable on a parameter space (C02 postcondition + ParameterSpace fields untouched + the given bounds / value recorded in ghosts), distribution "
                  "classes as abstract values (factory, cls(), cls.JOINT_DISTRIBUTION_CLASS(marginals), cls.__name__[0:2]), the sampler of the joint distribution of all "
                  "uncertain variables (new n x d matrix, ghost record), the update of __uncertain_variables_to_definitions is skipped (that every uncertain variable has a definition is a precondition of rename_variable), "
                  "OTDistribution.__init__ (name and positional parameters recorded in ghosts; its _create_distribution is verified), split_array_to_dict_of_arrays / concatenate_dict_of_arrays_to_array (abstract blocks c19_block / "
                  "c19_concatenate relative to the ghost layout c19_variable_size = sizes of the variables of the entry state; their mutual-inverse algebra is a hypothesis of the "
                  "round-trip lemma), DesignSpace.normalize_vect / unnormalize_vect at this level (uninterpreted functions of variables, policies, flag, minus_lb and the vector; their "
                  "component-wise content and bijectivity are proved under C02; the cached normalisation data they refresh are not part of the state modelled here), the C02 "
                  "postcondition of DesignSpace.remove_variable on a parameter space (proved under C02 on the same body; what is proved here is that the body does not touch the "
                  "ParameterSpace fields). A joint distribution / marginal held by a parameter space is an abstract record honouring the contracts verified for the joint / wrapper "
                  "classes (behavioural subtyping). Vectors are rank-1 (one point); LOGGER calls are skipped. OBSERVATIONS (not clauses, see the report): the "
                  "forward evaluate_cdf silently truncates a block whose length differs from the number of marginals (zip), only the inverse direction checks sizes; "
                  "unnormalize_vect(use_dist=True) ignores `out`.",
    "design_ref": "DESIGN.md §4 C19",
    "modules": ["contracts.c19_uncertainty"],
    "assumptions": ["third-party distribution objects are abstract: cdf/ppf/pdf/mean/std/interval/getRange are uninterpreted functions c19_* of the object (and the argument); samplers return new arrays "
                    "recorded in the ghost log c19_draw_*; creation = c19_created_* of (library, name, parameters)",
                    "marginal axioms (hypotheses of the lemmas only): icdf(cdf(x)) = x on the support, cdf(icdf(u)) = u on (0,1), cdf and icdf monotone, 0 <= cdf <= 1, icdf(u) in the support",
                    "SciPy's location-scale parameterisation of norm / uniform / expon / triang / beta (hypothesis of NamedDistributionLemmas; cross-checked natively for a few values)",
                    "block algebra of split_array_to_dict_of_arrays / concatenate_dict_of_arrays_to_array: block v has size(v) components; splitting a concatenation of blocks of the right sizes "
                    "gives the blocks back (hypotheses S1 / A1 of the round-trip lemma)",
                    "DesignSpace.normalize_vect / unnormalize_vect act component-wise on each block and are mutually inverse (hypothesis DC of the round-trip lemma; proved in C02 for lb < ub and "
                    "for unbounded components, without integer rounding)",
                    "parameter-space invariant (precondition of the transformations, remove_variable, add_random_*; established / preserved by add_random_vector@default-parameters, add_random_variable, remove_variable): "
                    "every uncertain variable is a design variable with a joint distribution of as many marginals as the variable has components, no name listed twice",
                    "x_vect / vector is a rank-1 array; out is None"],
    "not_covered": ["numerical values of cdf / ppf / moments of any law, their mutual inverseness and monotony in floating point, samples lying in the reported support, analytical moments vs reported "
                    "range / mean / standard deviation, agreement of the SciPy- and OpenTURNS-based versions of the same law (all third-party, floating point: only stated as hypotheses)",
                    "empirical statistics (gemseo.uncertainty.statistics), fitting, Dirac / Weibull named distributions, the named OpenTURNS-based classes other than log-normal "
                    "and OTDistribution.__init__ (heterogeneous **options forwarding is outside the engine's subset), OTDistribution.__truncate_distribution's ValueError conditions (comparisons "
                    "with infinite support bounds)",
                    "add_random_vector WITH distribution parameters / interfaced distributions (per-component broadcasting of the parameter collections, distribution_class(**kwargs), textual "
                    "definitions: assumed summary), that the stored bounds of the design variable equal the given vectors numerically (C02 link level), add_variables_from, "
                    "init_from_dataset, to_design_space, extract_uncertain_space / extract_deterministic_space (DesignSpace.filter / deep copy), __getitem__ / __setitem__, tabular views",
                    "BaseJointDistribution.compute_samples, OTJointDistribution.compute_samples, joint _create_distribution (comprehensions with third-party side effects, OpenTURNS "
                    "ComposedDistribution / copulas); that the number of columns of compute_samples is the sum of the sizes of the uncertain variables and that its columns follow the "
                    "variables (property of the joint distribution built by the assumed build_joint_distribution)",
                    "rank-2 batches in evaluate_cdf / transform_vect (list(map(compute, rows))), the `out` argument",
                    "the block algebra of the conversion utilities and the length of the transformed vector (assumed, see assumptions)"],
}

_TODO = "not yet under contract in this build; see DESIGN.md §9 (build order) - no other technique is substituted"
NOT_APPLICABLE = {
    "C12": "quantifies over process-death points (a kill at an ARBITRARY instruction of the k-th discipline execution) and over the on-disk state of an HDF5 file, which "
           "function contracts cannot express: atomicity of an export interrupted half-way (a half-written / unflushed HDF5 file, h5py/libhdf5 buffering) and loadability of "
           "such a file are outside any contract on Python functions. The contract-expressible clauses are proved (or recorded as findings) where they belong "
           "(contracts/c12_backup_clauses.py): C11 - every export (HDFDatabase.to_file@c12 <- Database.to_hdf <- OptimizationProblem.to_hdf <- "
           "BaseScenario._execute_backup_callback, APPEND mode) leaves the file listing exactly the points recorded so far, in order, with the file handle CLOSED, and the "
           "callback's precondition is an invariant of store + notification (BackupInvariantLemmas), i.e. the file a crash BETWEEN two notifications finds is the closed "
           "prefix written at the last notification, and BaseScenario.execute completes the file after the last iteration; known finding: existing file neither erased nor "
           "loaded (repaired, 6142829: final export skipped when the database was empty before the run); C03 - listeners are notified after recording + registration for export, the backup listener is registered as store / new-iteration listener as selected, "
           "erase / load branches, restored counter; C01 - after load the database holds the file's points (served from the database without re-evaluation by C01's "
           "memoisation clauses). Not proved anywhere: the VALUE-level content of the reloaded entries (C11 reader content clauses), 'optimum at least as good as the best "
           "loaded one' (C04 on the restarted database) and 'same history as the uninterrupted run' (needs determinism of the algorithm) (DESIGN.md §6)",
}
for _p in ["C%02d" % i for i in range(1, 21)]:
    if _p not in PROPS and _p not in NOT_APPLICABLE:
        NOT_APPLICABLE[_p] = _TODO
