"""Sidecar contracts on the real gemseo functions, one module per property (DESIGN.md §4)."""

PROPS = {
    "C16": {
        "level_text": "Proof, for all dimensions, points, steps and component subsets, that forward finite differences build the perturbation "
                      "matrix x + h e_k column by column and return the exact difference quotients of the (uninterpreted) function; "
                      "order-of-accuracy identities on polynomials as real-arithmetic lemmas.",
        "level_note": "Trusted: pyvc, the numpy model (npmodel.py: rank<=2 real arrays, paired fancy indexing, tile/reshape/T pattern), reals for floats. "
                      "Not covered: centered differences and complex step (complex arrays, norm), parallel evaluation, discipline-level wrappers, float rounding.",
        "design_ref": "DESIGN.md §4 C16",
        "modules": ["contracts.c16_derivatives"],
        "not_covered": ["centered_differences.py", "complex_step.py", "derivatives_approx.py", "parallel gradient", "float cancellation error"],
    },
    "C02": {
        "level_text": "Proof (all histories by invariant preservation, all sizes/values symbolically) that remove_variable, rename_variable, set_lower/upper_bound, "
                      "set_current_variable and their helpers preserve the representation invariant of DesignSpace (one variable order for variables, normalisation "
                      "policies and index ranges; adjacent index ranges summing to the dimension; cached normalisation data dropped), and that normalize_vect / "
                      "unnormalize_vect / round_vect compute the affine maps component-wise for every vector; bijection, unit-interval and gradient-scaling "
                      "identities as real-arithmetic lemmas over those postconditions.",
        "level_note": "Trusted: pyvc with its ordered-dict model, numpy model (npmodel.py), z3, reals for floats; pydantic's Variable is a modelled record. "
                      "Not covered: add_variable/filter/filter_dimensions/extend/set_current_value, get_current_value, conversions dict<->array, check_membership, "
                      "project_into_bounds, complex dtype, file I/O; integer rounding inside unnormalize_vect (precondition: no integer variable).",
        "design_ref": "DESIGN.md §4 C02",
        "not_covered": ["add_variable", "filter", "filter_dimensions", "extend", "set_current_value", "get_current_value", "convert_array_to_dict/convert_dict_to_array",
                        "check_membership", "project_into_bounds", "unnormalize_vect with integer variables"],
        "modules": ["contracts.c02_design_space", "contracts.c02_normalization"],
    },
    "C01": {
        "level_text": "Proof, function by function and for all inputs, of the database lookup / compute / store protocol of ProblemFunction: a recorded point is "
                      "served from the database without calling the user's callables (ghost call log unchanged), a miss returns what the evaluation "
                      "sequence computes and records exactly that value (the unnormalised Jacobian in the normalised case) under the physical point, "
                      "every other database entry untouched; Database.store / get_function_value as whole-map postconditions.",
        "level_note": "Trusted: pyvc, z3; arrays are opaque contents (HashableNdarray equality = content equality, byte-level caveats such as -0.0/dtype ignored); "
                      "the user's callables are deterministic uninterpreted functions; unnormalize_vect/normalize_grad/unnormalize_grad are uninterpreted here "
                      "(their arithmetic is proved under C02). Not covered: _preprocess_function (composition of the sequences), sparse Jacobians, tolerance lookup.",
        "design_ref": "DESIGN.md §4 C01",
        "modules": ["contracts.c01_c03_evaluation"],
        "not_covered": ["EvaluationProblem._preprocess_function", "MDOLinearFunction.normalize", "sparse Jacobian branches", "Database tolerance > 0 lookup"],
    },
    "C03": {
        "level_text": "Proof of the evaluation-budget mechanism on gemseo's side of the algorithm/problem interface, hence for every algorithm: each "
                      "database-assisted evaluation creates at most one new non-empty entry and only while the counter is below its maximum "
                      "(MaxIterReachedException is raised before the user's callable is invoked otherwise); Database.store notifies the new-iteration "
                      "listeners exactly when a new non-empty entry appears; the driver callback adds exactly one to the counter per notification; "
                      "the budget invariant and its corollary 'at most N new entries' are then SMT lemmas over these contracts.",
        "level_note": "Trusted: pyvc, z3; opaque arrays; listeners are opaque callables logged in a ghost call log (their effect on the counter is linked by the lemma, "
                      "not by store's frame). Not covered: BaseDriverLibrary.execute (settings plumbing, try/except -> result), stop criteria, DOE loop, third-party optimisers.",
        "design_ref": "DESIGN.md §4 C03",
        "modules": ["contracts.c01_c03_evaluation"],
        "not_covered": ["BaseDriverLibrary.execute", "stop_criteria.py", "BaseDOELibrary._run", "use_database=False"],
    },
    "C05": {
        "level_text": "Proof (function by function, all inputs, unbounded) that SimpleCache operations implement a one-entry map from input content to "
                      "(outputs, Jacobian) and never keep a reference to an array the caller passed in; relative to the assumed contract of "
                      "compare_dict_of_arrays. Only the cache layer is proved; see level_note.",
        "level_note": "Trusted: pyvc VC generator and its dict/list models, z3/cvc5, arrays as opaque contents in a symbolic heap, "
                      "compare_dict_of_arrays contract assumed. Not covered: HDF5Cache, linearize protocol, locking.",
        "design_ref": "DESIGN.md §4 C05",
        "modules": ["contracts.c05_caches", "contracts.c05_full_cache"],
        "runtime": "contracts.rt_c05",
        "assumptions": [
            "arrays are opaque values compared by content; numpy's `!=`/norm inside compare_dict_of_arrays are not modelled",
            "hash_data is an arbitrary (possibly colliding) function of the input data",
        ],
        "not_covered": ["HDF5Cache (h5py)", "multi-process locking", "Discipline.linearize Jacobian-cache protocol"],
    },
    "C13": {
        "level_text": "Proof, for an arbitrary number of tasks and workers, an arbitrary completion order (any permutation of the results in the out-queue) and an "
                      "arbitrary set of failing tasks, that CallableParallelExecution.execute returns the outputs positionally matched to the inputs, calls every "
                      "callback exactly once per successful task with the matching (index, output), confines a failure to its own slot, re-raises the first "
                      "received exception of a listed class and always terminates and joins its workers; proof of the worker loop (_execute_workers: exactly one "
                      "result per task taken, on the normal and on the exception path) and of _TaskCallables.__call__.",
        "level_note": "The OS scheduler and the queue implementation are outside of the logic: the queue contract (exactly-once delivery, arbitrary order) is an "
                      "assumption, under which the order-sensitive sequential code is proved for every delivery order. Consequences for DOE / chains / "
                      "linearization / derivative approximation are not under contract yet.",
        "design_ref": "DESIGN.md §4 C13",
        "modules": ["contracts.c13_parallel"],
        "assumptions": [
            "queue contract: every item put in a queue is delivered exactly once, to exactly one getter, in an arbitrary order; every started worker runs "
            "_execute_workers to completion (fairness/termination of the scheduler)",
            "user tasks have a deterministic outcome (value or exception) that depends only on the callable and its input, and do not touch the state of "
            "the caller; process-based workers operate on pickled copies with the same behaviour (C20)",
            "callbacks return normally; exceptions_to_re_raise only contains exception classes; n_processes >= 1 (PositiveInt in all settings)",
            "POSIX platform; a process named 'subprocess' is a (daemonic) gemseo worker",
        ],
        "not_covered": ["_check_unicity (set cardinality)", "parallel DOE / DiscParallelExecution / DiscParallelLinearization / parallel finite differences write-back",
                        "shared caches and locks under true concurrency", "pickling of workers and data (C20)"],
    },
    "C08": {
        "level_text": "TBD",
        "level_note": "see evidence",
        "modules": ["contracts.c08_dependency"],
        "assumptions": [],
        "not_covered": [],
    },
    "C09": {
        "level_text": "TBD",
        "level_note": "see evidence",
        "modules": ["contracts.c09_chain_rule"],
        "assumptions": [],
        "not_covered": [],
    },
    "C15": {
        "level_text": "Proof (function by function, all inputs, unbounded) on the real source of RequiredNames, Defaults, SimpleGrammar and the "
                      "BaseGrammar template methods (instantiated with SimpleGrammar's primitives) that every edit preserves the representation "
                      "invariant (required names and default keys are element names, parts bound to their grammar), changes the abstract view "
                      "(names->types, required set, defaults) exactly as specified and nothing else, and that SimpleGrammar validation raises "
                      "exactly when the data violates the current definition. JSON-schema/pydantic grammars are not covered; see level_note.",
        "level_note": "see evidence (work in progress)",
        "design_ref": "DESIGN.md §4 C15",
        "modules": ["contracts.c15_grammars"],
        "assumptions": [],
        "not_covered": [],
    },
}

_TODO = "not yet under contract in this build; see DESIGN.md §9 (build order) - no other technique is substituted"
NOT_APPLICABLE = {
    "C06": "convergence of floating-point fixed-point/Newton iterations is a liveness/real-analysis property; function contracts can only state the loop exit condition, which does not decide it (DESIGN.md §6)",
    "C12": "quantifies over process-death points and on-disk HDF5 state, which function contracts cannot express; the contract-expressible restart clauses are obligations of C01/C03 (DESIGN.md §6)",
    "C19": "values of SciPy/OpenTURNS distribution functions in floating point; no gemseo logic to put under contract and no SMT theory for the special functions (DESIGN.md §6)",
}
for _p in ["C%02d" % i for i in range(1, 21)]:
    if _p not in PROPS and _p not in NOT_APPLICABLE:
        NOT_APPLICABLE[_p] = _TODO
