"""Sidecar contracts on the real gemseo functions, one module per property (DESIGN.md §4)."""

PROPS = {
    "C02": {
        "level_text": "Proof of the representation invariant of DesignSpace over its mutators.",
        "level_note": "see evidence",
        "modules": ["contracts.c02_design_space"],
    },
    "C03": {
        "level_text": "Proof of the budget mechanism on gemseo's side of the algorithm/problem interface.",
        "level_note": "see evidence",
        "modules": ["contracts.c01_c03_evaluation"],
    },
    "C05": {
        "level_text": "Proof (function by function, all inputs, unbounded) that SimpleCache operations implement a one-entry map from input content to "
                      "(outputs, Jacobian) and never keep a reference to an array the caller passed in; relative to the assumed contract of "
                      "compare_dict_of_arrays. Only the cache layer is proved; see level_note.",
        "level_note": "Trusted: pyvc VC generator and its dict/list models, z3/cvc5, arrays as opaque contents in a symbolic heap, "
                      "compare_dict_of_arrays contract assumed. Not covered: HDF5Cache, linearize protocol, locking.",
        "design_ref": "DESIGN.md §4 C05",
        "modules": ["contracts.c05_caches"],
        "runtime": "contracts.rt_c05",
        "assumptions": [
            "arrays are opaque values compared by content; numpy's `!=`/norm inside compare_dict_of_arrays are not modelled",
            "hash_data is an arbitrary (possibly colliding) function of the input data",
        ],
        "not_covered": ["HDF5Cache (h5py)", "multi-process locking", "Discipline.linearize Jacobian-cache protocol"],
    },
}

_TODO = "not yet under contract in this build; see DESIGN.md §9 (build order) - no other technique is substituted"
NOT_APPLICABLE = {
    "C06": "convergence of floating-point fixed-point/Newton iterations is a liveness/real-analysis property; function contracts can only state the loop exit condition, which does not decide it (DESIGN.md §6)",
    "C12": "quantifies over process-death points and on-disk HDF5 state, which function contracts cannot express; the contract-expressible restart clauses are obligations of C01/C03 (DESIGN.md §6)",
    "C19": "values of SciPy/OpenTURNS distribution functions in floating point; no gemseo logic to put under contract and no SMT theory for the special functions (DESIGN.md §6)",
}
for _p in ["C%02d" % i for i in range(1, 21)]:
    if _p not in PROPS and _p not in NOT_APPLICABLE:
        NOT_APPLICABLE[_p] = _TODO
