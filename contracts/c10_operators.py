"""C10 (continued) - what the public operators of MDOFunction return.

``f + g``, ``f - g``, ``f * g``, ``f / g`` (g a function or a number) and ``f.offset(c)`` are ``_AdditionFunctionMaker(MDOFunction, f, g[, inverse]).function``
/ ``_MultiplicationFunctionMaker(...)``: the constructors are verified here.  They record exactly these two operands in this order, the flags and the
numpy operator that the verified ``_compute_operation`` / ``_compute_operation_jacobian`` (contracts/c10_function_algebra.py) assume, and build a NEW
MDOFunction whose value is the maker's ``_compute_operation`` and whose Jacobian is the maker's ``_compute_operation_jacobian`` iff the operands have
one (both functions; the function when the other operand is a number), with dim / output names / normalisation flag of the first operand, the
function type as coded, and the union of the input names.
"""
from __future__ import annotations

import z3

from contracts.c10_function_algebra import ADD, MDOF, MUL, TConst
from pyvc.contract import Contract, register, schema
from pyvc.plug_c01 import SelfRef
from pyvc.values import BoundMethod, BuiltinV, ClassV, PyObj, Ref, T, TBool, TFun, TInt, TList, TObj, TReal, TStr, TVal
from pyvc.npmodel import TArr

F1 = TArr("f", 1)
NIC = "gemseo.core.mdo_functions.not_implementable_callable.NotImplementedCallable"
MAKER = "gemseo.core.mdo_functions._operations._OperationFunctionMaker"
schema(NIC, {"_NotImplementedCallable__message": TStr})


class TClass(T):
    """A parameter holding a given class object."""

    def __init__(self, qualname):
        self.qualname = qualname
        self.name = f"Class[{qualname}]"

    def fresh(self, st, hint):
        return ClassV(self.qualname)


_COMMON = {"name": TStr, "f_type": TStr, "expr": TStr, "_input_names": TList(TStr), "_output_names": TList(TStr), "dim": TInt, "last_eval": TVal,
           "force_real": TBool, "special_repr": TStr, "has_default_name": TBool, "_MDOFunction__original_name": TStr,
           "_MDOFunction__expects_normalized_inputs": TBool}
for _who in ("f", "g"):
    # an operand with a Jacobian (a user callable) / without one (the placeholder installed by the `jac` setter)
    schema(f"{MDOF}#op-{_who}-jac", dict(_COMMON, _func=TFun(f"c10_{_who}", [F1], F1), _jac=TFun(f"c10_D{_who}", [F1], TArr("f", 2)), original=SelfRef(MDOF)))
    schema(f"{MDOF}#op-{_who}-nojac", dict(_COMMON, _func=TFun(f"c10_{_who}", [F1], F1), _jac=TObj(NIC), original=SelfRef(MDOF)))
schema(f"{MDOF}#op-result", dict(_COMMON, _func=TVal, _jac=TVal, original=SelfRef(MDOF)))


def maker_fields(second):
    return {"_first_operand": TVal, "_second_operand": TVal, "_second_operand_is_number": TBool, "_second_operand_is_func": TBool, "_operator": TVal,
            "_operator_repr": TStr, "_second_operand_expr": TStr, "_second_operand_name": TStr, "function": TVal}


class _StringGlue(Contract):
    prop = ("C10",)
    trusted = True
    returns = TStr
    description = "assumed: builds the textual expression of the combined function (strings and a regular expression only, no effect on the state)"


@register
class ComputeExpr(_StringGlue):
    targets = (MAKER + "._compute_expr",)


@register
class ComputeExprMul(_StringGlue):
    targets = (MUL + "._compute_expr",)


def zs(c, v):
    """z3 term of a string value (concrete Python strings are embedded)."""
    return TStr.embed(c.st, v) if isinstance(v, str) else v


def zb(v):
    return z3.BoolVal(v) if isinstance(v, bool) else v


def zi(v):
    return z3.IntVal(v) if isinstance(v, int) and not isinstance(v, bool) else v


def bound(v, owner_ref, qualname):
    return isinstance(v, BoundMethod) and isinstance(v.recv, Ref) and v.recv.id == owner_ref.id and v.finfo is not None and v.finfo.qualname == qualname


CASES = [("function", True, True), ("function", False, True), ("function", True, False), ("number", True, None), ("number", False, None)]


def _make(cls_q, inverse, second, first_jac, second_jac):
    opname = {(ADD, False): "numpy.add", (ADD, True): "numpy.subtract", (MUL, False): "numpy.multiply", (MUL, True): "numpy.divide"}[(cls_q, inverse)]
    oprepr = {(ADD, False): "+", (ADD, True): "-", (MUL, False): "*", (MUL, True): "/"}[(cls_q, inverse)]
    key = f"{cls_q}#init"
    schema(key, maker_fields(second))
    has_jac = first_jac and (second_jac if second == "function" else True)

    class MakerInit(Contract):
        __doc__ = __doc__
        targets = (cls_q + ".__init__",)
        variant = (f"{'inverse' if inverse else 'direct'},{second},first-{'with' if first_jac else 'without'}-jacobian"
                   + (f",second-{'with' if second_jac else 'without'}-jacobian" if second == "function" else ""))
        prop = ("C10",)
        numpy = "precise"
        c01 = True
        c01_construct = {MDOF: f"{MDOF}#op-result"}
        numbers_abc = True
        function_type_enum = True
        frame_arrays = True
        self_schema = key
        params = {"cls": TClass(MDOF), "first_operand": TObj(MDOF, schema_key=f"{MDOF}#op-f-{'jac' if first_jac else 'nojac'}"),
                  "second_operand": TObj(MDOF, schema_key=f"{MDOF}#op-g-{'jac' if second_jac else 'nojac'}") if second == "function" else TReal,
                  "inverse": TConst(inverse)}
        modifies = ("self",)
        # one operand expects normalised inputs and the other does not
        raises = ({"RuntimeError": lambda c: c.old.first_operand._MDOFunction__expects_normalized_inputs != c.old.second_operand._MDOFunction__expects_normalized_inputs}
                  if second == "function" else {})

        def ensures(self, c):
            s = c.new.self
            sf = s.obj.fields
            f1 = c.old.first_operand
            me = c.arg("self")
            fn = sf.get("function")
            out = [("first-operand-recorded", z3.BoolVal(sf.get("_first_operand") == c.arg("first_operand"))),
                   ("second-operand-recorded", z3.BoolVal(sf.get("_second_operand") == c.arg("second_operand")) if second == "function"
                    else s._second_operand == c.old.second_operand),
                   ("flags", z3.And(zb(s._second_operand_is_func) == (second == "function"), zb(s._second_operand_is_number) == (second != "function"))),
                   ("operator", z3.BoolVal(isinstance(sf.get("_operator"), BuiltinV) and sf["_operator"].name == opname)),
                   ("operator-symbol", zs(c, s._operator_repr) == TStr.embed(c.st, oprepr))]
            ok = isinstance(fn, Ref) and isinstance(c._new_heap.get(fn.id), PyObj) and c._new_heap[fn.id].cls == MDOF and fn.id not in c._old_heap
            out.append(("function:is-a-new-MDOFunction", z3.BoolVal(ok)))
            if not ok:
                return out
            r = s.function
            rf = r.obj.fields
            jac = rf.get("_jac")
            jac_cls = c._new_heap[jac.id].cls if isinstance(jac, Ref) and isinstance(c._new_heap.get(jac.id), PyObj) else None
            out += [
                ("function:value-is-the-maker's-operation", z3.BoolVal(bound(rf.get("_func"), me, MAKER + "._compute_operation"))),
                ("function:jacobian-iff-the-operands-have-one",
                 z3.BoolVal(bound(jac, me, cls_q + "._compute_operation_jacobian") if has_jac else jac_cls == NIC)),
                ("function:dimension-of-the-first-operand", zi(r.dim) == f1.dim),
                ("function:normalisation-flag-of-the-first-operand", zb(r._MDOFunction__expects_normalized_inputs) == f1._MDOFunction__expects_normalized_inputs),
                ("function:output-names-of-the-first-operand", z3.And(r._output_names.n == f1._output_names.n, r._output_names.elems == f1._output_names.elems)),
                ("function:is-its-own-original", z3.BoolVal(rf.get("original") == fn)),
            ]
            if second == "function":
                f2 = c.old.second_operand
                from pyvc.models import str_nonempty_f

                ne = str_nonempty_f
                out.append(("function:type-of-the-first-typed-operand", zs(c, r.f_type) == z3.If(ne(f1.f_type), f1.f_type, z3.If(ne(f2.f_type), f2.f_type, TStr.embed(c.st, "")))))
            else:
                out += [("function:type-of-the-function", zs(c, r.f_type) == f1.f_type),
                        ("function:input-names-of-the-function", z3.And(r._input_names.n == f1._input_names.n, r._input_names.elems == f1._input_names.elems))]
            return out

    MakerInit.__name__ = f"MakerInit_{cls_q.rsplit('.', 1)[-1]}_{MakerInit.variant}"
    register(MakerInit)


for _cls in (ADD, MUL):
    for _inv in (False, True):
        for _second, _fj, _sj in CASES:
            _make(_cls, _inv, _second, _fj, _sj)


# ---------------------------------------------------------------------------- the public operators
PUBLIC = {"__add__": (ADD, False), "__sub__": (ADD, True), "__mul__": (MUL, False), "__truediv__": (MUL, True)}
OPNAME = {(ADD, False): "numpy.add", (ADD, True): "numpy.subtract", (MUL, False): "numpy.multiply", (MUL, True): "numpy.divide"}
for _c in (ADD, MUL):
    schema(_c, maker_fields(None))


def _public(method, second):
    cls_q, inverse = PUBLIC[method]

    class PublicOperator(Contract):
        """f <op> g is a NEW MDOFunction: its value is the `_compute_operation` and its Jacobian the `_compute_operation_jacobian` of a function maker
        that holds exactly (f, g) in this order with the numpy operator of <op> - the closures verified in contracts/c10_function_algebra.py -
        and neither operand is modified."""

        targets = (MDOF + "." + method,)
        variant = f"{second}-operand"
        prop = ("C10",)
        numpy = "precise"
        c01 = True
        c01_construct = {MDOF: f"{MDOF}#op-result", cls_q: cls_q}
        numbers_abc = True
        function_type_enum = True
        frame_arrays = True
        self_schema = f"{MDOF}#op-f-jac"
        params = {"other": TObj(MDOF, schema_key=f"{MDOF}#op-g-jac") if second == "function" else TReal}
        modifies = ()
        raises = ({"RuntimeError": lambda c: c.old.self._MDOFunction__expects_normalized_inputs != c.old.other._MDOFunction__expects_normalized_inputs}
                  if second == "function" else {})

        def ensures(self, c):
            fn = c.result_value
            h = c._new_heap
            ok = isinstance(fn, Ref) and isinstance(h.get(fn.id), PyObj) and h[fn.id].cls == MDOF and fn.id not in c._old_heap
            out = [("result:is-a-new-MDOFunction", z3.BoolVal(ok))]
            if not ok:
                return out
            rf = h[fn.id].fields
            func, jac = rf.get("_func"), rf.get("_jac")
            mk = func.recv if isinstance(func, BoundMethod) and isinstance(func.recv, Ref) else None
            mo = h.get(mk.id) if mk is not None else None
            good = isinstance(mo, PyObj) and mo.cls == cls_q and mk.id not in c._old_heap
            out.append(("result:value-is-the-operation-of-a-new-function-maker", z3.BoolVal(good and bound(func, mk, MAKER + "._compute_operation"))))
            if not good:
                return out
            mf = mo.fields
            so = mf.get("_second_operand")
            out += [
                ("result:jacobian-is-the-operation-jacobian-of-the-same-maker", z3.BoolVal(bound(jac, mk, cls_q + "._compute_operation_jacobian"))),
                ("maker:first-operand-is-self", z3.BoolVal(mf.get("_first_operand") == c.arg("self"))),
                ("maker:second-operand-is-other", z3.BoolVal(so == c.arg("other")) if second == "function" else c.new_view(so) == c.old.other),
                ("maker:operator", z3.BoolVal(isinstance(mf.get("_operator"), BuiltinV) and mf["_operator"].name == OPNAME[(cls_q, inverse)])),
                ("maker:flags", z3.And(zb(c.new_view(mf.get("_second_operand_is_func"))) == (second == "function"),
                                       zb(c.new_view(mf.get("_second_operand_is_number"))) == (second != "function"))),
                ("maker:the-function-it-built-is-the-result", z3.BoolVal(mf.get("function") == fn)),
            ]
            return out

    PublicOperator.__name__ = f"Public_{method}_{second}"
    register(PublicOperator)


def _new_view(self, v):
    from pyvc.contract import View

    return View(self._new_heap, v, self.st)._wrap(v)


from pyvc.contract import Ctx as _Ctx  # noqa: E402

if not hasattr(_Ctx, "new_view"):
    _Ctx.new_view = _new_view

for _m in PUBLIC:
    for _s in ("function", "number"):
        _public(_m, _s)


@register
class OffsetNumber(Contract):
    """f.offset(c) for a number c is f + c: a NEW MDOFunction whose value / Jacobian are the operation / operation Jacobian of an addition maker holding
    (f, c) with numpy.add (only the display strings name, expr and special_repr are then rewritten); f is not modified."""

    targets = (MDOF + ".offset",)
    variant = "number"
    prop = ("C10",)
    numpy = "precise"
    c01 = True
    c01_construct = {MDOF: f"{MDOF}#op-result", ADD: ADD}
    numbers_abc = True
    function_type_enum = True
    frame_arrays = True
    dunder_binop = True  # `self + value` is self.__add__(value)
    self_schema = f"{MDOF}#op-f-jac"
    params = {"value": TReal}
    modifies = ()

    def ensures(self, c):
        fn = c.result_value
        h = c._new_heap
        ok = isinstance(fn, Ref) and isinstance(h.get(fn.id), PyObj) and h[fn.id].cls == MDOF and fn.id not in c._old_heap
        out = [("result:is-a-new-MDOFunction", z3.BoolVal(ok))]
        if not ok:
            return out
        rf = h[fn.id].fields
        func, jac = rf.get("_func"), rf.get("_jac")
        mk = func.recv if isinstance(func, BoundMethod) and isinstance(func.recv, Ref) else None
        mo = h.get(mk.id) if mk is not None else None
        good = isinstance(mo, PyObj) and mo.cls == ADD and mk.id not in c._old_heap
        out.append(("result:value-is-the-operation-of-a-new-addition-maker", z3.BoolVal(good and bound(func, mk, MAKER + "._compute_operation"))))
        if not good:
            return out
        mf = mo.fields
        return out + [
            ("result:jacobian-is-the-operation-jacobian-of-the-same-maker", z3.BoolVal(bound(jac, mk, ADD + "._compute_operation_jacobian"))),
            ("maker:first-operand-is-self", z3.BoolVal(mf.get("_first_operand") == c.arg("self"))),
            ("maker:second-operand-is-the-offset", c.new_view(mf.get("_second_operand")) == c.old.value),
            ("maker:operator-is-the-addition", z3.BoolVal(isinstance(mf.get("_operator"), BuiltinV) and mf["_operator"].name == "numpy.add")),
            ("maker:number-flag", zb(c.new_view(mf.get("_second_operand_is_number"))) == True),  # noqa: E712
        ]
