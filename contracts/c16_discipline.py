"""C16 - the glue above the gradient approximators: f_gradient / generate_perturbations, parallel centered differences,
discipline-level approximation (compute_approx_jac) and Jacobian checking.
"""
from __future__ import annotations

import z3

from contracts.c16_approx import _fixed_output_dimension
from contracts.c16_derivatives import BASE, F1, F2, FD, Ffun, column, el, idx_ok, ln
from pyvc import contract as C
from pyvc.contract import Contract, LoopSpec, register, schema
from pyvc.plug_c16 import TStepUnion
from pyvc.values import TBool, TDict, TInt, TList, TNone, TOpt, TReal, TStr, TVal

M_OUT = z3.Int("m_out")


def _step_of(c, comp):
    """The step of input component `comp`: the default step (step=None), the global step, or the entry of the per-component step vector."""
    st = c.old.step
    if st is None:
        return c.old.self._step
    return st if z3.is_expr(st) else el(st, comp)


def _one_step_per_component(c):
    st = c.old.step
    if st is None or z3.is_expr(st):
        return []
    return [("one-step-per-input-component", ln(st) == ln(c.old.x_vect))]


# ============================================================================ BaseGradientApproximator.f_gradient (forward differences)
@register
class FGradientForwardDifferences(Contract):
    """J = f_gradient(x, step, x_indices): with I = x_indices (all the components, in order, when empty) and h = step (the default step
    when None), the perturbed points are P[:, k] = x + h e_{I_k} and J[i, k] = (F(P[:, k])[i] - F(x)[i]) / h: shape (m, len(I)),
    whether the evaluation is sequential or parallel."""

    targets = (BASE + ".f_gradient",)
    variant = "fd"
    self_class = FD
    self_schema = FD + "#par"
    prop = ("C16", "C13")
    numpy = "precise"
    c16 = True
    fun_output_dim = M_OUT
    params = {"x_vect": F1, "step": TStepUnion(optional=True), "x_indices": TList(TInt)}  # None (default step) | one global step | one step per input component
    returns = F2
    modifies = ("self",)  # self._function_kwargs

    def requires(self, c):
        x = c.old.x_vect
        return idx_ok(c.old.x_indices, ln(x)) + [("at-least-one-variable", ln(x) >= 1), _fixed_output_dimension()] + _one_step_per_component(c)

    def ensures(self, c):
        x, idx = c.old.x_vect, c.old.x_indices
        n = z3.If(idx.n == 0, ln(x), idx.n)
        comp = lambda k: z3.If(idx.n == 0, k, idx.elems[k])  # noqa: E731
        h = lambda k: _step_of(c, comp(k))  # the step of the component differentiated by perturbation k  # noqa: E731
        P = c.locals["input_perturbations"]
        J = c.result
        i, k = z3.Int("i!fg"), z3.Int("k!fg")
        fx = Ffun(F1.dt.mk(ln(x), x.obj.elems))
        return [
            ("shape", z3.And(ln(J, 0) == M_OUT, ln(J, 1) == n)),
            ("perturbed-points", z3.And(ln(P, 0) == ln(x), ln(P, 1) == n, z3.ForAll([i, k], z3.Implies(
                z3.And(0 <= i, i < ln(x), 0 <= k, k < n), el(P, i, k) == el(x, i) + z3.If(i == comp(k), h(k), z3.RealVal(0)))))),
            ("difference-quotients", z3.ForAll([i, k], z3.Implies(z3.And(0 <= i, i < M_OUT, 0 <= k, k < n),
                                                                   el(J, i, k) == (F1.els(Ffun(column(P, k)))[i] - F1.els(fx)[i]) / h(k)))),
        ]


# ============================================================================ CenteredDifferences._compute_parallel_grad
from contracts.c16_approx import CD, CenteredComputeGrad  # noqa: E402
from contracts.c16_derivatives import FP  # noqa: E402

schema(CD + "#par", {"f_pointer": FP, "_step": TReal, "_normalize": TBool, "_parallel": TBool, "_design_space": TNone,
                     "_parallel_args": TDict(TStr, TVal), "_function_kwargs": TDict(TStr, TVal)})


@register
class CenteredComputeParallelGrad(CenteredComputeGrad):
    """Same quotients as the sequential computation (same postcondition): the outputs are taken positionally from the parallel execution
    (one task per column of the perturbation matrix; output k with output n + k)."""

    targets = (CD + "._compute_parallel_grad",)
    prop = ("C16", "C13")
    self_schema = CD + "#par"
    modifies = ("self",)  # self._function_kwargs


from contracts.c16_approx import _col, _diff, np_norm  # noqa: E402


@register
class FGradientCenteredDifferences(Contract):
    """J = f_gradient(x, step, x_indices) for centered differences: the perturbed points are P[:, k] = x + h e_{I_k} and
    P[:, n + k] = x - h e_{I_k}, and J[i, k] = (F(P[:, k])[i] - F(P[:, n + k])[i]) / ||P[:, k] - P[:, n + k]||, sequential or parallel."""

    targets = (BASE + ".f_gradient",)
    variant = "cd"
    self_class = CD
    self_schema = CD + "#par"
    prop = ("C16", "C13")
    numpy = "precise"
    c16 = True
    fun_output_dim = M_OUT
    params = {"x_vect": F1, "step": TStepUnion(optional=True), "x_indices": TList(TInt)}  # None (default step) | one global step | one step per input component
    returns = F2
    modifies = ("self",)

    def requires(self, c):
        x = c.old.x_vect
        return idx_ok(c.old.x_indices, ln(x)) + [("at-least-one-variable", ln(x) >= 1), _fixed_output_dimension()] + _one_step_per_component(c)

    def ensures(self, c):
        x, idx = c.old.x_vect, c.old.x_indices
        n = z3.If(idx.n == 0, ln(x), idx.n)
        comp = lambda k: z3.If(idx.n == 0, k, idx.elems[k])  # noqa: E731
        h = lambda k: _step_of(c, comp(k))  # noqa: E731
        P = c.locals["input_perturbations"]
        J = c.result
        i, k, q = z3.Int("i!fg"), z3.Int("k!fg"), z3.Int("q!fg")
        rng = z3.And(0 <= i, i < ln(x), 0 <= k, k < n)
        bump = z3.If(i == comp(k), h(k), z3.RealVal(0))
        return [
            ("shape", z3.And(ln(J, 0) == M_OUT, ln(J, 1) == n)),
            ("perturbed-points:shape", z3.And(ln(P, 0) == ln(x), ln(P, 1) == 2 * n)),
            ("perturbed-points:forward", z3.ForAll([i, k], z3.Implies(rng, el(P, i, k) == el(x, i) + bump))),
            ("perturbed-points:backward", z3.ForAll([i, q], z3.Implies(z3.And(0 <= i, i < ln(x), n <= q, q < 2 * n),
                                                                        el(P, i, q) == el(x, i) - z3.If(i == comp(q - n), h(q - n), z3.RealVal(0))))),
            ("centered-quotients", z3.ForAll([i, k], z3.Implies(z3.And(0 <= i, i < M_OUT, 0 <= k, k < n),
                                                                 el(J, i, k) == (F1.els(Ffun(_col(P, k)))[i] - F1.els(Ffun(_col(P, n + k)))[i]) / np_norm(_diff(P, k, n + k))))),
        ]


# ============================================================================ split_array_to_dict_of_arrays (blocks of the flat Jacobian)
from pyvc.plug_c16 import TByArity, TNamesTuple  # noqa: E402

SPLIT = "gemseo.utils.data_conversion.split_array_to_dict_of_arrays"
D1 = TDict(TStr, F2)  # {input name: block}
D2 = TDict(TStr, D1)  # {output name: {input name: block}}
offc = z3.Function("split_col_offset", z3.IntSort(), z3.IntSort())  # first column of the j-th name of the LAST dimension
offr = z3.Function("split_row_offset", z3.IntSort(), z3.IntSort())  # first row of the j-th name of the penultimate dimension


def _names(c, i):
    return C.View(c._old_heap, c.old.names[i], c.st)


def _size(c, names, j):
    return c.old.names_to_sizes.get(names.elems[j])


def _sizes_ok(c, names, label):
    j, j2 = z3.Int("j!so"), z3.Int("j2!so")
    return [(f"{label}:every-name-has-a-size", z3.ForAll([j], z3.Implies(z3.And(0 <= j, j < names.n), z3.And(c.old.names_to_sizes.has(names.elems[j]), _size(c, names, j) >= 0)),
                                                          patterns=[names.elems[j]])),
            (f"{label}:names-are-distinct", z3.ForAll([j, j2], z3.Implies(z3.And(0 <= j, j < j2, j2 < names.n), names.elems[j] != names.elems[j2])))]


def _offsets(c, off, names, label):
    j = z3.Int("j!of")
    return [(f"{label}(0) = 0", off(0) == 0),
            (f"{label}(j+1) = {label}(j) + size(j)", z3.ForAll([j], z3.Implies(j >= 0, off(j + 1) == off(j) + _size(c, names, j)), patterns=[off(j + 1)]))]


def _nonneg_lemma(off, n, label):
    """Consequence of the recurrence with non-negative sizes (induction not repeated here): offsets are non-negative and non-decreasing."""
    j = z3.Int("j!nn")
    return (f"{label}: 0 <= off(j) <= off(j+1) <= off(n)", z3.ForAll([j], z3.Implies(z3.And(0 <= j, j < n), z3.And(0 <= off(j), off(j) <= off(j + 1), off(j + 1) <= off(n))), patterns=[off(j)]))


def _col_block(A, blk, j, size, off):
    """blk (embedded matrix) = A[:, off(j) : off(j) + size]."""
    i, t = z3.Int("i!cb"), z3.Int("t!cb")
    return z3.And(F2.dim(blk, 0) == ln(A, 0), F2.dim(blk, 1) == size,
                  z3.ForAll([i, t], z3.Implies(z3.And(0 <= i, i < ln(A, 0), 0 <= t, t < size), z3.Select(F2.els(blk), i, t) == el(A, i, off(j) + t))))


def _split1_inv(c, k):
    A, names = c.old.array, _names(c, 0)
    res = c.locals["result"]
    j = z3.Int("j!s1")
    return [("first-index-is-the-offset", c.locals["first_index"] == offc(k)),
            ("blocks", z3.ForAll([j], z3.Implies(z3.And(0 <= j, j < k), z3.And(res.has(names.elems[j]), _col_block(A, res.get(names.elems[j]), j, _size(c, names, j), offc))),
                                 patterns=[names.elems[j]]))]


def _block(c, A, blk, a, b):
    """blk = A[offr(a) : offr(a) + size_a, offc(b) : offc(b) + size_b] (outputs = names[0], inputs = names[1])."""
    outs, ins = _names(c, 0), _names(c, 1)
    sa, sb = _size(c, outs, a), _size(c, ins, b)
    i, t = z3.Int("i!bk"), z3.Int("t!bk")
    return z3.And(F2.dim(blk, 0) == sa, F2.dim(blk, 1) == sb,
                  z3.ForAll([i, t], z3.Implies(z3.And(0 <= i, i < sa, 0 <= t, t < sb), z3.Select(F2.els(blk), i, t) == el(A, offr(a) + i, offc(b) + t))))


def _row_of_blocks(c, A, dterm, a):
    """dterm (embedded {input: block}) holds, for every input name b, the block (a, b)."""
    ins = _names(c, 1)
    b = z3.Int("b!rb")
    mem, vals = D1.acc(0)(dterm), D1.acc(1)(dterm)
    return z3.ForAll([b], z3.Implies(z3.And(0 <= b, b < ins.n), z3.And(mem[ins.elems[b]], _block(c, A, vals[ins.elems[b]], a, b))), patterns=[ins.elems[b]])


def _split2_inv(c, k):
    A, outs = c.old.array, _names(c, 0)
    res = c.locals["result"]
    a = z3.Int("a!s2")
    return [("first-index-is-the-offset", c.locals["first_index"] == offr(k)),
            ("rows-of-blocks", z3.ForAll([a], z3.Implies(z3.And(0 <= a, a < k), z3.And(res.has(outs.elems[a]), _row_of_blocks(c, A, res.get(outs.elems[a]), a))),
                                         patterns=[outs.elems[a]]))]


def _arity(c):
    return len(c.old.names)


def _split_inv(c, k):
    return _split1_inv(c, k) if _arity(c) == 1 else _split2_inv(c, k)


RES = TByArity({1: D1, 2: D2})


@register
class SplitArray(Contract):
    """One list of names (last dimension of a matrix): result[x_j] = array[:, col(j) : col(j) + size_j].
    Two lists (rows = names[0], columns = names[1]): result[o_a][x_b] = array[rows of o_a, columns of x_b] - the placement of the flat Jacobian
    into jac[output][input].  The rows / columns of a name start at the prefix sum of the sizes of the names before it."""

    targets = (SPLIT,)
    prop = ("C16",)
    numpy = "precise"
    c16 = True
    params = {"array": F2, "names_to_sizes": TDict(TStr, TInt), "names": TNamesTuple(2)}
    returns = RES
    loops = {0: LoopSpec(anchor="names[0]", inv=_split_inv, modifies=("result",), local_types={"result": RES})}

    def axioms(self, c):
        if _arity(c) == 1:
            return _offsets(c, offc, _names(c, 0), "col") + [_nonneg_lemma(offc, _names(c, 0).n, "col")]
        outs, ins = _names(c, 0), _names(c, 1)
        return _offsets(c, offr, outs, "row") + _offsets(c, offc, ins, "col") + [_nonneg_lemma(offr, outs.n, "row"), _nonneg_lemma(offc, ins.n, "col")]

    def requires(self, c):
        A = c.old.array
        no_check = ("no-consistency-check", c.arg("check_consistency") is False)
        if _arity(c) == 1:
            names = _names(c, 0)
            return _sizes_ok(c, names, "names") + [("columns-available", offc(names.n) <= ln(A, 1)), no_check]
        outs, ins = _names(c, 0), _names(c, 1)
        return (_sizes_ok(c, outs, "row-names") + _sizes_ok(c, ins, "column-names")
                + [("rows-available", offr(outs.n) <= ln(A, 0)), ("columns-available", offc(ins.n) <= ln(A, 1)), no_check])

    def ensures(self, c):
        A = c.old.array
        res = c.result
        j = z3.Int("j!sp")
        if _arity(c) == 1:
            names = _names(c, 0)
            return [("column-blocks", z3.ForAll([j], z3.Implies(z3.And(0 <= j, j < names.n), z3.And(res.has(names.elems[j]), _col_block(A, res.get(names.elems[j]), j, _size(c, names, j), offc))),
                                                patterns=[names.elems[j]]))]
        outs = _names(c, 0)
        return [("blocks", z3.ForAll([j], z3.Implies(z3.And(0 <= j, j < outs.n), z3.And(res.has(outs.elems[j]), _row_of_blocks(c, A, res.get(outs.elems[j]), j))),
                                     patterns=[outs.elems[j]]))]


@register
class OffsetLemmas(Contract):
    """Induction steps behind `0 <= off(j) <= off(j+1) <= off(n)` for off(0) = 0, off(j+1) = off(j) + size(j), size >= 0 (assumed as an axiom above)."""

    targets = ()
    prop = ("C16",)
    lemma = True

    def lemmas(self):
        off = z3.Function("lem_off", z3.IntSort(), z3.IntSort())
        size = z3.Function("lem_size", z3.IntSort(), z3.IntSort())
        j, n = z3.Ints("j n")
        rec = z3.And(off(0) == 0, off(j + 1) == off(j) + size(j), size(j) >= 0)
        return [("nonneg:base", z3.Implies(off(0) == 0, off(0) >= 0)),
                ("nonneg:step", z3.Implies(z3.And(rec, off(j) >= 0), off(j + 1) >= 0)),
                ("monotone", z3.Implies(rec, off(j) <= off(j + 1))),
                ("below-total:base", off(n) <= off(n)),
                ("below-total:step (downwards)", z3.Implies(z3.And(rec, off(j + 1) <= off(n)), off(j) <= off(n)))]


# ============================================================================ DisciplineJacApprox.compute_approx_jac
from pyvc.plug_c16 import dict_total  # noqa: E402
from pyvc.values import TObj  # noqa: E402

DJA = "gemseo.utils.derivatives.derivatives_approx.DisciplineJacApprox"
DISC = "gemseo.core.discipline.discipline.Discipline"
IO = "gemseo.core.discipline.io.IO"
GR = "gemseo.core.grammars.base_grammar.BaseGrammar"
CONV = "gemseo.core.data_converters.base.BaseDataConverter"
SIZES = TDict(TStr, TInt)
NAMES = TList(TStr)

schema(CONV + "#c16", {})
schema(GR + "#c16", {"_data_converter": TObj(CONV, schema_key=CONV + "#c16")})
schema(IO + "#c16", {"_IO__data": TDict(TStr, TVal), "input_grammar": TObj(GR, schema_key=GR + "#c16"), "output_grammar": TObj(GR, schema_key=GR + "#c16")})
schema(DISC + "#c16", {"io": TObj(IO, schema_key=IO + "#c16"), "cache": TNone})
schema(BASE + "#abs", {})
schema(DJA, {"discipline": TObj(DISC, schema_key=DISC + "#c16"), "step": TReal, "approximator": TObj(BASE, schema_key=BASE + "#abs"),
             "auto_steps": TDict(TStr, F1)})

GJ = z3.Function("approximated_jacobian", z3.IntSort(), z3.IntSort(), z3.RealSort())  # entries of the Jacobian returned by approximator.f_gradient
GF = z3.Function("flat_jacobian", z3.IntSort(), z3.IntSort(), z3.RealSort())  # entries of the complete flat Jacobian (ghost of the local flat_jac_complete)
vsize = z3.Function("variable_size", TStr.sort(), z3.IntSort())  # size of a variable in the discipline's current data
names_total = z3.Function("names_total", NAMES.sort(), z3.IntSort())  # total size of a list of variables


def _lst(v):
    return NAMES.dt.mk(v.n, v.elems)


@register
class ComputeNamesToSizes(Contract):
    targets = (CONV + ".compute_names_to_sizes",)
    prop = ("C16",)
    self_schema = CONV + "#c16"
    params = {"names": NAMES}
    returns = SIZES
    trusted = True
    description = ("assumed: compute_names_to_sizes(names, data) maps every name of `names` to the (non-negative) size of its value in `data` (a function of the name "
                   "for the discipline's current data); the sum of the sizes is the total size of the list of names")

    def ensures(self, c):
        names, r = c.old.names, c.result
        j = z3.Int("j!ns")
        kk = z3.Const("k!ns", TStr.sort())
        return [("sizes", z3.ForAll([j], z3.Implies(z3.And(0 <= j, j < names.n), z3.And(r.has(names.elems[j]), r.get(names.elems[j]) == vsize(names.elems[j]),
                                                                                       vsize(names.elems[j]) >= 0)), patterns=[names.elems[j]])),
                ("every-entry-is-a-size", z3.ForAll([kk], z3.Implies(r.has(kk), z3.And(r.get(kk) == vsize(kk), vsize(kk) >= 0)), patterns=[r.get(kk)])),
                ("total", dict_total(SIZES)(SIZES.dt.mk(r.member, r.vals, r.n)) == names_total(_lst(names)))]


@register
class ConvertDataToArray(Contract):
    targets = (CONV + ".convert_data_to_array",)
    prop = ("C16",)
    self_schema = CONV + "#c16"
    params = {"names": NAMES}
    returns = F1
    trusted = True
    description = "assumed: convert_data_to_array(names, data) concatenates the values of the names: a vector whose length is the total size of the names"

    def ensures(self, c):
        return [("length", ln(c.result) == names_total(_lst(c.old.names)))]


@register
class CreateApproximator(Contract):
    targets = (DJA + "._create_approximator",)
    prop = ("C16",)
    params = {"output_names": NAMES, "input_names": NAMES}
    modifies = ("self",)
    trusted = True
    description = ("assumed: _create_approximator hands the approximator the function of the generator (DisciplineAdapterGenerator.get_function(input_names, output_names)): "
                   "it evaluates the discipline at the input data updated with the input vector and concatenates the outputs in `output_names` order, so its "
                   "output dimension is the total size of the outputs; step and auto_steps are not modified")

    def ensures(self, c):
        return [("output-dimension", M_OUT == names_total(_lst(c.old.output_names))),
                ("step-kept", c.new.self.step == c.old.self.step),
                ("auto-steps-kept", C.same_dict(c.old.self.auto_steps, c.new.self.auto_steps, TStr))]


@register
class FGradientAbstract(Contract):
    targets = (BASE + ".f_gradient",)
    prop = ("C16",)
    self_schema = BASE + "#abs"
    numpy = "precise"
    params = {"x_vect": F1, "x_indices": TList(TInt)}
    returns = F2
    trusted = True
    description = ("summary (shape only) of the verified contracts f_gradient@fd / f_gradient@cd used at the discipline level: the Jacobian has one row per "
                   "output component and one column per differentiated component (all the components when x_indices is empty); ASSUMES that the call returns: "
                   "with per-component steps (auto_set_step) and a strict subset of components gemseo raises ValueError (reported, not under contract)")

    def ensures(self, c):
        x, idx = c.old.x_vect, c.old.x_indices
        r, k = z3.Int("r!fa"), z3.Int("k!fa")
        return [("shape", z3.And(ln(c.result, 0) == M_OUT, ln(c.result, 1) == z3.If(idx.n == 0, ln(x), idx.n))),
                # GJ names the entries of the Jacobian returned by the approximator in this call
                ("entries", z3.ForAll([r, k], el(c.result, r, k) == GJ(r, k), patterns=[el(c.result, r, k)]))]


def _approx_axioms(c, outs=None, ins=None):
    outs, ins = (c.old.output_names, c.old.input_names) if outs is None else (outs, ins)
    j = z3.Int("j!aa")
    return [("row(0) = 0", offr(0) == 0),
            ("row(j+1) = row(j) + size(output j)", z3.ForAll([j], z3.Implies(j >= 0, offr(j + 1) == offr(j) + vsize(outs.elems[j])), patterns=[offr(j + 1)])),
            ("col(0) = 0", offc(0) == 0),
            ("col(j+1) = col(j) + size(input j)", z3.ForAll([j], z3.Implies(j >= 0, offc(j + 1) == offc(j) + vsize(ins.elems[j])), patterns=[offc(j + 1)])),
            ("total size of the outputs = last row offset", names_total(_lst(outs)) == offr(outs.n)),
            ("total size of the inputs = last column offset", names_total(_lst(ins)) == offc(ins.n))]


def _distinct(names, label):
    j, j2 = z3.Int("j!dn"), z3.Int("j2!dn")
    return (label, z3.ForAll([j, j2], z3.Implies(z3.And(0 <= j, j < j2, j2 < names.n), names.elems[j] != names.elems[j2])))


@register
class ComputeApproxJac(Contract):
    """jac[o_a][x_b] = FLAT[rows of o_a, columns of x_b] (prefix sums of the output / input sizes), FLAT being the Jacobian J returned by the
    approximator when all the components are differentiated, and otherwise the zero matrix whose column x_indices[k] is column k of J."""

    targets = (DJA + ".compute_approx_jac",)
    prop = ("C16",)
    numpy = "precise"
    c16 = True
    params = {"output_names": NAMES, "input_names": NAMES, "x_indices": TList(TInt)}
    returns = D2
    modifies = ("self",)
    raises = {"ValueError": lambda c: c.old.self.auto_steps.n >= 1}  # inconsistent automatic steps
    raises_exact = False

    def axioms(self, c):
        return _approx_axioms(c)

    def requires(self, c):
        outs, ins, idx = c.old.output_names, c.old.input_names, c.old.x_indices
        return [_distinct(outs, "output-names-are-distinct"), _distinct(ins, "input-names-are-distinct")] + idx_ok(idx, offc(ins.n))

    def ensures(self, c):
        return approx_jac_post(c, c.old.output_names, c.old.input_names, c.old.x_indices, c.result, getattr(c, "locals", None))


def approx_jac_post(c, outs, ins, idx, res, locals_):
    """The postcondition of compute_approx_jac over the result `res`; inside the function the complete flat matrix is the local
    flat_jac_complete, for callers it is the ghost function GF (the local's entries)."""
    if locals_ is not None and "flat_jac_complete" in locals_:
        FLAT = locals_["flat_jac_complete"]
        flat = lambda r, q: el(FLAT, r, q)  # noqa: E731
        shape = [("flat:shape", z3.And(ln(FLAT, 0) == offr(outs.n), ln(FLAT, 1) == offc(ins.n)))]
    else:
        flat, shape = GF, []
    a, b, i, t, r, q, k = (z3.Int(n + "!aj") for n in "abitrqk")
    blk = D1.acc(1)(res.get(outs.elems[a]))[ins.elems[b]]
    sa, sb = vsize(outs.elems[a]), vsize(ins.elems[b])
    rows, cols = offr(outs.n), offc(ins.n)
    sub = idx.n >= 1
    return shape + [
        ("flat:all-components", z3.Implies(z3.Not(sub), z3.ForAll([r, q], z3.Implies(z3.And(0 <= r, r < rows, 0 <= q, q < cols), flat(r, q) == GJ(r, q))))),
        ("flat:selected-columns", z3.Implies(sub, z3.ForAll([r, k], z3.Implies(z3.And(0 <= r, r < rows, 0 <= k, k < idx.n), flat(r, idx.elems[k]) == GJ(r, k))))),
        ("flat:other-columns-are-zero", z3.Implies(sub, z3.ForAll([r, q], z3.Implies(
            z3.And(0 <= r, r < rows, 0 <= q, q < cols, z3.ForAll([k], z3.Implies(z3.And(0 <= k, k < idx.n), idx.elems[k] != q))), flat(r, q) == 0)))),
        ("blocks:present", z3.ForAll([a, b], z3.Implies(z3.And(0 <= a, a < outs.n, 0 <= b, b < ins.n),
                                                      z3.And(res.has(outs.elems[a]), D1.acc(0)(res.get(outs.elems[a]))[ins.elems[b]], F2.dim(blk, 0) == sa, F2.dim(blk, 1) == sb)))),
        ("blocks:placement", z3.ForAll([a, b, i, t], z3.Implies(z3.And(0 <= a, a < outs.n, 0 <= b, b < ins.n, 0 <= i, i < sa, 0 <= t, t < sb),
                                                               z3.Select(F2.els(blk), i, t) == flat(offr(a) + i, offc(b) + t)))),
    ]


# ============================================================================ Discipline: approximation modes
schema(DISC + "#lin", {"_linearization_mode": TStr, "_jac_approx": TObj(DJA), "jac": D2,
                       "_Discipline__input_names": NAMES, "_Discipline__output_names": NAMES})
APPROX_MODES = ("complex_step", "finite_differences", "centered_differences")


def _is_approx(mode):
    from pyvc.values import str_lit

    return z3.Or(*[mode == str_lit(m) for m in APPROX_MODES])


class _NoIndices:
    n, elems = z3.IntVal(0), z3.K(z3.IntSort(), z3.IntVal(0))


@register
class DisciplineComputeJacobian(Contract):
    """In an approximation mode (finite differences, centered differences, complex step) linearization stores in self.jac exactly what the
    Jacobian approximator computes for the requested outputs and inputs, all components: jac[o_a][x_b] = block (a, b) of the approximated Jacobian."""

    targets = (DISC + ".__compute_jacobian",)
    prop = ("C16",)
    self_schema = DISC + "#lin"
    numpy = "precise"
    c16 = True
    c01 = True  # set(<StrEnum class>)
    modifies = ("self", "self._jac_approx")
    raises = {"ValueError": lambda c: z3.And(_is_approx(c.old.self._linearization_mode), c.old.self._jac_approx.auto_steps.n >= 1)}  # inconsistent automatic steps
    raises_exact = False

    def _names(self, c):
        return c.old.self._Discipline__output_names, c.old.self._Discipline__input_names

    def axioms(self, c):
        return _approx_axioms(c, *self._names(c))

    def requires(self, c):
        outs, ins = self._names(c)
        return [_distinct(outs, "output-names-are-distinct"), _distinct(ins, "input-names-are-distinct")]

    def ensures(self, c):
        outs, ins = self._names(c)
        post = approx_jac_post(c, outs, ins, _NoIndices, c.new.self.jac, None)
        return [(label, z3.Implies(_is_approx(c.old.self._linearization_mode), f)) for label, f in post if "selected" not in label and "other-columns" not in label]


# ============================================================================ DisciplineJacApprox.check_jacobian (comparison loop, all components)
from pyvc.plug_c16 import TSel, np_allclose  # noqa: E402

schema(GR + "#c16", {"_data_converter": TObj(CONV, schema_key=CONV + "#c16"), "_defaults": TDict(TStr, TVal)})
schema(DISC + "#c16", {"io": TObj(IO, schema_key=IO + "#c16"), "cache": TNone, "jac": D2, "name": TStr})


def _pair_ok(analytic, oname, dterm, x, thr):
    """The approximated block dterm[x] of output oname and the analytic block have the same shape and are close (numpy.allclose, atol = rtol = thr)."""
    A = D1.acc(1)(analytic.get(oname))[x]
    B = D1.acc(1)(dterm)[x]
    return z3.And(F2.dim(A, 0) == F2.dim(B, 0), F2.dim(A, 1) == F2.dim(B, 1), np_allclose(A, B, thr, thr))


def _row_ok(analytic, oname, dterm, thr):
    x = z3.Const("x!ro", TStr.sort())
    return z3.ForAll([x], z3.Implies(D1.acc(0)(dterm)[x], _pair_ok(analytic, oname, dterm, x, thr)), patterns=[D1.acc(0)(dterm)[x]])


def _cj_outer(c, k):
    """(member-wise form: every key of the approximated Jacobian already visited, i.e. at a position < k of the iteration order)"""
    an, ap, thr = c.locals["analytic_jacobian"], c.locals["approximated_jacobian"], c.old.threshold
    o = z3.Const("o!co", TStr.sort())
    return [("succeed-iff-every-compared-row-is-close",
             c.locals["succeed"] == z3.ForAll([o], z3.Implies(z3.And(ap.has(o), c.seq.pos[o] < k), _row_ok(an, o, ap.get(o), thr)), patterns=[ap.has(o)]))]


def _cj_inner(c, m):
    an, thr = c.locals["analytic_jacobian"], c.old.threshold
    oj = c.locals["output_jacobian"]
    dterm = D1.dt.mk(oj.member, oj.vals, oj.n)
    x = z3.Const("x!ci", TStr.sort())
    return [("succeed-iff-before-and-every-compared-block-is-close",
             c.locals["succeed"] == z3.And(c.pre_locals["succeed"],
                                           z3.ForAll([x], z3.Implies(z3.And(oj.has(x), c.seq.pos[x] < m), _pair_ok(an, c.locals["output_name"], dterm, x, thr)), patterns=[oj.has(x)])))]


@register
class CheckJacobianAllComponents(Contract):
    """Without `indices`, reference file and plot: check_jacobian approximates the Jacobian (compute_approx_jac) and succeeds iff, for every
    (output, input) block of the approximated Jacobian, the analytic block (the given one, or discipline.jac when none is given) has the same
    shape and is within `threshold` of it in numpy.allclose's norm (atol = rtol = threshold)."""

    targets = (DJA + ".check_jacobian",)
    prop = ("C16",)
    numpy = "precise"
    c16 = True
    params = {"output_names": NAMES, "input_names": NAMES, "analytic_jacobian": D2, "threshold": TReal, "indices": TDict(TStr, TSel)}
    returns = TBool
    modifies = ("self",)
    raises = {"ValueError": lambda c: c.old.self.auto_steps.n >= 1,  # inconsistent automatic steps (compute_approx_jac)
              "KeyError": None}  # an approximated block without analytic counterpart
    raises_exact = False
    loops = {0: LoopSpec(anchor="approximated_jacobian.items()", inv=_cj_outer, modifies=()),
             1: LoopSpec(anchor="output_jacobian.items()", inv=_cj_inner, modifies=())}

    def axioms(self, c):
        return _approx_axioms(c)

    def requires(self, c):
        outs, ins = c.old.output_names, c.old.input_names
        return [_distinct(outs, "output-names-are-distinct"), _distinct(ins, "input-names-are-distinct"), ("all-components", c.old.indices.n == 0)]

    def ensures(self, c):
        an, ap, thr = c.locals["analytic_jacobian"], c.locals["approximated_jacobian"], c.old.threshold
        o = z3.Const("o!cj", TStr.sort())
        post = approx_jac_post(c, c.old.output_names, c.old.input_names, _NoIndices, ap, None)
        return [("succeeds-iff-every-block-is-close", c.result == z3.ForAll([o], z3.Implies(ap.has(o), _row_ok(an, o, ap.get(o), thr)), patterns=[ap.has(o)]))] + \
               [("approximated:" + label, f) for label, f in post if label.startswith("blocks")]
