"""C17 - how the formulations are BUILT: which constraints IDF adds, which variables each formulation keeps in the design space.

* ``IDF._build_constraints``: for every discipline, in order, with a non-empty list of output couplings, EXACTLY ONE constraint is added to
  the optimization problem (ghost log of ``OptimizationProblem.add_constraint``): the ConsistencyConstraint of (these couplings, this
  formulation), or - when its discipline adapter is linear - the linear approximation OF THAT CONSTRAINT (``y(x) - y_target``, not of its
  coupling function ``y(x)``) at ``zeros(adapter.input_dimension)`` with type EQ; nothing is added for a discipline without output coupling.
  ``CouplingStructure.get_output_couplings`` (verified under C08), ``compute_linear_approximation`` and ``add_constraint`` are abstract:
  uninterpreted functions of their arguments / a ghost log.
* ``ConsistencyConstraint.__init__``: the coupling function is the FunctionFromDiscipline of exactly the given couplings for the given
  formulation, the normalisation factor is ``formulation._get_normalization_factor(output_couplings)`` when constraints are normalised,
  the MDOFunction is initialised with ``_func_to_wrap`` / ``_jac_to_wrap`` of the very object and the type EQ.
* ``IDF.__init__``: ``all_couplings`` is the coupling structure's ``all_couplings``, ``_update_design_space`` runs before ``_build_constraints``
  (ghost call trace), ``IDF.get_top_level_disciplines``.
* MDF / DisciplinaryOpt / BaseFormulation: which variables stay in the design space.

MDO functions are values here (pyvc/plug_c17b.py).
"""
from __future__ import annotations

import z3

from pyvc.contract import Contract, LoopSpec, register, schema
from pyvc.gmodels import to_val  # noqa: F401
from pyvc.plug_c17b import LISTS, MdoFun, NAME_LIST, TMdoFun, adapter_dim, adapter_linear, list_el, list_n
from contracts import c17_consistency as K17  # noqa: F401  (ConsistencyInit: its construction precondition is checked in _build_constraints)
from contracts import c17_formulations as F17  # noqa: F401  (schemas OP#c17 / DS#c17)
from pyvc.values import TBool, TDict, TInt, TList, TNd, TObj, TRec, TStr, TVal, ValS, declare_ghost, str_lit, val_of_int

IDFC = "gemseo.formulations.idf.IDF"
BF = "gemseo.formulations.base_formulation.BaseFormulation"
OP = "gemseo.algos.optimization_problem.OptimizationProblem"
CS = "gemseo.core.coupling_structure.CouplingStructure"
TAYLOR = "gemseo.core.mdo_functions.taylor_polynomials.compute_linear_approximation"
INT = z3.IntSort()
STR = TStr.sort()
DISCS = TList(TVal)  # disciplines as opaque values
DARR = z3.ArraySort(INT, ValS)
LOG = z3.ArraySort(INT, MdoFun)

declare_ghost("c17_added", LOG)  # the functions passed to OptimizationProblem.add_constraint, in call order
declare_ghost("c17_added_n", INT)

# abstract collaborators ------------------------------------------------------------------------------------------------
oc_of = z3.Function("c17_output_couplings", ValS, z3.BoolSort(), LISTS)  # CouplingStructure.get_output_couplings(discipline, strong)
lin_of = z3.Function("c17_linear_approximation", MdoFun, ValS, STR, MdoFun)  # compute_linear_approximation(function, x_vect, f_type=...)
np_zeros = z3.Function("np_numpy_zeros_1", ValS, ValS)  # the opaque numpy layer's zeros(n)

schema(CS + "#c17b", {"all_couplings": NAME_LIST})  # (model field: what the lazily computed property all_couplings returns)
schema(OP + "#c17b", {})
DSC = "gemseo.algos.design_space.DesignSpace"
SETTINGS = TRec("IDFSettingsC17", {"n_processes": TInt, "use_threading": TBool, "normalize_constraints": TBool, "start_at_equilibrium": TBool})
schema(IDFC + "#build", {"_BaseFormulation__disciplines": DISCS, "coupling_structure": TObj(CS, schema_key=CS + "#c17b"),
                         "all_couplings": NAME_LIST, "normalize_constraints": TBool, "_settings": SETTINGS,
                         "optimization_problem": TObj(OP, schema_key=OP + "#c17")})  # (OP#c17 / DS#c17: c17_formulations - the variables of the design space)


@register
class OutputCouplingsAbstract(Contract):
    targets = (CS + ".get_output_couplings",)
    variant = "c17"
    prop = ("C17",)
    self_schema = CS + "#c17b"
    params = {"discipline": TVal, "strong": TBool}
    returns = NAME_LIST
    trusted = True
    description = ("assumed (verified under C08): get_output_couplings(discipline, strong) returns a new list that is a function of the discipline and "
                   "of the flag (uninterpreted c17_output_couplings), without any effect")

    def ensures(self, c):
        s = c.old.strong
        t = oc_of(c.old.discipline, z3.BoolVal(s) if isinstance(s, bool) else s)
        out = [("length", c.result.n == list_n(t)), ("names", c.result.elems == list_el(t))]
        if s is False:
            # C08 (GetOutputCouplings): with strong=False the names are taken among all the couplings of the structure
            ac, r = c.old.self.all_couplings, c.result
            i, j = z3.Int("i!oc"), z3.Int("j!oc")
            out.append(("output-couplings-are-couplings", z3.ForAll([i], z3.Implies(z3.And(0 <= i, i < r.n), z3.Exists([j], z3.And(0 <= j, j < ac.n, ac.elems[j] == r.elems[i]))),
                                                                   patterns=[r.elems[i]])))
        return out


@register
class LinearApproximationAbstract(Contract):
    targets = (TAYLOR,)
    prop = ("C17",)
    params = {"function": TMdoFun, "x_vect": TNd, "f_type": TStr}
    returns = TMdoFun
    trusted = True
    description = ("assumed: compute_linear_approximation(function, x_vect, f_type=...) is an uninterpreted function (c17_linear_approximation) of the "
                   "function it linearises, of the point and of the type, without any effect (default name and input names)")

    def ensures(self, c):
        return [("value", c.result == lin_of(c.old.function, c.old.x_vect, TStr.embed(c.st, c.arg("f_type"))))]


@register
class AddConstraintLogged(Contract):
    targets = (OP + ".add_constraint",)
    variant = "c17"
    prop = ("C17",)
    self_schema = OP + "#c17b"
    params = {"function": TMdoFun}
    modifies = ("ghost:c17_added", "ghost:c17_added_n")
    trusted = True
    description = ("assumed: OptimizationProblem.add_constraint(function) with the default value / type / sign appends the function to the constraints "
                   "of the problem (ghost log c17_added) and has no other effect on the formulation")

    def ensures(self, c):
        l0, n0 = c.old_ghost("c17_added", LOG), c.old_ghost("c17_added_n", INT)
        return [("appended", c.new_ghost("c17_added", LOG) == z3.Store(l0, n0, c.old.function)), ("count", c.new_ghost("c17_added_n", INT) == n0 + 1)]


# the constraints IDF has to add -------------------------------------------------------------------------------------------
cnt = z3.Function("c17_disciplines_with_couplings", DARR, INT, INT)  # number of disciplines with output couplings among the first k


def couplings_of(d):
    return oc_of(d, z3.BoolVal(False))


def has_couplings(d):
    return list_n(couplings_of(d)) != 0


def cnt_axioms(a):
    """Recursive definition of the count along the sequence a (instantiated for the sequence at hand: no quantifier over sequences)."""
    k = z3.Int("k!cn")
    return [("def:count(0)", cnt(a, 0) == 0),
            ("def:count(k+1)", z3.ForAll([k], z3.Implies(k >= 0, cnt(a, k + 1) == cnt(a, k) + z3.If(has_couplings(a[k]), 1, 0)), patterns=[cnt(a, k + 1)]))]


def expected_constraint(d, form_id):
    """The constraint IDF must add for discipline d (which has output couplings)."""
    oc = couplings_of(d)
    cons, ffd = MdoFun.consistency(oc, form_id), MdoFun.from_disc(oc, form_id)
    linearised = lin_of(cons, np_zeros(val_of_int(adapter_dim(ffd))), str_lit("eq"))
    return z3.If(adapter_linear(ffd), linearised, cons)


def _added(c, upto, L=None):
    """The log after the first `upto` disciplines (of the formulation, or of the list L) were handled, relative to the entry state."""
    L = c.old.self._BaseFormulation__disciplines if L is None else L
    form = z3.IntVal(c.arg("self").id)
    l0, n0 = c.old_ghost("c17_added", LOG), c.old_ghost("c17_added_n", INT)
    l1, n1 = c.new_ghost("c17_added", LOG), c.new_ghost("c17_added_n", INT)
    j, i = z3.Int("j!ad"), z3.Int("i!ad")
    a = L.elems
    return [
        ("one-constraint-per-discipline-with-couplings", n1 == n0 + cnt(a, upto)),
        ("earlier-constraints-kept", z3.ForAll([i], z3.Implies(i < n0, l1[i] == l0[i]), patterns=[l1[i]])),
        ("constraint-of-each-discipline-in-order", z3.ForAll([j], z3.Implies(z3.And(0 <= j, j < upto, has_couplings(a[j])),
                                                                              l1[n0 + cnt(a, j)] == expected_constraint(a[j], form)), patterns=[cnt(a, j)])),
    ]


def _build_inv(c, k):
    L = c.old.self._BaseFormulation__disciplines
    a = L.elems
    j = z3.Int("j!bi")
    return _added(c, k) + [
        ("count-nonneg", cnt(a, k) >= 0),
        ("slots-below", z3.ForAll([j], z3.Implies(z3.And(0 <= j, j < k), z3.And(cnt(a, j) >= 0, cnt(a, j) + z3.If(has_couplings(a[j]), 1, 0) <= cnt(a, k))), patterns=[cnt(a, j)])),
    ]


@register
class IdfBuildConstraints(Contract):
    targets = (IDFC + "._build_constraints",)
    prop = ("C17",)
    self_schema = IDFC + "#build"
    c17b = True
    callee_variants = {CS + ".get_output_couplings": "c17", OP + ".add_constraint": "c17"}
    modifies = ("ghost:c17_added", "ghost:c17_added_n")
    # no anchor: the invariant is stated over the formulation's own sequence of disciplines, whatever sequence the loop runs over
    loops = {0: LoopSpec(anchor=None, modifies=("ghost:c17_added", "ghost:c17_added_n"), inv=_build_inv, local_types={"discipline": TVal})}

    def requires(self, c):
        # established by IDF.__init__, which sets all_couplings, runs _update_design_space (ValueError unless every coupling is a design
        # variable) and sets normalize_constraints BEFORE it builds the constraints
        s = c.old.self
        return [("couplings-are-design-variables", couplings_in_ds(s.all_couplings, s.optimization_problem.design_space._variables)),
                ("normalize-constraints-is-the-setting", s.normalize_constraints == s._settings.normalize_constraints),
                ("all-couplings-are-those-of-the-coupling-structure", z3.And(s.all_couplings.n == s.coupling_structure.all_couplings.n,
                                                                              s.all_couplings.elems == s.coupling_structure.all_couplings.elems))]

    def axioms(self, c):
        return cnt_axioms(c.old.self._BaseFormulation__disciplines.elems)

    def ensures(self, c):
        return _added(c, c.old.self._BaseFormulation__disciplines.n)


def couplings_in_ds(cp, d):
    j = z3.Int("j!cd")
    return z3.ForAll([j], z3.Implies(z3.And(0 <= j, j < cp.n), d.member[cp.elems[j]]), patterns=[cp.elems[j]])


# ============================================================================ which variables stay in the design space
from contracts import c02_design_space as D2  # noqa: E402
from contracts import c17_mdf as M17  # noqa: E402
from pyvc.plug_c17b import top_inputs_member  # noqa: E402
from pyvc.values import TSet  # noqa: E402

MDFC = "gemseo.formulations.mdf.MDF"
MDA = "gemseo.mda.base_mda.BaseMDA"
DISC = "gemseo.core.discipline.discipline.Discipline"
DOPT = "gemseo.formulations.disciplinary_opt.DisciplinaryOpt"
schema(DISC + ".io#c17b", {"input_grammar": TSet(TStr), "output_grammar": TSet(TStr)})  # a grammar is seen through `name in grammar` / iteration only: its set of names
schema(MDA + "#c17b", {"coupling_structure": M17.CSREC, "io": TObj(DISC + ".io", schema_key=DISC + ".io#c17b")})
schema(BF + "#unused", {"_BaseFormulation__disciplines": DISCS, "c17_top_level_disciplines": DISCS,  # ghost: what get_top_level_disciplines() returns (abstract in BaseFormulation)
                        "optimization_problem": TObj(OP, schema_key=OP + "#c17mdf")})
schema(MDFC + "#update", {"_BaseFormulation__disciplines": DISCS, "mda": TObj(MDA, schema_key=MDA + "#c17b"), "optimization_problem": TObj(OP, schema_key=OP + "#c17mdf")})


@register
class TopLevelDisciplinesAbstract(Contract):
    targets = (BF + ".get_top_level_disciplines",)
    prop = ("C17",)
    self_schema = BF + "#unused"
    returns = DISCS
    trusted = True
    description = ("assumed (abstract method of BaseFormulation): get_top_level_disciplines() returns the formulation's top-level disciplines (ghost field "
                   "c17_top_level_disciplines; opaque disciplines whose input names are the uninterpreted sets c17_inputs_of), without any effect")

    def ensures(self, c):
        L = c.old.self.c17_top_level_disciplines
        return [("length", c.result.n == L.n), ("disciplines", c.result.elems == L.elems)]


def _ds17(v):
    return v.self.optimization_problem.design_space


def _kept_state(c, s1, upto, top):
    """The design space s1 after the first `upto` variables (in the entry order) were handled, relative to the entry state:
    a handled variable is still there iff it is an input of a top-level discipline, the others are untouched."""
    v0, v1 = D2.V(_ds17(c.old)), D2.V(s1)
    j = z3.Int("j!ku")
    x = z3.Const("x!ku", STR)
    return [
        ("handled-variables-kept-iff-top-level-inputs", z3.ForAll([x], z3.Implies(z3.And(v0.has(x), v0.pos[x] < upto), v1.has(x) == top(x)), patterns=[v0.has(x)])),
        ("only-entry-variables-with-their-definitions", z3.ForAll([x], z3.Implies(v1.has(x), z3.And(v0.has(x), v1.vals[x] == v0.vals[x])), patterns=[v1.has(x)])),
        ("unhandled-variables-kept", z3.ForAll([x], z3.Implies(z3.And(v0.has(x), v0.pos[x] >= upto), v1.has(x)), patterns=[v0.has(x)])),
    ]


def _kept_final(c, s1, top):
    v0, v1 = D2.V(_ds17(c.old)), D2.V(s1)
    x = z3.Const("x!kf", STR)
    return [("only-top-level-inputs-are-kept", z3.ForAll([x], z3.Implies(v1.has(x), z3.And(v0.has(x), top(x))), patterns=[v1.has(x)])),
            ("design-variables-that-are-top-level-inputs-are-kept", z3.ForAll([x], z3.Implies(z3.And(v0.has(x), top(x)), v1.has(x)), patterns=[v0.has(x)])),
            ("definitions-kept", z3.ForAll([x], z3.Implies(v1.has(x), v1.vals[x] == v0.vals[x]), patterns=[v1.has(x)]))]


class _RemoveUnused(Contract):
    """A design variable is kept iff it is an input of some top-level discipline (with its definition; the design space stays well-formed)."""

    targets = (BF + "._remove_unused_variables",)
    prop = ("C17",)
    c17b = True
    modifies = ("self.optimization_problem.design_space",)

    def top(self, c):
        raise NotImplementedError

    def requires(self, c):
        return D2.wf(_ds17(c.old))

    def ensures(self, c):
        s1 = _ds17(c.new)
        return D2.wf(s1) + _kept_final(c, s1, self.top(c))


def _loop_unused(cls):
    def inv(c, k):
        s = _ds17(c.new)
        return D2.wf(s) + _kept_state(c, s, k, cls.top(cls, c))

    # no anchor: the invariant is stated over the variables of the entry design space, in their order
    return {0: LoopSpec(anchor=None, modifies=("self.optimization_problem.design_space",), inv=inv, local_types={"name": TStr})}


@register
class RemoveUnusedAbstract(_RemoveUnused):
    self_schema = BF + "#unused"

    def top(self, c):
        L = c.old.self.c17_top_level_disciplines
        return top_inputs_member(L.elems, L.n)


RemoveUnusedAbstract.loops = _loop_unused(RemoveUnusedAbstract)


@register
class RemoveUnusedMdf(_RemoveUnused):
    """MDF: the only top-level discipline is the MDA."""

    variant = "mdf"
    self_class = MDFC
    self_schema = MDFC + "#update"

    def top(self, c):
        g = c.old.self.mda.io.input_grammar
        return lambda x: g.member[x]


RemoveUnusedMdf.loops = _loop_unused(RemoveUnusedMdf)


@register
class MdfUpdateDesignSpace(Contract):
    """MDF keeps exactly the design variables it optimizes: no coupling of the MDA (weak or strong) is a design variable afterwards, a variable
    is kept iff it was a design variable, is no coupling and is an input of the MDA (the only top-level discipline); definitions are kept."""

    targets = (MDFC + "._update_design_space",)
    prop = ("C17",)
    self_schema = MDFC + "#update"
    c17b = True
    callee_variants = {BF + "._remove_unused_variables": "mdf"}
    modifies = ("self.optimization_problem.design_space",)

    def requires(self, c):
        return D2.wf(_ds17(c.old))

    def ensures(self, c):
        s0, s1 = _ds17(c.old), _ds17(c.new)
        v0, v1 = D2.V(s0), D2.V(s1)
        cp = c.old.self.mda.coupling_structure.all_couplings
        g = c.old.self.mda.io.input_grammar
        j = z3.Int("j!mu")
        x = z3.Const("x!mu", STR)
        among = M17._among(cp, x, cp.n)
        return D2.wf(s1) + [
            ("no-coupling-is-a-design-variable", z3.ForAll([j], z3.Implies(z3.And(0 <= j, j < cp.n), z3.Not(v1.has(cp.elems[j]))), patterns=[cp.elems[j]])),
            ("only-entry-variables-with-their-definitions", z3.ForAll([x], z3.Implies(v1.has(x), z3.And(v0.has(x), v1.vals[x] == v0.vals[x])), patterns=[v1.has(x)])),
            ("only-inputs-of-the-mda-are-kept", z3.ForAll([x], z3.Implies(v1.has(x), g.member[x]), patterns=[v1.has(x)])),
            ("design-variables-that-are-inputs-of-the-mda-and-no-couplings-are-kept",
             z3.ForAll([x], z3.Implies(z3.And(v0.has(x), g.member[x], z3.Not(among)), v1.has(x)), patterns=[v0.has(x)])),
        ]


# ---------------------------------------------------------------------------- get_top_level_disciplines of the concrete formulations
PCHAIN = "gemseo.core.chains.parallel_chain.MDOParallelChain"
schema(PCHAIN + "#c17b", {})
schema(MDA + "#opaque", {})
schema(MDFC + "#top", {"_BaseFormulation__disciplines": DISCS, "mda": TObj(MDA, schema_key=MDA + "#opaque")})


@register
class MdfTopLevelDisciplines(Contract):
    """MDF: the MDA is the only top-level discipline."""

    targets = (MDFC + ".get_top_level_disciplines",)
    prop = ("C17",)
    self_schema = MDFC + "#top"
    inline_ok = True  # callers execute the one-line body itself

    def ensures(self, c):
        r, mda = c.result_value, c.arg("self") and c.old.self.mda.ref
        return [("the-mda-only", z3.BoolVal(isinstance(r, tuple) and len(r) == 1 and r[0] == mda))]


from pyvc.values import TNone  # noqa: E402

schema(IDFC + "#top-serial", {"_BaseFormulation__disciplines": DISCS, "_parallel_exec": TNone})
schema(IDFC + "#top-parallel", {"_BaseFormulation__disciplines": DISCS, "_parallel_exec": TObj(PCHAIN, schema_key=PCHAIN + "#c17b")})


@register
class IdfTopLevelDisciplines(Contract):
    """IDF without parallel execution: the disciplines themselves, in their order, are the top-level disciplines."""

    targets = (IDFC + ".get_top_level_disciplines",)
    prop = ("C17",)
    self_schema = IDFC + "#top-serial"
    inline_ok = True  # callers execute the one-line body itself

    def ensures(self, c):
        r, L = c.result_value, c.old.self._BaseFormulation__disciplines
        return [("the-disciplines", z3.BoolVal(r == L.ref))]


@register
class IdfTopLevelDisciplinesParallel(Contract):
    """IDF with n_processes > 1: the parallel chain of the disciplines is the only top-level discipline."""

    targets = (IDFC + ".get_top_level_disciplines",)
    variant = "parallel"
    prop = ("C17",)
    self_schema = IDFC + "#top-parallel"
    inline_ok = True  # callers execute the one-line body itself

    def ensures(self, c):
        r, p = c.result_value, c.old.self._parallel_exec.ref
        return [("the-parallel-chain-only", z3.BoolVal(isinstance(r, tuple) and len(r) == 1 and r[0] == p))]


# ============================================================================ IDF.__init__: what is done, in which order
from pyvc.plug_c17b import cs_of  # noqa: E402

CSREC = M17.CSREC
schema(IDFC + "#init", {"_BaseFormulation__disciplines": DISCS, "_settings": SETTINGS, "_parallel_exec": TNone, "coupling_structure": CSREC,
                        "all_couplings": NAME_LIST, "normalize_constraints": TBool, "optimization_problem": TObj(OP, schema_key=OP + "#c17"),
                        "variable_sizes": TDict(TStr, TInt)})


declare_ghost("c17_objective", MdoFun)  # the function last assigned to OptimizationProblem.objective
declare_ghost("c17_objective_set", INT)  # number of such assignments
np_zeros_of_dim = lambda n: np_zeros(val_of_int(n))  # noqa: E731
design_dimension = z3.Function("c17_design_space_dimension", INT, INT)  # of a formulation whose design-space model has no `dimension` field
FTYPE_NONE = ""  # MDOFunction.FunctionType.NONE


@register
class ObjectiveSetLogged(Contract):
    targets = (OP + ".objective",)
    setter = True
    variant = "c17"
    prop = ("C17",)
    params = {"function": TMdoFun}
    modifies = ("ghost:c17_objective", "ghost:c17_objective_set")
    trusted = True
    description = ("assumed: `problem.objective = function` stores the function as the objective of the problem (ghost c17_objective; its type becomes "
                   "'obj') and has no other effect on the formulation or the design space")

    def ensures(self, c):
        return [("stored", c.new_ghost("c17_objective", MdoFun) == c.old.function),
                ("counted", c.new_ghost("c17_objective_set", INT) == c.old_ghost("c17_objective_set", INT) + 1)]


def _current_dimension(c):
    """Dimension of the CURRENT design space of the formulation's problem (the filtered one when called at the end of a constructor)."""
    ds = c.old.self.optimization_problem.design_space
    try:
        return ds.dimension
    except AttributeError:
        return design_dimension(z3.IntVal(c.arg("self").id))


def objective_built_on(c, name_param, self_ref, dim):
    """The objective assigned last is the one _build_objective_from_disc builds for a design space of dimension `dim`."""
    from pyvc.plug_c17b import single_name_list

    ffd = MdoFun.from_disc(single_name_list(TStr.embed(c.st, c.arg(name_param))), z3.IntVal(self_ref.id))
    return c.new_ghost("c17_objective", MdoFun) == z3.If(adapter_linear(ffd), lin_of(ffd, np_zeros_of_dim(dim), str_lit(FTYPE_NONE)), ffd)


schema(BF + "#objective", {"optimization_problem": TObj(OP, schema_key=OP + "#c17mdf")})


@register
class BuildObjective(Contract):
    """The objective of the problem becomes the FunctionFromDiscipline of (the objective name, this formulation) or - when its discipline
    adapter is linear - its linear approximation at the origin OF THE CURRENT DESIGN SPACE of the problem, zeros(design_space.dimension): the
    objective is a function of the current design vector (the design space may have been filtered since variable_sizes was copied; since the
    repair recorded in known_findings.json the point no longer has the adapter's input_dimension).  Nothing else is touched."""

    targets = (BF + "._build_objective_from_disc",)
    prop = ("C17",)
    self_schema = BF + "#objective"
    c17b = True
    c17b_ffd_value = True
    callee_variants = {OP + ".objective#setter": "c17"}
    params = {"objective_name": TStr}
    modifies = ("ghost:c17_objective", "ghost:c17_objective_set")

    def ensures(self, c):
        from pyvc.plug_c17b import single_name_list

        ffd = MdoFun.from_disc(single_name_list(TStr.embed(c.st, c.arg("objective_name"))), z3.IntVal(c.arg("self").id))
        linearised = lin_of(ffd, np_zeros_of_dim(_current_dimension(c)), str_lit(FTYPE_NONE))
        return [("objective", c.new_ghost("c17_objective", MdoFun) == z3.If(adapter_linear(ffd), linearised, ffd)),
                ("set-once", c.new_ghost("c17_objective_set", INT) == c.old_ghost("c17_objective_set", INT) + 1)]


@register
class ComputeEquilibriumAbstract(Contract):
    targets = (IDFC + "._compute_equilibrium",)
    prop = ("C17",)
    trusted = True
    description = ("assumed: _compute_equilibrium only changes the current VALUES of the coupling variables in the design space (same variables, same "
                   "definitions; no effect on the constraints or on the formulation's attributes)")


def _cs_term(c):
    d = c.old.disciplines
    return cs_of(CSREC, DISCS.dt.mk(d.n, d.elems))


def _all_couplings_term(c):
    return CSREC.accessor("all_couplings")(_cs_term(c))


class _ListTerm:
    """View-like access (n, elems) to a list given as a z3 term."""

    def __init__(self, t):
        self.n, self.elems = list_n(t), list_el(t)


def _some_coupling_missing(c):
    ac = _ListTerm(_all_couplings_term(c))
    d = c.old.design_space._variables
    j = z3.Int("j!ii")
    return z3.Exists([j], z3.And(0 <= j, j < ac.n, z3.Not(d.member[ac.elems[j]])))


@register
class IdfInit(Contract):
    """IDF(disciplines, objective, design space): all_couplings are the couplings of the coupling structure of the disciplines; every coupling
    is required as a design variable (ValueError otherwise) and the design space is kept as it is; one consistency constraint per discipline
    with output couplings is added, AFTER the design space was checked and the normalisation setting was stored (preconditions of
    _build_constraints, checked at its call site)."""

    targets = (IDFC + ".__init__",)
    prop = ("C17",)
    self_schema = IDFC + "#init"
    c17b = True
    c17b_init = True
    c17b_cs_record = CSREC
    c17b_opaque = {PCHAIN: PCHAIN + "#c17b"}
    params = {"disciplines": DISCS, "objective_name": TStr, "design_space": TObj(DSC, schema_key=DSC + "#c17")}
    modifies = ("self", "ghost:c17_added", "ghost:c17_added_n", "ghost:c17_objective", "ghost:c17_objective_set")
    raises = {"ValueError": _some_coupling_missing}

    def axioms(self, c):
        return cnt_axioms(c.old.disciplines.elems)

    def ensures(self, c):
        s1 = c.new.self
        ac = _ListTerm(_all_couplings_term(c))
        d0, d1 = c.old.design_space._variables, c.new.design_space._variables
        L = c.old.disciplines
        # (the formulation identity inside the expected constraints is the object under construction)
        return [
            ("disciplines", z3.And(s1._BaseFormulation__disciplines.n == L.n, s1._BaseFormulation__disciplines.elems == L.elems)),
            ("problem-holds-the-design-space", z3.BoolVal(s1.optimization_problem.design_space.ref == c.arg("design_space"))),
            ("all-couplings-of-the-coupling-structure", z3.And(s1.all_couplings.n == ac.n, s1.all_couplings.elems == ac.elems)),
            ("couplings-are-design-variables", couplings_in_ds(ac, d1)),
            ("design-space-unchanged", z3.And(d1.n == d0.n, d1.keys == d0.keys, d1.member == d0.member, d1.vals == d0.vals)),
            ("normalize-constraints-is-the-setting", s1.normalize_constraints == s1._settings.normalize_constraints),
        ] + _added(c, L.n, L)


# ============================================================================ MDF.__init__
MDFSET = TRec("MDFSettingsC17", {"main_mda_name": TStr, "main_mda_settings": TVal})
schema(MDFC + "#init", {"_BaseFormulation__disciplines": DISCS, "_settings": MDFSET, "mda": TObj(MDA, schema_key=MDA + "#c17b"),
                        "optimization_problem": TObj(OP, schema_key=OP + "#c17mdf"), "variable_sizes": TDict(TStr, TInt)})


@register
class MdfInit(Contract):
    """MDF(disciplines, objective, design space): after construction no coupling of the MDA is a design variable; the design space given by the
    user is the one of the problem and keeps exactly its variables that are inputs of the MDA and no couplings (with their definitions)."""

    targets = (MDFC + ".__init__",)
    prop = ("C17",)
    self_schema = MDFC + "#init"
    c17b = True
    c17b_init = True
    c17b_mda_schema = MDA + "#c17b"
    callee_variants = {BF + "._remove_unused_variables": "mdf"}
    params = {"disciplines": DISCS, "objective_name": TStr, "design_space": TObj(D2.DS)}
    modifies = ("self", "design_space", "ghost:c17_objective", "ghost:c17_objective_set")

    def requires(self, c):
        return D2.wf(c.old.design_space)

    def ensures(self, c):
        s1 = c.new.self
        v0, v1 = D2.V(c.old.design_space), D2.V(c.new.design_space)
        cp = s1.mda.coupling_structure.all_couplings
        g = s1.mda.io.input_grammar
        j = z3.Int("j!mi")
        x = z3.Const("x!mi", STR)
        return D2.wf(c.new.design_space) + [
            ("problem-holds-the-design-space", z3.BoolVal(s1.optimization_problem.design_space.ref == c.arg("design_space"))),
            ("objective-built-on-the-filtered-design-space", objective_built_on(c, "objective_name", c.arg("self"), c.new.design_space.dimension)),
            ("no-coupling-is-a-design-variable", z3.ForAll([j], z3.Implies(z3.And(0 <= j, j < cp.n), z3.Not(v1.has(cp.elems[j]))), patterns=[cp.elems[j]])),
            ("only-entry-variables-with-their-definitions", z3.ForAll([x], z3.Implies(v1.has(x), z3.And(v0.has(x), v1.vals[x] == v0.vals[x])), patterns=[v1.has(x)])),
            ("only-inputs-of-the-mda-are-kept", z3.ForAll([x], z3.Implies(v1.has(x), g.member[x]), patterns=[v1.has(x)])),
            ("design-variables-that-are-inputs-of-the-mda-and-no-couplings-are-kept",
             z3.ForAll([x], z3.Implies(z3.And(v0.has(x), g.member[x], z3.Not(M17._among(cp, x, cp.n))), v1.has(x)), patterns=[v0.has(x)])),
        ]


# ============================================================================ DesignSpace.filter (in place, a set of names to keep)
def _filter_state(c, s1, upto):
    """The design space after the first `upto` entry variables were handled: a handled variable is still there iff it is to be kept."""
    v0, v1 = D2.V(c.old.self), D2.V(s1)
    keep = c.old.keep_variables
    x = z3.Const("x!fs", STR)
    return [("handled-variables-kept-iff-asked", z3.ForAll([x], z3.Implies(z3.And(v0.has(x), v0.pos[x] < upto), v1.has(x) == keep.member[x]), patterns=[v0.has(x)])),
            ("only-entry-variables-with-their-definitions", z3.ForAll([x], z3.Implies(v1.has(x), z3.And(v0.has(x), v1.vals[x] == v0.vals[x])), patterns=[v1.has(x)])),
            ("unhandled-variables-kept", z3.ForAll([x], z3.Implies(z3.And(v0.has(x), v0.pos[x] >= upto), v1.has(x)), patterns=[v0.has(x)]))]


def _filter_inv0(c, k):
    s = c.new.self
    return D2.wf(s) + _filter_state(c, s, k)


def _filter_inv1(c, k):
    """While checking that the names to keep are known: the design space is not touched, the names seen so far are variables."""
    v1 = D2.V(c.new.self)
    keep = c.old.keep_variables
    x = z3.Const("x!f1", STR)
    return [("checked-names-are-known", z3.ForAll([x], z3.Implies(z3.And(keep.member[x], c.seq.pos[x] < k), v1.has(x)), patterns=[keep.member[x]]))]


def _some_kept_name_unknown(c):
    x = z3.Const("x!fu", STR)
    return z3.Exists([x], z3.And(c.old.keep_variables.member[x], z3.Not(D2.V(c.old.self).has(x))))


@register
class DsFilter(Contract):
    """design_space.filter(names) in place: exactly the variables whose names are given are kept, with their definitions; the design space
    stays well-formed; ValueError iff a given name is no variable."""

    targets = (D2.DS + ".filter",)
    prop = ("C17",)
    params = {"keep_variables": TSet(TStr)}
    modifies = ("self",)
    raises = {"ValueError": _some_kept_name_unknown}
    loops = {0: LoopSpec(anchor=None, modifies=("self",), inv=_filter_inv0, local_types={"name": TStr}),
             1: LoopSpec(anchor="keep_variables", inv=_filter_inv1, local_types={"name": TStr})}

    def requires(self, c):
        # (this contract is about the in-place use, the default copy=False)
        return D2.wf(c.old.self) + [("filters-in-place(copy=False)", z3.BoolVal(c.arg("copy") is False))]

    def ensures(self, c):
        s1 = c.new.self
        v0, v1 = D2.V(c.old.self), D2.V(s1)
        keep = c.old.keep_variables
        x = z3.Const("x!fe", STR)
        # (stated where the function is verified; at a call site the summary has no result value - no in-tree caller under contract uses it)
        ret = [("returns-the-design-space-itself", z3.BoolVal(c.result_value == c.arg("self")))] if hasattr(c, "locals") else []
        return D2.wf(s1) + ret + [
            ("only-asked-variables-are-kept", z3.ForAll([x], z3.Implies(v1.has(x), z3.And(v0.has(x), keep.member[x])), patterns=[v1.has(x)])),
            ("asked-variables-are-kept", z3.ForAll([x], z3.Implies(z3.And(v0.has(x), keep.member[x]), v1.has(x)), patterns=[v0.has(x)])),
            ("definitions-kept", z3.ForAll([x], z3.Implies(v1.has(x), v1.vals[x] == v0.vals[x]), patterns=[v1.has(x)]))]


# ============================================================================ DisciplinaryOpt: the design space is restricted to the inputs of the (chain of) disciplines
from pyvc.plug_c17b import TRaw, TValTuple, inputs_of  # noqa: E402
from pyvc.values import forall_pat  # noqa: E402

GET_ALL_INPUTS = "gemseo.disciplines.utils.get_all_inputs"
CHAIN = "gemseo.core.chains.chain.MDOChain"
chain_of = z3.Function("c17_chain_of", DISCS.sort(), ValS)
schema(DOPT + "#filter", {"_BaseFormulation__disciplines": DISCS, "_DisciplinaryOpt__top_level_disciplines": TValTuple(1), "optimization_problem": TObj(OP, schema_key=OP + "#c17mdf")})
schema(DOPT + "#init", {"_BaseFormulation__disciplines": DISCS, "_DisciplinaryOpt__top_level_disciplines": TRaw,
                        "optimization_problem": TObj(OP, schema_key=OP + "#c17mdf"), "variable_sizes": TDict(TStr, TInt)})


def _in_list(lst, x, tag):
    i = z3.Int(f"i!{tag}")
    return z3.Exists([i], z3.And(0 <= i, i < lst.n, lst.elems[i] == x))


def _tuple_inputs(discs):
    """x is an input of one of the (opaque) disciplines of a concrete tuple."""
    return lambda x: z3.Or(*[inputs_of(d.term)[x] for d in discs]) if discs else z3.BoolVal(False)


@register
class GetAllInputsAbstract(Contract):
    targets = (GET_ALL_INPUTS,)
    prop = ("C17",)
    returns = NAME_LIST
    trusted = True
    description = ("assumed: get_all_inputs(disciplines) returns a new (sorted, duplicate-free) list holding exactly the input names of the given "
                   "disciplines (no scenario among them), without any effect")

    def ensures(self, c):
        x = z3.Const("x!gi", STR)
        ds = c.arg("disciplines")
        top = _tuple_inputs(ds) if isinstance(ds, tuple) else top_inputs_member(c.old.disciplines.elems, c.old.disciplines.n)
        return [("the-input-names", z3.ForAll([x], _in_list(c.result, x, "gi") == top(x)))]


def _dopt_kept(v0, v1, top):
    x = z3.Const("x!dk", STR)
    return [("only-inputs-of-the-top-level-discipline-are-kept", z3.ForAll([x], z3.Implies(v1.has(x), z3.And(v0.has(x), top(x))), patterns=[v1.has(x)])),
            ("design-variables-that-are-inputs-are-kept", z3.ForAll([x], z3.Implies(z3.And(v0.has(x), top(x)), v1.has(x)), patterns=[v0.has(x)])),
            ("definitions-kept", z3.ForAll([x], z3.Implies(v1.has(x), v1.vals[x] == v0.vals[x]), patterns=[v1.has(x)]))]


@register
class DoptFilterDesignSpace(Contract):
    """The design space keeps exactly its variables that are inputs of the top-level discipline (the discipline, or the chain of the
    disciplines), with their definitions, and stays well-formed."""

    targets = (DOPT + "._filter_design_space",)
    prop = ("C17",)
    self_schema = DOPT + "#filter"
    c17b = True
    modifies = ("self.optimization_problem.design_space",)

    def requires(self, c):
        return D2.wf(_ds17(c.old))

    def ensures(self, c):
        s1 = _ds17(c.new)
        return D2.wf(s1) + _dopt_kept(D2.V(_ds17(c.old)), D2.V(s1), _tuple_inputs(c.old.self._DisciplinaryOpt__top_level_disciplines))


@register
class DoptTopLevelDisciplines(Contract):
    targets = (DOPT + ".get_top_level_disciplines",)
    prop = ("C17",)
    self_schema = DOPT + "#filter"
    inline_ok = True

    def ensures(self, c):
        return [("the-stored-top-level-discipline", z3.BoolVal(c.result_value is c.old.self._DisciplinaryOpt__top_level_disciplines))]


@register
class DoptInit(Contract):
    """DisciplinaryOpt(disciplines, objective, design space): the top-level discipline is the discipline itself, or the chain of the
    disciplines when there are several; the user's design space is the problem's and is restricted to its variables that are inputs of this
    top-level discipline (definitions kept); IndexError for an empty list of disciplines."""

    targets = (DOPT + ".__init__",)
    prop = ("C17",)
    self_schema = DOPT + "#init"
    c17b = True
    c17b_init = True
    c17b_opaque_values = {CHAIN: "c17_chain_of"}
    params = {"disciplines": DISCS, "objective_name": TStr, "design_space": TObj(D2.DS)}
    modifies = ("self", "design_space", "ghost:c17_objective", "ghost:c17_objective_set")
    raises = {"IndexError": lambda c: c.old.disciplines.n == 0}

    def requires(self, c):
        return D2.wf(c.old.design_space)

    def ensures(self, c):
        s1 = c.new.self
        L = c.old.disciplines
        top = s1._DisciplinaryOpt__top_level_disciplines
        ok = isinstance(top, tuple) and len(top) == 1 and hasattr(top[0], "term")
        out = [("one-top-level-discipline", z3.BoolVal(ok))]
        if not ok:
            return out
        expected = z3.If(L.n > 1, chain_of(DISCS.dt.mk(L.n, L.elems)), L.elems[0])
        return out + D2.wf(c.new.design_space) + [
            ("the-discipline-or-the-chain-of-the-disciplines", top[0].term == expected),
            ("problem-holds-the-design-space", z3.BoolVal(s1.optimization_problem.design_space.ref == c.arg("design_space"))),
            # a linear objective is linearised at the origin of the FILTERED design space
            ("objective-built-on-the-filtered-design-space", objective_built_on(c, "objective_name", c.arg("self"), c.new.design_space.dimension)),
        ] + _dopt_kept(D2.V(c.old.design_space), D2.V(c.new.design_space), _tuple_inputs(top))


# ============================================================================ BaseFormulation._remove_sub_scenario_dv_from_ds
SUBFORM = TRec("SubFormulationC17", {"design_space": NAME_LIST})  # a sub-scenario's design space is only iterated: the list of its variable names
SCEN = TRec("SubScenarioC17", {"formulation": SUBFORM})
SCENS = TList(SCEN)
schema(BF + "#subscen", {"c17_sub_scenarios": SCENS,  # ghost: what get_sub_scenarios() returns
                         "optimization_problem": TObj(OP, schema_key=OP + "#c17mdf")})


@register
class GetSubScenariosAbstract(Contract):
    targets = (BF + ".get_sub_scenarios",)
    prop = ("C17",)
    self_schema = BF + "#subscen"
    returns = SCENS
    trusted = True
    description = ("assumed: get_sub_scenarios() returns the disciplines that are scenarios (ghost field c17_sub_scenarios; a sub-scenario is seen through "
                   "the variable names of its formulation's design space), without any effect")

    def ensures(self, c):
        L = c.old.self.c17_sub_scenarios
        return [("length", c.result.n == L.n), ("scenarios", c.result.elems == L.elems)]


def _sub_names(scen_term):
    """The variable names of the design space of a sub-scenario (n, elems)."""
    t = SUBFORM.accessor("design_space")(SCEN.accessor("formulation")(scen_term))
    return list_n(t), list_el(t)


def _sub_among(L, x, upto):
    s, v = z3.Int("s!sa"), z3.Int("v!sa")
    n, el = _sub_names(L.elems[s])
    return z3.Exists([s, v], z3.And(0 <= s, s < upto, 0 <= v, v < n, el[v] == x))


def _sub_state(c, s1, upto):
    v0, v1 = D2.V(_ds17(c.old)), D2.V(s1)
    L = c.old.self.c17_sub_scenarios
    s, v = z3.Int("s!ss"), z3.Int("v!ss")
    x = z3.Const("x!ss", STR)
    n, el = _sub_names(L.elems[s])
    return [("variables-of-the-handled-sub-scenarios-are-removed", forall_pat([s, v], z3.Implies(z3.And(0 <= s, s < upto, 0 <= v, v < n), z3.Not(v1.has(el[v]))), el[v])),
            ("only-entry-variables-with-their-definitions", z3.ForAll([x], z3.Implies(v1.has(x), z3.And(v0.has(x), v1.vals[x] == v0.vals[x])), patterns=[v1.has(x)])),
            ("other-variables-kept", z3.ForAll([x], z3.Implies(z3.And(v0.has(x), z3.Not(_sub_among(L, x, upto))), v1.has(x)), patterns=[v0.has(x)]))]


def _sub_outer_inv(c, k):
    s = _ds17(c.new)
    return D2.wf(s) + _sub_state(c, s, k)


def _sub_inner_inv(c, l):
    """While removing the variables of the current sub-scenario: only removals since the scan started (what was absent stays absent, what
    remains keeps its definition), the names seen so far are gone, the variables that are none of them are still there."""
    s1 = _ds17(c.new)
    vp, v1 = D2.V(c.pre_locals["self"].optimization_problem.design_space), D2.V(s1)
    n, el = _sub_names(c.locals["scenario"].term)
    v, w = z3.Int("v!si"), z3.Int("w!si")
    x = z3.Const("x!si", STR)
    seen = z3.Exists([w], z3.And(0 <= w, w < l, el[w] == x))
    return D2.wf(s1) + [
        ("seen-variables-are-removed", forall_pat([v], z3.Implies(z3.And(0 <= v, v < l), z3.Not(v1.has(el[v]))), el[v])),
        ("only-removals", z3.ForAll([x], z3.Implies(v1.has(x), z3.And(vp.has(x), v1.vals[x] == vp.vals[x])), patterns=[v1.has(x)])),
        ("other-variables-kept", z3.ForAll([x], z3.Implies(z3.And(vp.has(x), z3.Not(seen)), v1.has(x)), patterns=[vp.has(x)]))]


@register
class RemoveSubScenarioDv(Contract):
    """No design variable of a sub-scenario stays in the design space of the formulation; every other variable is kept with its definition;
    the design space stays well-formed."""

    targets = (BF + "._remove_sub_scenario_dv_from_ds",)
    prop = ("C17",)
    self_schema = BF + "#subscen"
    modifies = ("self.optimization_problem.design_space",)
    loops = {0: LoopSpec(anchor=None, modifies=("self.optimization_problem.design_space",), inv=_sub_outer_inv, local_types={"scenario": SCEN, "var": TStr}),
             1: LoopSpec(anchor="scenario.formulation.design_space", modifies=("self.optimization_problem.design_space",), inv=_sub_inner_inv, local_types={"var": TStr})}

    def requires(self, c):
        return D2.wf(_ds17(c.old))

    def ensures(self, c):
        s1 = _ds17(c.new)
        return D2.wf(s1) + _sub_state(c, s1, c.old.self.c17_sub_scenarios.n)
