"""C11 - design-space files: a design space written to a text (CSV) or HDF5 file reloads identically.

TEXT FILES.  The file is the abstract table of ``pyvc/plug_dsfiles.py`` (assumed contracts T1..T6): ghosts ``csv_rows, csv_cols,
csv_str[r][c], csv_flt[r][c]``.  ``from_csv`` is verified against: the rows of the name column form consecutive blocks; the
j-th block becomes the j-th variable, whose size is the block length and whose bounds / current value / type are read from
EXACTLY its own rows (ghost ``c11_added``: the arguments add_variable was called with, per name).
"""
from __future__ import annotations

import z3

from pyvc import contract as C
from pyvc import plug_dsfiles as P
from pyvc.contract import Contract, LoopSpec, register, schema
from pyvc.plug_dsfiles import ARGS, INT_ARR, NONE_TXT, OPT_ND, STR_ARR, TAB_F, TAB_S, col_slice, csv_count
from pyvc.values import StrS, TBool, TDict, TInt, TList, TNd, TObj, TOpt, TStr, TVal, ValS, str_lit

from contracts import c02_design_space as D2
from contracts.c02_design_space import CV, DS, I, V, VAR, size, start, stop, wf

IntS = z3.IntSort()


def lit(s):
    return str_lit(s)




# ---------------------------------------------------------------------------- the text file as seen by specifications
class Csv:
    def __init__(self, c, which="old"):
        g = c.old_ghost if which == "old" else c.new_ghost
        self.rows, self.cols = g("csv_rows", IntS), g("csv_cols", IntS)
        self.S, self.F = g("csv_str", TAB_S), g("csv_flt", TAB_F)

    def name(self, s, i):
        """Name column of data row i (s = number of header lines)."""
        return self.S[s + i][0]


def ghosts(c, which="new"):
    g = c.old_ghost if which == "old" else c.new_ghost
    return g("c11_row", IntS), g("c11_bs", INT_ARR), g("c11_blk", INT_ARR)


def upos_of(c, which="new"):
    g = c.old_ghost if which == "old" else c.new_ghost
    return g("c11_upos", z3.ArraySort(StrS, IntS))


def added(c, which="new"):
    g = c.old_ghost if which == "old" else c.new_ghost
    return g("c11_added", z3.ArraySort(StrS, ARGS))


# ---------------------------------------------------------------------------- add_variable, recording its arguments
def _args_rec(c):
    st = c.st
    return ARGS.mk(TInt.embed(st, c.arg("size")), TStr.embed(st, c.arg("type_")), TNd.embed(st, c.arg("lower_bound")), TNd.embed(st, c.arg("upper_bound")),
                   OPT_ND.embed(st, c.arg("value")))


def _ghost_add(c):
    A0 = added(c, "new")
    rec = _args_rec(c)
    return {"c11_added": lambda g: [g == z3.Store(A0, c.old.name, rec)]}


@register
class AddVariableRecorded(D2.AddVariable):
    """The C02 contract of add_variable + a specification ghost: ``c11_added[name]`` = the arguments of the call (the design
    space built by from_csv / from_hdf is the result of these calls, in this order)."""

    variant = "c11"
    prop = ("C11",)
    modifies = ("self", "ghost:c11_added")
    ghost_defs = {"self._check_variable_name(name)": _ghost_add}

    def ensures(self, c):
        A0, A1 = added(c, "old"), added(c, "new")
        rec = _args_rec(c)
        return super().ensures(c) + [("ghost:arguments-recorded", A1 == z3.Store(A0, c.old.name, rec))]

    def raise_ensures(self, c, exc):
        return []


@register
class CheckCurrentNames(Contract):
    targets = (DS + "._check_current_names",)
    prop = ("C11",)
    raises = {"ValueError": None}
    trusted = True
    description = ("assumed: _check_current_names / check_membership only inspect the design space (numpy comparisons of the current value with the "
                   "bounds): they raise ValueError or return, and change nothing")


# ---------------------------------------------------------------------------- from_csv
HDR = 1  # number of header lines read from the file (header argument empty)
F_NAME, F_LB, F_UB, F_VAL, F_TYPE = (lit(x) for x in ("name", "lower_bound", "upper_bound", "value", "type"))
OPT_S = TOpt(TStr)


def _okpat(p):
    """A select on a constant array (no store / lambda / if inside): a valid trigger."""
    return z3.is_app(p) and p.decl().kind() == z3.Z3_OP_SELECT and z3.is_const(p.arg(0)) and all(z3.is_const(p.arg(q)) or z3.is_var(p.arg(q)) or _okpat(p.arg(q))
                                                                                                  for q in range(1, p.num_args()))


def fa(vs, body, *pats):
    """ForAll with explicit (alternative) triggers where they are valid ones (in goals - e.g. over a list that has just been appended
    to - the trigger is irrelevant)."""
    ok = []
    for p in pats:
        parts = p if isinstance(p, tuple) else (p,)
        if all(_okpat(q) for q in parts):
            ok.append(z3.MultiPattern(*parts) if len(parts) > 1 else parts[0])
    return z3.ForAll(vs, body, patterns=ok) if ok else z3.ForAll(vs, body)


def _is_none(v):
    """``v is None`` of a local that is None, a str, or an Optional[str] (depending on the path)."""
    if v is None:
        return z3.BoolVal(True)
    if isinstance(v, C.View):
        return v.is_none()
    return z3.BoolVal(False)


def _str_of(v):
    if isinstance(v, C.View):
        return OPT_S.dt.get(v.term)
    return v if v is not None else z3.Const("unused_prev", StrS)


def _names_inv(c, k):
    """First loop (k rows of the name column scanned): the scanned rows form consecutive blocks, one per unique name
    (ghosts: bs[t] = first row of block t, blk[i] = block of row i)."""
    row, bs, blk = ghosts(c)
    U = c.locals["unique_names"]
    u, Ue = U.n, U.elems
    prev = c.locals.get("prev_name")
    L = c.locals["var_names"].elems
    t, t2, i = z3.Int("t!ni"), z3.Int("t2!ni"), z3.Int("i!ni")
    return [
        ("ghost-row", row == k),
        ("count", z3.And(0 <= u, u <= k, z3.Implies(k > 0, u > 0))),
        ("prev", z3.If(u == 0, _is_none(prev), z3.And(z3.Not(_is_none(prev)), _str_of(prev) == Ue[u - 1]))),
        # TRIGGER DISCIPLINE (no matching loop): facts about rows are triggered by blk[row] only, facts about blocks by bs[block] (bounds) or pairs of
        # bs / unique_names terms; no fact triggered by a bs term creates a blk, var_names or further bs / unique_names term
        ("block-start-bounds", fa([t], z3.Implies(z3.And(0 <= t, t < u), z3.And(0 <= bs[t], bs[t] < k)), bs[t])),
        ("block-starts-increase", fa([t, t2], z3.Implies(z3.And(0 <= t, t < t2, t2 < u), bs[t] < bs[t2]), (bs[t], bs[t2]))),
        # (distinctness of the unique names, stated through the ghost inverse upos: a one-variable trigger instead of all pairs)
        ("unique-names-distinct", fa([t], z3.Implies(z3.And(0 <= t, t < u), upos_of(c)[Ue[t]] == t), Ue[t])),
        ("rows-in-blocks", fa([i], z3.Implies(z3.And(0 <= i, i < k), z3.And(0 <= blk[i], blk[i] < u, L[i] == Ue[blk[i]], bs[blk[i]] <= i,
                                                                         z3.Implies(blk[i] < u - 1, i < bs[blk[i] + 1]))), blk[i])),
    ]


def _ghost_scan(c):
    """Ghost code at the top of the first loop's body: the row belongs to the last block (overwritten when a block is opened)."""
    row, bs, blk = ghosts(c)
    u = c.locals["unique_names"].n
    return {"c11_blk": lambda g: [g == z3.Store(blk, row, u - 1)], "c11_row": lambda g: [g == row + 1]}


def _ghost_open(c):
    """Ghost code before ``unique_names.append(name)``: a new block starts at the current row."""
    row, bs, blk = ghosts(c)
    u = c.locals["unique_names"].n
    up = upos_of(c)
    return {"c11_bs": lambda g: [g == z3.Store(bs, u, row - 1)], "c11_blk": lambda g: [g == z3.Store(blk, row - 1, u)],
            "c11_upos": lambda g: [g == z3.Store(up, c.locals["name"], u)]}


def bsx(c, i):
    """First row of block i, extended by the end of the table for i = number of blocks."""
    _, bs, _ = ghosts(c)
    u = c.locals["unique_names"].n
    return z3.If(i < u, bs[i], c.locals["var_names"].n)


def none_in(f, lo, hi, col):
    r = z3.Int("r!nn")
    return z3.Exists([r], z3.And(lo <= r, r < hi, f.S[r][col] == NONE_TXT))


ARG_FIELDS = ("size", "type", "lb", "ub", "value")


def args_of(f, cm, lo, hi):
    """The arguments add_variable must get for the variable whose rows are [lo, hi) of the table (absolute row numbers), field by field."""
    has_val, has_type = cm.has(F_VAL), cm.has(F_TYPE)
    cval = cm.get(F_VAL)
    return {"size": hi - lo, "type": z3.If(has_type, f.S[lo][cm.get(F_TYPE)], lit("float")),
            "lb": col_slice(f.F, lo, hi, cm.get(F_LB)), "ub": col_slice(f.F, lo, hi, cm.get(F_UB)),
            "value": z3.If(z3.And(has_val, z3.Not(none_in(f, lo, hi, cval))), OPT_ND.dt.some(col_slice(f.F, lo, hi, cval)), OPT_ND.dt.none)}


def args_are(rec, f, cm, lo, hi, fld):
    return getattr(ARGS, fld)(rec) == args_of(f, cm, lo, hi)[fld]


def hdr_has(f, fld):
    a = z3.Int("a!hh")
    return z3.Exists([a], z3.And(0 <= a, a < f.cols, f.S[0][a] == fld))


def _header_facts(c):
    """Ghost assertion after the header check: the header line of the file holds the minimal fields."""
    f = Csv(c)
    return [(f"header-holds:{n}", hdr_has(f, fld)) for n, fld in (("name", F_NAME), ("lower_bound", F_LB), ("upper_bound", F_UB))]


def _col_map_facts(c):
    """Ghost assertion once col_map is built: its keys are the header's fields, its values their columns."""
    f = Csv(c)
    cm = c.locals["col_map"]
    x, a = z3.Const("x!cm", StrS), z3.Int("a!cm")
    return [("col_map:values-are-columns-of-their-field", z3.ForAll([x], z3.Implies(z3.And(cm.has(x), cm.pos[x] >= 0), z3.And(0 <= cm.get(x), cm.get(x) < f.cols, f.S[0][cm.get(x)] == x)),
                                                                    patterns=[cm.member[x]])),
            ("col_map:every-header-field-is-a-key", z3.ForAll([a], z3.Implies(z3.And(0 <= a, a < f.cols), z3.And(cm.keys[a] == f.S[0][a], cm.has(f.S[0][a]))), patterns=[cm.keys[a], f.S[0][a]])),
            ("col_map:minimal-fields", z3.And(cm.has(F_LB), cm.has(F_UB)))] + [
        # (ground instances for the four fields the function reads: quantifier-free, hence known to the path-feasibility solver)
        (f"col_map:column-of-{n}", z3.Implies(cm.has(fld), z3.And(0 <= cm.get(fld), cm.get(fld) < f.cols, f.S[0][cm.get(fld)] == fld)))
        for n, fld in (("lower_bound", F_LB), ("upper_bound", F_UB), ("value", F_VAL), ("type", F_TYPE))]


def _blocks_facts(c):
    """Ghost assertion once both loops are left (consequence of the first loop's invariant at k = number of rows; stated late so that the
    iterations of the second loop do not carry this two-variable fact)."""
    _, bs, blk = ghosts(c)
    U = c.locals["unique_names"]
    u, Ue = U.n, U.elems
    L = c.locals["var_names"].elems
    i, j = z3.Int("i!bf"), z3.Int("j!bf")
    return [("rows-of-a-block-carry-its-name", fa([i, j], z3.Implies(z3.And(0 <= i, i < u, bs[i] <= j, j < bsx(c, i + 1)), z3.And(blk[j] == i, L[j] == Ue[i])), (bs[i], L[j])))]


def _vars_inv(c, t):
    """Second loop (t variables added): k = first row after the rows of the variables already read; variable j was added with
    the arguments read from EXACTLY its own rows [start + bs[j], start + bs[j + 1])."""
    f = Csv(c)
    _, bs, _ = ghosts(c)
    ds = c.locals["design_space"]
    U = c.locals["unique_names"]
    Ue = U.elems
    cm = c.locals["col_map"]
    A = added(c)
    v, ix = V(ds), I(ds)
    i = z3.Int("i!vi")
    lo, hi = HDR + bs[i], HDR + bsx(c, i + 1)
    return wf(ds) + [
        ("variables:count", v.n == t),
        ("variables:are-the-unique-names-in-order", fa([i], z3.Implies(z3.And(0 <= i, i < t), z3.And(v.keys[i] == Ue[i], v.has(Ue[i]), ix.has(Ue[i]))), Ue[i], v.keys[i])),
        ("k=start+rows-of-the-variables-read", c.locals["k"] == HDR + ds.dimension),
        ("dimension=first-row-of-the-next-block", ds.dimension == bsx(c, t)),
        ("ranges=blocks", fa([i], z3.Implies(z3.And(0 <= i, i < t), z3.And(start(ix.vals[Ue[i]]) == bs[i], stop(ix.vals[Ue[i]]) == bsx(c, i + 1))), Ue[i], v.keys[i])),
    ] + [(f"arguments-from-own-rows:{fld}", fa([i], z3.Implies(z3.And(0 <= i, i < t), args_are(A[Ue[i]], f, cm, lo, hi, fld)), Ue[i], v.keys[i])) for fld in ARG_FIELDS]


def _this_block(c):
    _, bs, _ = ghosts(c)
    t = V(c.locals["design_space"]).n
    VN = c.locals["var_names"]
    return VN.elems, VN.n, c.locals["name"], bs[t], bsx(c, t + 1)


def _block_facts(c):
    """Ghost assertions before the slices are taken: the rows carrying the current name are exactly its block."""
    L, n, nm, a, b = _this_block(c)
    _, _, blk = ghosts(c)
    t = V(c.locals["design_space"]).n
    j = z3.Int("j!bf")
    return [("block-bounds", z3.And(0 <= a, a < b, b <= n)),
            # (stated through the block blk[j] of row j - which names the term the proof needs; implies (L[j] == name) == (a <= j < b), the
            #  antecedent of IntervalCount)
            ("rows-with-this-name-are-exactly-its-block", fa([j], z3.Implies(z3.And(0 <= j, j < n), z3.And((blk[j] == t) == z3.And(a <= j, j < b), (L[j] == nm) == (blk[j] == t))), blk[j]))]


def interval_count(L, x, a, b, m):
    """IntervalCount (proved by induction in CsvLemmas): if the positions of [0, m) holding x are exactly [a, b), count = b - a."""
    j = z3.Int("j!bf")
    return z3.Implies(z3.And(0 <= a, a <= b, b <= m, fa([j], z3.Implies(z3.And(0 <= j, j < m), (L[j] == x) == z3.And(a <= j, j < b)), L[j])),
                      csv_count(L, x, m) == b - a)


def _count_lemma(c):
    """IntervalCount applied to the two facts asserted (= proved, obligations ghost-assert:block-bounds / rows-with-this-name-are-exactly-its-block)
    right before: the antecedent of ``interval_count`` is exactly these two assertions, so only the consequent is handed over."""
    L, n, nm, a, b = _this_block(c)
    return [("IntervalCount (proved by induction: CsvLemmas count:*) applied to the asserted block facts: count(name) = block length", csv_count(L, nm, n) == b - a)]


def _opt_nd(v):
    if v is None:
        return OPT_ND.dt.none
    if isinstance(v, C.View):
        return v.term
    return OPT_ND.dt.some(v)


def _call_facts(c):
    """Ghost assertions right before add_variable is called: its arguments are read from exactly the rows of the current block."""
    f = Csv(c)
    L, n, nm, a, b = _this_block(c)
    cm = c.locals["col_map"]
    Ue = c.locals["unique_names"].elems
    t = V(c.locals["design_space"]).n
    i = z3.Int("i!cf")
    exp = args_of(f, cm, HDR + a, HDR + b)
    vt = c.locals["var_type"]
    vt = lit(vt) if isinstance(vt, str) else vt
    return [("this-name-is-new", fa([i], z3.Implies(z3.And(0 <= i, i < t), Ue[i] != nm), Ue[i])),
            ("call:size", c.locals["size"] == exp["size"]),
            ("call:type", vt == exp["type"]),
            ("call:lb", c.locals["l_b"] == exp["lb"]),
            ("call:ub", c.locals["u_b"] == exp["ub"]),
            ("call:value", _opt_nd(c.locals.get("value")) == exp["value"])]


STMT_ADD = "design_space.add_variable(name, size, var_type, l_b, u_b, value)"
STMT_SLICE = "l_b = float_data[k:k + size, col_map[lower_bounds_field]]"


@register
class FromCsv(Contract):
    """from_csv (header read from the file).  On a normal return: the header holds the minimal fields, the names of the name column
    form consecutive blocks, and the design space returned has one variable per block, in the order of the blocks: its index range is
    the block's row range (hence its size the block length), and add_variable got for it the type of its first row, the lower / upper
    bounds of EXACTLY its rows, and as current value the value column of exactly its rows - None iff one of ITS OWN rows says "None"
    (or there is no value column)."""

    targets = (DS + ".from_csv",)
    prop = ("C11",)
    c11_files = True
    params = {"file_path": TStr}
    returns = TObj(DS)
    modifies = ("ghost:c11_row", "ghost:c11_bs", "ghost:c11_blk", "ghost:c11_upos", "ghost:c11_added")
    raises = {"ValueError": None}
    raises_exact = False
    callee_variants = {DS + ".add_variable": "c11"}
    ghost_defs = {"design_space = cls()": lambda c: {"c11_row": lambda g: [g == 0]},
                  "if name not in unique_names:": _ghost_scan, "unique_names.append(name)": _ghost_open}
    c11_asserts = {"col_map = {field: i for i, field in enumerate(header)}": _header_facts, "var_names = str_data[start_read:, 0].tolist()": _col_map_facts,
                   STMT_ADD: _call_facts, "design_space.check()": _blocks_facts, STMT_SLICE: _block_facts}
    cited_lemmas = {STMT_SLICE: _count_lemma}
    loops = {
        0: LoopSpec(anchor="var_names", inv=_names_inv, modifies=("unique_names", "ghost:c11_row", "ghost:c11_bs", "ghost:c11_blk", "ghost:c11_upos"),
                    local_types={"prev_name": OPT_S, "name": TStr, "unique_names": TList(TStr)}),
        1: LoopSpec(anchor="unique_names", inv=_vars_inv, modifies=("design_space", "ghost:c11_added"), local_types={"name": TStr}),
    }

    def requires(self, c):
        f = Csv(c)
        a, b = z3.Int("a!hd"), z3.Int("b!hd")
        # (model applicability of the dict comprehension building col_map; files written by to_csv have the header TABLE_NAMES)
        return [("header-fields-distinct", z3.ForAll([a, b], z3.Implies(z3.And(0 <= a, a < b, b < f.cols), f.S[0][a] != f.S[0][b])))]

    def finding_regions(self, c):
        f = Csv(c)
        return {"file-with-fewer-than-two-lines-or-columns": z3.Or(f.rows < 2, f.cols < 2)}

    def ensures(self, c):
        f = Csv(c)
        R = c.result
        v, ix = V(R), I(R)
        A = added(c)
        cm = c.locals["col_map"]
        VN = c.locals["var_names"]
        L, n = VN.elems, VN.n
        x, i, j, a = z3.Const("x!fc", StrS), z3.Int("i!fc"), z3.Int("j!fc"), z3.Int("a!fc")
        rng = ix.vals[x]
        hdr = lambda fld: hdr_has(f, fld)  # noqa: E731
        col_ok = lambda fld: z3.Implies(cm.has(fld), z3.And(0 <= cm.get(fld), cm.get(fld) < f.cols, f.S[0][cm.get(fld)] == fld))  # noqa: E731
        known = z3.And(v.has(x), v.pos[x] >= 0)
        return wf(R) + [
            ("names-are-the-name-column", z3.And(n == f.rows - HDR, fa([j], z3.Implies(z3.And(0 <= j, j < n), L[j] == f.S[HDR + j][0]), L[j]))),
            ("header-holds-the-minimal-fields", z3.And(hdr(F_NAME), hdr(F_LB), hdr(F_UB))),
            ("columns-are-the-header's", z3.And(cm.has(F_LB), cm.has(F_UB), *[col_ok(fld) for fld in (F_LB, F_UB, F_VAL, F_TYPE)])),
            ("optional-columns-used-iff-in-header", z3.And(cm.has(F_VAL) == hdr(F_VAL), cm.has(F_TYPE) == hdr(F_TYPE))),
            ("names-form-consecutive-blocks", fa([i, j], z3.Implies(z3.And(0 <= i, i < j, j < n, L[i] == L[j]), L[j - 1] == L[j]), (L[i], L[j]))),
            ("every-row-is-read", R.dimension == n),
            ("rows-of-a-variable-carry-its-name", z3.ForAll([x, j], z3.Implies(z3.And(known, start(rng) <= j, j < stop(rng)), L[j] == x))),
            ("variable-ranges-are-row-ranges", z3.ForAll([x], z3.Implies(known, z3.And(0 <= start(rng), start(rng) < stop(rng), stop(rng) <= n)))),
        ] + [(f"arguments-from-own-rows:{fld}", z3.ForAll([x], z3.Implies(known, args_are(A[x], f, cm, HDR + start(rng), HDR + stop(rng), fld)))) for fld in ARG_FIELDS]


# ---------------------------------------------------------------------------- lemmas
@register
class CsvLemmas(Contract):
    """IntervalCount, by induction on m (base + step) from the recursive definition of ``csv_count``: for fixed L, x, a <= b,
    Q(m) := (forall j in [0, m): (L[j] == x) == (a <= j < b))  =>  csv_count(L, x, m) == max(0, min(b, m) - a).
    With b <= m this is ``interval_count`` (count = b - a), the fact handed to from_csv at ``size = var_names.count(name)``."""

    targets = ()
    prop = ("C11",)
    lemma = True

    def lemmas(self):
        L, x = z3.Const("L", STR_ARR), z3.Const("x", StrS)
        a, b, t, j = z3.Int("a"), z3.Int("b"), z3.Int("t"), z3.Int("j!cl")
        defs = z3.And(*[f for _, f in P.count_def()])
        exact = lambda m: z3.ForAll([j], z3.Implies(z3.And(0 <= j, j < m), (L[j] == x) == z3.And(a <= j, j < b)))  # noqa: E731
        mn = lambda m: z3.If(b < m, b, m)  # noqa: E731
        val = lambda m: z3.If(mn(m) - a > 0, mn(m) - a, 0)  # noqa: E731
        Q = lambda m: z3.Implies(exact(m), csv_count(L, x, m) == val(m))  # noqa: E731
        rng = z3.And(0 <= a, a <= b)
        return [
            ("count:base", z3.Implies(z3.And(defs, rng), Q(z3.IntVal(0)))),
            # (the step names csv_count(L, x, t) and csv_count(L, x, t + 1): the pair that triggers count-step)
            ("count:step", z3.Implies(z3.And(defs, rng, t >= 0, Q(t), csv_count(L, x, t + 1) == csv_count(L, x, t) + z3.If(L[t] == x, 1, 0)), Q(t + 1))),
            ("count:step-instance-of-the-definition", z3.Implies(z3.And(defs, t >= 0), csv_count(L, x, t + 1) == csv_count(L, x, t) + z3.If(L[t] == x, 1, 0))),
            ("count:interval", z3.Implies(z3.And(rng, b <= t, Q(t), exact(t)), csv_count(L, x, t) == b - a)),
        ]
