"""C09 (MDAChain) - the Jacobian of an MDAChain.

``chain_linearize``: the Jacobian is that of the inner MDO chain linearised AT the current input data, the inner chain being
(re-)executed at that point (its state may be the one of another point when the MDAChain's outputs came from a cache).
Otherwise the coupled-adjoint assembly is used (BaseMDA._compute_jacobian, C07: abstract here).
The inner chain is an opaque discipline: ``linearize(data, execute)`` is modelled in pyvc/plug_mdachain.py.
"""
from __future__ import annotations

import z3

from pyvc import plug_graph as PG
from pyvc import plug_mdachain as PM
from pyvc.contract import Contract, register, schema
from pyvc.plug_graph import DIFF_S, DiscS, TDisc, is_continuous
from pyvc.plug_mdachain import IOX, SETTINGS, STATE_S, jac_at, point_of
from pyvc.values import StrS, TObj, TVal, ValS

from contracts.c08_dependency import FA, NAME_LIST, D
from contracts.c09_chain_rule import LSET_DEF
import contracts.c08_mdachain  # noqa: F401  (schemas of the MDAChain settings)

MDAC = "gemseo.mda.mda_chain.MDAChain"
BMDA = "gemseo.mda.base_mda.BaseMDA"
schema(IOX, PM.IOX_FIELDS)
schema(MDAC + "#c09", {"settings": TObj(SETTINGS), "mdo_chain": TDisc, "io": TObj(IOX), "jac": TVal})

assembly_total_derivatives = z3.Function("assembly_total_derivatives", ValS, PG.NameSetS, PG.NameSetS, ValS)  # C07 (abstract): (point, input names, output names)


def names(lst):
    return PG.lset(NAME_LIST.dt.mk(lst.n, lst.elems))


def data_point(s):
    d = s.io._IO__data
    return point_of(d.member, d.vals)


def input_point(s):
    d = s.io._IO__data
    return point_of(PM.input_part_m(d.member, d.vals), PM.input_part_v(d.member, d.vals))


GH = ("ghost:c09_diff_in", "ghost:c09_diff_out", "ghost:c09m_state", "ghost:c09m_jac")


@register
class BaseMdaComputeJacobian(Contract):
    targets = (BMDA + "._compute_jacobian",)
    prop = ("C09",)
    self_schema = MDAC + "#c09"
    mdachain = True
    params = {"input_names": NAME_LIST, "output_names": NAME_LIST}
    modifies = ("self",)
    trusted = True
    description = ("assumed here (C07): BaseMDA._compute_jacobian sets self.jac to the total derivatives computed by the Jacobian assembly at the current data, "
                   "for the requested names; nothing else of the MDA is modified")

    def ensures(self, c):
        s0, s1 = c.old.self, c.new.self
        return [("jac", s1.jac == assembly_total_derivatives(data_point(s0), names(c.old.input_names), names(c.old.output_names))),
                ("kept", z3.And(s1.mdo_chain == s0.mdo_chain))]


@register
class MdaChainComputeJacobian(Contract):
    """chain_linearize: self.jac is the Jacobian of the inner chain AT the current input data, the inner chain being executed at that
    point; the differentiated inputs/outputs of the inner chain only grow.  Otherwise: the total derivatives of the assembly."""

    targets = (MDAC + "._compute_jacobian",)
    prop = ("C09",)
    self_schema = MDAC + "#c09"
    mdachain = True
    params = {"input_names": NAME_LIST, "output_names": NAME_LIST}
    modifies = ("self",) + GH
    raises = {"ValueError": lambda c: c.old.self.settings.chain_linearize}  # a requested name unknown to the inner chain (add_differentiated_*)
    raises_exact = False

    def requires(self, c):
        return LSET_DEF

    def ensures(self, c):
        s0, s1 = c.old.self, c.new.self
        ch = s0.mdo_chain
        cl = s0.settings.chain_linearize
        st0, st1 = c.old_ghost("c09m_state", STATE_S), c.new_ghost("c09m_state", STATE_S)
        j0, j1 = c.old_ghost("c09m_jac", STATE_S), c.new_ghost("c09m_jac", STATE_S)
        di0, di1 = c.old_ghost("c09_diff_in", DIFF_S), c.new_ghost("c09_diff_in", DIFF_S)
        do0, do1 = c.old_ghost("c09_diff_out", DIFF_S), c.new_ghost("c09_diff_out", DIFF_S)
        pt = input_point(s0)
        d = D("d!mcj")
        k = z3.Const("k!mcj", StrS)
        T_, F_ = z3.BoolVal(True), z3.BoolVal(False)
        xin, xout = names(c.old.input_names), names(c.old.output_names)
        return [
            ("chain:executed-at-the-linearization-point", z3.Implies(cl, st1[ch] == pt)),
            ("chain:jacobian-of-the-inner-chain-at-that-point", z3.Implies(cl, z3.And(s1.jac == jac_at(ch, pt, di1[ch], do1[ch]), j1[ch] == s1.jac))),
            ("chain:differentiated-names-only-grow", z3.Implies(cl, z3.ForAll([k], z3.And(z3.Implies(di0[ch][k], di1[ch][k]), z3.Implies(do0[ch][k], do1[ch][k]))))),
            ("chain:requested-names-are-differentiated", z3.Implies(cl, z3.ForAll([k], z3.And(
                z3.Implies(z3.And(c.old.input_names.n != 0, xin[k], is_continuous(ch, T_, k)), di1[ch][k]),
                z3.Implies(z3.And(c.old.output_names.n != 0, xout[k], is_continuous(ch, F_, k)), do1[ch][k]))))),
            ("chain:other-disciplines-untouched", z3.Implies(cl, FA([d], z3.Implies(d != ch, z3.And(st1[d] == st0[d], j1[d] == j0[d], di1[d] == di0[d], do1[d] == do0[d])), st1[d]))),
            ("assembly:total-derivatives", z3.Implies(z3.Not(cl), s1.jac == assembly_total_derivatives(data_point(s0), xin, xout))),
            ("assembly:inner-chain-untouched", z3.Implies(z3.Not(cl), z3.And(st1 == st0, j1 == j0, di1 == di0, do1 == do0))),
            ("inner-chain-kept", s1.mdo_chain == s0.mdo_chain),
        ]
