"""Run-time contract for C04: small databases on a real OptimizationProblem; the reported optimum is compared with a
brute-force reading of the property statement.  Deterministic enumeration; witness = scenario index."""
from __future__ import annotations

import itertools

import numpy as np


def _problem(points):
    from gemseo.algos.design_space import DesignSpace
    from gemseo.algos.optimization_problem import OptimizationProblem
    from gemseo.core.mdo_functions.mdo_function import MDOFunction

    ds = DesignSpace()
    ds.add_variable("x", lower_bound=-10.0, upper_bound=10.0, value=0.0)
    p = OptimizationProblem(ds)
    p.objective = MDOFunction(lambda x: x**2, "f")
    p.add_constraint(MDOFunction(lambda x: x, "g", f_type="ineq"))
    p.add_constraint(MDOFunction(lambda x: x, "h", f_type="eq"))
    for x, outs in points:
        p.database.store(np.array([float(x)]), {k: np.array([float(v)]) for k, v in outs.items()})
    return p


# candidate recorded outputs at a point: (f?, g, h?)  None = not recorded
OUTS = [{"g": -1.0, "h": 0.0}, {"f": 1.0, "g": -1.0, "h": 0.0}, {"f": 0.5, "g": 1.0, "h": 0.0}, {"f": 2.0, "g": 0.0, "h": 0.0}, {"f": 0.1, "g": -1.0},
        {"f": 3.0, "g": -2.0, "h": 0.5}]


def scenarios(max_points=3):
    for n in range(1, max_points + 1):
        for combo in itertools.product(range(len(OUTS)), repeat=n):
            yield [(i + 1, OUTS[c]) for i, c in enumerate(combo)]


def run(points):
    p = _problem(points)
    tol_i, tol_e = p.tolerances.inequality, p.tolerances.equality

    def feas(o):
        return "g" in o and "h" in o and o["g"] <= tol_i and abs(o["h"]) <= tol_e

    feasible = [(x, o) for x, o in points if feas(o)]
    sol = p.history.optimum
    if feasible:
        xs = [float(x) for x, _ in feasible]
        if not sol.is_feasible:
            return {"what": "feasible points exist but the solution is flagged infeasible"}
        if sol.design.size != 1 or float(sol.design[0]) not in xs:
            return {"what": "reported design is not a feasible recorded point", "reported": repr(sol.design), "feasible": xs}
        o = dict(points)[int(sol.design[0])]
        with_obj = [o2["f"] for _, o2 in feasible if "f" in o2]
        if "f" not in o:
            # the reported point has no recorded objective: nothing may be reported for it, and no feasible point may have one
            if sol.objective is not None:
                return {"what": "an objective is reported for a point that has no recorded objective", "reported": repr(sol.objective)}
            if with_obj:
                return {"what": "a feasible recorded point has an objective value but the reported one has none", "best": min(with_obj)}
        elif sol.objective is None or float(np.ravel(sol.objective)[0]) != o["f"]:
            return {"what": "reported objective is not the one recorded for the reported point", "reported": repr(sol.objective)}
        elif with_obj and min(with_obj) < o["f"]:
            return {"what": "a feasible recorded point has a smaller objective", "reported": o["f"], "best": min(with_obj)}
        for c in ("g", "h"):
            if c in o and float(np.ravel(sol.constraints[c])[0]) != o[c]:
                return {"what": f"reported constraint {c} is not the recorded one"}
    else:
        if sol.is_feasible:
            return {"what": "no feasible point but the solution is flagged feasible"}
        if sol.design.size != 1 or int(sol.design[0]) not in [x for x, _ in points]:
            return {"what": "reported design is not a recorded point", "reported": repr(sol.design)}
    return None


# ---------------------------------------------------------------------------- the assembled result (contracts/c04_result.py)
def run_result(points, maximize, use_std):
    """OptimizationResult.from_optimization_problem against `history.optimum` and the database: same point, same flag / constraint values,
    objective with the sign restored exactly for a maximisation problem reporting its original objective, index = position in the database."""
    from gemseo.algos.optimization_result import OptimizationResult

    p = _problem(points)
    if maximize:
        p.minimize_objective = False  # the objective becomes "-f"; recorded values are those of the standardized objective
        p.database.clear()
        for x, outs in points:
            p.database.store(np.array([float(x)]), {("-f" if k == "f" else k): np.array([float(v)]) for k, v in outs.items()})
    p.use_standardized_objective = use_std
    p.preprocess_functions()  # as every driver does before a run (problem.objective.n_calls is an attribute of the preprocessed function)
    sol = p.history.optimum
    res = OptimizationResult.from_optimization_problem(p, message="m", status=3, optimizer_name="o")
    xs = [float(x) for x, _ in points]
    if res.x_opt is None or float(res.x_opt[0]) not in xs:
        return {"what": "reported x_opt is not a recorded point", "reported": repr(res.x_opt)}
    if not np.array_equal(res.x_opt, sol.design) or res.is_feasible != sol.is_feasible:
        return {"what": "x_opt / is_feasible differ from history.optimum"}
    if res.optimum_index != xs.index(float(res.x_opt[0])):
        return {"what": "optimum_index is not the position of x_opt in the database", "reported": res.optimum_index}
    o = dict(points)[int(res.x_opt[0])]
    flip = maximize and not use_std
    if "f" in o:
        recorded = o["f"]  # value stored under the standardized objective name
        expected = -recorded if flip else recorded
        if res.f_opt is None or float(np.ravel(res.f_opt)[0]) != expected:
            return {"what": "f_opt is not the recorded objective (sign restored for maximisation)", "reported": repr(res.f_opt), "expected": expected}
        if res.objective_name != ("f" if flip else p.objective.name):
            return {"what": "objective_name", "reported": res.objective_name}
    elif res.f_opt is not None:
        return {"what": "an objective is reported for a point without recorded objective", "reported": repr(res.f_opt)}
    for c in ("g", "h"):
        got = res.constraint_values[c]
        if (c in o) != (got is not None) or (c in o and float(np.ravel(got)[0]) != o[c]):
            return {"what": f"reported constraint {c} is not the recorded one"}
    if not np.array_equal(res.x_0, np.array([float(points[0][0])])) or (res.message, res.status, res.optimizer_name) != ("m", 3, "o"):
        return {"what": "x_0 / message / status / optimizer_name"}
    last = p.history.last_point
    if float(last.design[0]) != xs[-1] or last.is_feasible != ("g" in points[-1][1] and "h" in points[-1][1] and points[-1][1]["g"] <= p.tolerances.inequality
                                                                 and abs(points[-1][1]["h"]) <= p.tolerances.equality):
        return {"what": "last_point is not the last recorded point with its feasibility"}
    return None


PARETO_ROWS = [(0.0, 1.0), (1.0, 0.0), (1.0, 1.0), (0.0, 1.0), (2.0, -1.0)]


def pareto_scenarios(max_points=3):
    for n in range(1, max_points + 1):
        for combo in itertools.product(range(len(PARETO_ROWS)), repeat=n):
            for feas in itertools.product((0.0, 1.0), repeat=n):
                yield [list(PARETO_ROWS[c]) for c in combo], list(feas)


def run_pareto(rows, feas):
    """No reported sample is infeasible or dominated by a feasible sample (<= everywhere, < somewhere)."""
    from gemseo.algos.pareto.utils import compute_pareto_optimal_points

    a, f = np.array(rows), np.array(feas)
    mask = compute_pareto_optimal_points(a, f)
    for p in range(len(rows)):
        if not mask[p]:
            continue
        if not f[p]:
            return {"what": "an infeasible sample is reported", "sample": p}
        for q in range(len(rows)):
            if q != p and f[q] and all(a[q] <= a[p]) and any(a[q] < a[p]):
                return {"what": "a reported sample is dominated by a feasible one", "sample": p, "by": q}
    return None


def _guard(fn, *a):
    try:
        return fn(*a)
    except Exception as e:  # noqa: BLE001
        return {"exception": repr(e)}


def replay(ob, seed=0):
    name = getattr(ob, "name", "") or ""
    if "pareto" not in name and "optimization_result" not in name and "last_point" not in name and "get_iteration" not in name and "get_x_vect" not in name:
        for idx, pts in enumerate(scenarios()):
            r = _guard(run, pts)
            if r is not None:
                return {"scenario": "database-vs-brute-force-optimum", "index": idx, "points": [[x, o] for x, o in pts], "failure": r}
    if "pareto" not in name:
        for idx, pts in enumerate(scenarios()):
            for maximize, use_std in ((False, True), (True, True), (True, False), (False, False)):
                r = _guard(run_result, pts, maximize, use_std)
                if r is not None:
                    return {"scenario": "result-vs-database", "index": idx, "points": [[x, o] for x, o in pts], "maximize": maximize, "use_standardized_objective": use_std,
                            "failure": r}
    for idx, (rows, feas) in enumerate(pareto_scenarios()):
        r = _guard(run_pareto, rows, feas)
        if r is not None:
            return {"scenario": "pareto-filter", "index": idx, "rows": rows, "feasible": feas, "failure": r}
    return None


def rerun(w):
    kind = w.get("scenario", "database-vs-brute-force-optimum")
    if kind == "pareto-filter":
        r = _guard(run_pareto, w["rows"], w["feasible"])
    elif kind == "result-vs-database":
        r = _guard(run_result, [(x, o) for x, o in w["points"]], w["maximize"], w["use_standardized_objective"])
    else:
        r = _guard(run, [(x, o) for x, o in w["points"]])
    return {"fails": r is not None, "failure": r}
