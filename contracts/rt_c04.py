"""Run-time contract for C04: small databases on a real OptimizationProblem; the reported optimum is compared with a
brute-force reading of the property statement.  Deterministic enumeration; witness = scenario index."""
from __future__ import annotations

import itertools

import numpy as np


def _problem(points):
    from gemseo.algos.design_space import DesignSpace
    from gemseo.algos.optimization_problem import OptimizationProblem
    from gemseo.core.mdo_functions.mdo_function import MDOFunction

    ds = DesignSpace()
    ds.add_variable("x", lower_bound=-10.0, upper_bound=10.0, value=0.0)
    p = OptimizationProblem(ds)
    p.objective = MDOFunction(lambda x: x**2, "f")
    p.add_constraint(MDOFunction(lambda x: x, "g", f_type="ineq"))
    p.add_constraint(MDOFunction(lambda x: x, "h", f_type="eq"))
    for x, outs in points:
        p.database.store(np.array([float(x)]), {k: np.array([float(v)]) for k, v in outs.items()})
    return p


# candidate recorded outputs at a point: (f?, g, h?)  None = not recorded
OUTS = [{"g": -1.0, "h": 0.0}, {"f": 1.0, "g": -1.0, "h": 0.0}, {"f": 0.5, "g": 1.0, "h": 0.0}, {"f": 2.0, "g": 0.0, "h": 0.0}, {"f": 0.1, "g": -1.0},
        {"f": 3.0, "g": -2.0, "h": 0.5}]


def scenarios(max_points=3):
    for n in range(1, max_points + 1):
        for combo in itertools.product(range(len(OUTS)), repeat=n):
            yield [(i + 1, OUTS[c]) for i, c in enumerate(combo)]


def run(points):
    p = _problem(points)
    tol_i, tol_e = p.tolerances.inequality, p.tolerances.equality

    def feas(o):
        return "g" in o and "h" in o and o["g"] <= tol_i and abs(o["h"]) <= tol_e

    feasible = [(x, o) for x, o in points if feas(o)]
    sol = p.history.optimum
    if feasible:
        xs = [float(x) for x, _ in feasible]
        if not sol.is_feasible:
            return {"what": "feasible points exist but the solution is flagged infeasible"}
        if sol.design.size != 1 or float(sol.design[0]) not in xs:
            return {"what": "reported design is not a feasible recorded point", "reported": repr(sol.design), "feasible": xs}
        o = dict(points)[int(sol.design[0])]
        with_obj = [o2["f"] for _, o2 in feasible if "f" in o2]
        if "f" not in o:
            # the reported point has no recorded objective: nothing may be reported for it, and no feasible point may have one
            if sol.objective is not None:
                return {"what": "an objective is reported for a point that has no recorded objective", "reported": repr(sol.objective)}
            if with_obj:
                return {"what": "a feasible recorded point has an objective value but the reported one has none", "best": min(with_obj)}
        elif sol.objective is None or float(np.ravel(sol.objective)[0]) != o["f"]:
            return {"what": "reported objective is not the one recorded for the reported point", "reported": repr(sol.objective)}
        elif with_obj and min(with_obj) < o["f"]:
            return {"what": "a feasible recorded point has a smaller objective", "reported": o["f"], "best": min(with_obj)}
        for c in ("g", "h"):
            if c in o and float(np.ravel(sol.constraints[c])[0]) != o[c]:
                return {"what": f"reported constraint {c} is not the recorded one"}
    else:
        if sol.is_feasible:
            return {"what": "no feasible point but the solution is flagged feasible"}
        if sol.design.size != 1 or int(sol.design[0]) not in [x for x, _ in points]:
            return {"what": "reported design is not a recorded point", "reported": repr(sol.design)}
    return None


def replay(ob, seed=0):
    for idx, pts in enumerate(scenarios()):
        try:
            r = run(pts)
        except Exception as e:  # noqa: BLE001
            r = {"exception": repr(e)}
        if r is not None:
            return {"scenario": "database-vs-brute-force-optimum", "index": idx, "points": [[x, o] for x, o in pts], "failure": r}
    return None


def rerun(w):
    pts = [(x, o) for x, o in w["points"]]
    try:
        r = run(pts)
    except Exception as e:  # noqa: BLE001
        r = {"exception": repr(e)}
    return {"fails": r is not None, "failure": r}
