"""C08 - Execution sequences respect data dependencies and composition is exact.

Disciplines are opaque values (sort ``Disc``) with name sets ``in_names(d)`` / ``out_names(d)``;
a networkx DiGraph is (ordered node set, edge relation, edge attribute ``io``) - see
``pyvc/plug_graph.py`` for the model and the ASSUMED contracts of the networkx functions.

Ghost variables ``c08_stage / c08_slot / c08_idx`` give, for every discipline, its location in an
execution sequence (stage, group inside the stage, rank inside the group): they are the witnesses
of "every discipline appears exactly once".
"""
from __future__ import annotations

import z3

from pyvc import contract as C
from pyvc import plug_graph as PG
from pyvc.contract import Contract, LoopSpec, register, schema
from pyvc.plug_graph import (DLIST, ILIST, NAMES, NXC, NXG, DiscS, TDisc, in_n, in_names, le, ln, out_n, out_names, reach, reach_axioms, set_member)
from pyvc.values import StrS, TBool, TDict, TInt, TList, TObj, TSet, TStr, TTuple, TVal, declare_ghost

I = z3.IntSort()  # noqa: E741
DG = "gemseo.core.dependency_graph.DependencyGraph"
CS = "gemseo.core.coupling_structure.CouplingStructure"

schema(NXG, PG.GRAPH_FIELDS)
schema(NXC, PG.COND_FIELDS)
schema(DG, {"_DependencyGraph__graph": TObj(NXG)})

PAIR = TTuple(NAMES, NAMES)
N2IO = TDict(TDisc, PAIR, ordered=True)
GROUP = DLIST  # a tuple of disciplines
STAGE = TList(GROUP)
SEQ = TList(STAGE)

declare_ghost("c08_stage", z3.ArraySort(DiscS, I))
declare_ghost("c08_slot", z3.ArraySort(DiscS, I))
declare_ghost("c08_idx", z3.ArraySort(DiscS, I))
GH = z3.ArraySort(DiscS, I)


def D(name):
    return z3.Const(name, DiscS)


def FA(vs, body, *pats):
    """ForAll with explicit triggers when z3 accepts them."""
    if pats:
        try:
            return z3.ForAll(vs, body, patterns=list(pats))
        except z3.Z3Exception:
            pass
    return z3.ForAll(vs, body)


def coupled(u, v):
    """Some output of u is an input of v."""
    k = z3.Const("k!cpl", StrS)
    return z3.Exists([k], z3.And(out_names(u)[k], in_names(v)[k]))


def in_list(lst, d, tag="il"):
    i = z3.Int(f"i!{tag}")
    return z3.Exists([i], z3.And(0 <= i, i < lst.n, lst.elems[i] == d))


def pair_of(d):
    return PAIR.dt.mk(NAMES.dt.mk(in_names(d), in_n(d)), NAMES.dt.mk(out_names(d), out_n(d)))


def graph_is_dependency_graph(nodes, edge, io):
    """The edge relation / attribute a dependency graph must have for its node set."""
    u, v = D("u!dg"), D("v!dg")
    k = z3.Const("k!dg", StrS)
    return [
        ("edges", FA([u, v], edge[u][v] == z3.And(nodes.member[u], nodes.member[v], u != v, coupled(u, v)), edge[u][v])),
        ("edge-io", FA([u, v, k], z3.Implies(edge[u][v], set_member(io[u][v])[k] == z3.And(out_names(u)[k], in_names(v)[k])), set_member(io[u][v])[k])),
    ]


# ============================================================================ __create_graph
@register
class CreateGraph(Contract):
    """Nodes = the disciplines (in the caller's order); an edge i -> j iff i != j and out(i) & in(j) != {}."""

    targets = (DG + ".__create_graph",)
    prop = ("C08", "C09")
    params = {"disciplines": DLIST}
    returns = TObj(NXG)
    loops = {
        0: LoopSpec(anchor="disciplines", inv=lambda c, k: _cg_inv0(c, k), modifies=("nodes_to_ios",), local_types={"nodes_to_ios": N2IO}),
        1: LoopSpec(anchor="nodes_to_ios.items()", inv=lambda c, k: _cg_inv1(c, k), modifies=("graph",)),
        2: LoopSpec(anchor="nodes_to_ios.items()", inv=lambda c, k: _cg_inv2(c, k), modifies=("graph",)),
    }

    def ensures(self, c):
        L, g = c.old.disciplines, c.result
        nodes = g._nodes
        d = D("d!cg")
        i, j = z3.Ints("i!cg j!cg")
        distinct = z3.ForAll([i, j], z3.Implies(z3.And(0 <= i, i < j, j < L.n), L.elems[i] != L.elems[j]))
        return [
            ("nodes", z3.ForAll([d], nodes.member[d] == in_list(L, d))),
            ("nodes-in-caller-order", z3.Implies(distinct, z3.And(nodes.n == L.n, z3.ForAll([i], z3.Implies(z3.And(0 <= i, i < L.n), nodes.keys[i] == L.elems[i]))))),
        ] + graph_is_dependency_graph(nodes, g.edge, g.io)


def _cg_inv0(c, k):
    L = c.old.disciplines
    m = c.locals["nodes_to_ios"]
    d = D("d!i0")
    i = z3.Int("i!i0")
    return [
        ("keys", z3.ForAll([d], m.member[d] == z3.Exists([i], z3.And(0 <= i, i < k, L.elems[i] == d)))),
        ("values", FA([d], z3.Implies(m.member[d], m.vals[d] == pair_of(d)), m.vals[d])),
    ]


def _cg_common(c):
    L = c.old.disciplines
    m = c.locals["nodes_to_ios"]
    g, g0 = c.locals["graph"], c.pre_locals["graph"]
    d = D("d!i1")
    i = z3.Int("i!i1")
    n, n0 = g._nodes, g0._nodes
    return [
        ("map-keys", z3.ForAll([d], m.member[d] == in_list(L, d, "i1"))),
        ("map-values", FA([d], z3.Implies(m.member[d], m.vals[d] == pair_of(d)), m.vals[d])),
        ("nodes-kept", z3.And(n.n == n0.n, z3.ForAll([d], n.member[d] == n0.member[d]), z3.ForAll([i], z3.Implies(z3.And(0 <= i, i < n0.n), n.keys[i] == n0.keys[i])))),
        ("nodes", z3.ForAll([d], n.member[d] == m.member[d])),
    ]


def _cg_edges(c, done):
    m = c.locals["nodes_to_ios"]
    g = c.locals["graph"]
    u, v = D("u!i1"), D("v!i1")
    k = z3.Const("k!i1", StrS)
    return [
        ("edges", FA([u, v], g.edge[u][v] == z3.And(m.member[u], m.member[v], u != v, coupled(u, v), done(u, v)), g.edge[u][v])),
        ("edge-io", FA([u, v, k], z3.Implies(g.edge[u][v], set_member(g.io[u][v])[k] == z3.And(out_names(u)[k], in_names(v)[k])), set_member(g.io[u][v])[k])),
    ]


def _cg_inv1(c, k):
    m = c.locals["nodes_to_ios"]
    return _cg_common(c) + _cg_edges(c, lambda u, v: m.pos[u] < k)


def _cg_inv2(c, k):
    m = c.locals["nodes_to_ios"]
    di = c.locals["disc_i"]
    return _cg_common(c) + _cg_edges(c, lambda u, v: z3.Or(m.pos[u] < m.pos[di], z3.And(u == di, m.pos[v] < k))) + [
        ("outer-target", z3.And(m.member[di], c.locals["outputs_i"].member == out_names(di)))]
