"""C08 - Execution sequences respect data dependencies and composition is exact.

Disciplines are opaque values (sort ``Disc``) with name sets ``in_names(d)`` / ``out_names(d)``;
a networkx DiGraph is (ordered node set, edge relation, edge attribute ``io``) - see
``pyvc/plug_graph.py`` for the model and the ASSUMED contracts of the networkx functions.

Ghost variables ``c08_stage / c08_slot / c08_idx`` give, for every discipline, its location in an
execution sequence (stage, group inside the stage, rank inside the group): they are the witnesses
of "every discipline appears exactly once".
"""
from __future__ import annotations

import z3

from pyvc import contract as C
from pyvc import plug_graph as PG
from pyvc.contract import Contract, LoopSpec, register, schema
from pyvc.plug_graph import (DLIST, ILIST, NAMES, NXC, NXG, DiscS, TDisc, in_n, in_names, le, ln, out_n, out_names, reach, reach_axioms, set_member)
from pyvc.values import StrS, TBool, TDict, TInt, TList, TObj, TSet, TStr, TTuple, TVal, declare_ghost

I = z3.IntSort()  # noqa: E741
DG = "gemseo.core.dependency_graph.DependencyGraph"
CS = "gemseo.core.coupling_structure.CouplingStructure"

schema(NXG, PG.GRAPH_FIELDS)
schema(NXC, PG.COND_FIELDS)
schema(DG, {"_DependencyGraph__graph": TObj(NXG)})

PAIR = TTuple(NAMES, NAMES)
N2IO = TDict(TDisc, PAIR, ordered=True)
GROUP = DLIST  # a tuple of disciplines
STAGE = TList(GROUP)
SEQ = TList(STAGE)

declare_ghost("c08_stage", z3.ArraySort(DiscS, I))
declare_ghost("c08_slot", z3.ArraySort(DiscS, I))
declare_ghost("c08_idx", z3.ArraySort(DiscS, I))
GH = z3.ArraySort(DiscS, I)


def D(name):
    return z3.Const(name, DiscS)


def FA(vs, body, *pats):
    """ForAll with explicit triggers when z3 accepts them."""
    if pats:
        try:
            return z3.ForAll(vs, body, patterns=list(pats))
        except z3.Z3Exception:
            pass
    return z3.ForAll(vs, body)


def coupled(u, v):
    """Some output of u is an input of v."""
    k = z3.Const("k!cpl", StrS)
    return z3.Exists([k], z3.And(out_names(u)[k], in_names(v)[k]))


def in_list(lst, d, tag="il"):
    i = z3.Int(f"i!{tag}")
    return z3.Exists([i], z3.And(0 <= i, i < lst.n, lst.elems[i] == d))


def pair_of(d):
    return PAIR.dt.mk(NAMES.dt.mk(in_names(d), in_n(d)), NAMES.dt.mk(out_names(d), out_n(d)))


def graph_is_dependency_graph(nodes, edge, io):
    """The edge relation / attribute a dependency graph must have for its node set."""
    u, v = D("u!dg"), D("v!dg")
    k = z3.Const("k!dg", StrS)
    return [
        ("edges", FA([u, v], edge[u][v] == z3.And(nodes.member[u], nodes.member[v], u != v, coupled(u, v)), edge[u][v])),
        ("edge-io", FA([u, v, k], z3.Implies(edge[u][v], set_member(io[u][v])[k] == z3.And(out_names(u)[k], in_names(v)[k])), set_member(io[u][v])[k])),
    ]


# ============================================================================ __create_graph
@register
class CreateGraph(Contract):
    """Nodes = the disciplines (in the caller's order); an edge i -> j iff i != j and out(i) & in(j) != {}."""

    targets = (DG + ".__create_graph",)
    prop = ("C08", "C09")
    params = {"disciplines": DLIST}
    returns = TObj(NXG)
    loops = {
        0: LoopSpec(anchor="disciplines", inv=lambda c, k: _cg_inv0(c, k), modifies=("nodes_to_ios",), local_types={"nodes_to_ios": N2IO}),
        1: LoopSpec(anchor="nodes_to_ios.items()", inv=lambda c, k: _cg_inv1(c, k), modifies=("graph",)),
        2: LoopSpec(anchor="nodes_to_ios.items()", inv=lambda c, k: _cg_inv2(c, k), modifies=("graph",)),
    }

    def ensures(self, c):
        L, g = c.old.disciplines, c.result
        nodes = g._nodes
        d = D("d!cg")
        i, j = z3.Ints("i!cg j!cg")
        distinct = z3.ForAll([i, j], z3.Implies(z3.And(0 <= i, i < j, j < L.n), L.elems[i] != L.elems[j]))
        return [
            ("nodes", z3.ForAll([d], nodes.member[d] == in_list(L, d))),
            ("nodes-in-caller-order", z3.Implies(distinct, z3.And(nodes.n == L.n, z3.ForAll([i], z3.Implies(z3.And(0 <= i, i < L.n), nodes.keys[i] == L.elems[i]))))),
        ] + graph_is_dependency_graph(nodes, g.edge, g.io)


def _cg_inv0(c, k):
    L = c.old.disciplines
    m = c.locals["nodes_to_ios"]
    d = D("d!i0")
    i = z3.Int("i!i0")
    return [
        ("keys", z3.ForAll([d], m.member[d] == z3.Exists([i], z3.And(0 <= i, i < k, L.elems[i] == d)))),
        ("values", FA([d], z3.Implies(m.member[d], m.vals[d] == pair_of(d)), m.vals[d])),
    ]


def _cg_common(c):
    L = c.old.disciplines
    m = c.locals["nodes_to_ios"]
    g, g0 = c.locals["graph"], c.pre_locals["graph"]
    d = D("d!i1")
    i = z3.Int("i!i1")
    n, n0 = g._nodes, g0._nodes
    return [
        ("map-keys", z3.ForAll([d], m.member[d] == in_list(L, d, "i1"))),
        ("map-values", FA([d], z3.Implies(m.member[d], m.vals[d] == pair_of(d)), m.vals[d])),
        ("nodes-kept", z3.And(n.n == n0.n, z3.ForAll([d], n.member[d] == n0.member[d]), z3.ForAll([i], z3.Implies(z3.And(0 <= i, i < n0.n), n.keys[i] == n0.keys[i])))),
        ("nodes", z3.ForAll([d], n.member[d] == m.member[d])),
    ]


def _cg_edges(c, done):
    m = c.locals["nodes_to_ios"]
    g = c.locals["graph"]
    u, v = D("u!i1"), D("v!i1")
    k = z3.Const("k!i1", StrS)
    return [
        ("edges", FA([u, v], g.edge[u][v] == z3.And(m.member[u], m.member[v], u != v, coupled(u, v), done(u, v)), g.edge[u][v])),
        ("edge-io", FA([u, v, k], z3.Implies(g.edge[u][v], set_member(g.io[u][v])[k] == z3.And(out_names(u)[k], in_names(v)[k])), set_member(g.io[u][v])[k])),
    ]


def _cg_inv1(c, k):
    m = c.locals["nodes_to_ios"]
    return _cg_common(c) + _cg_edges(c, lambda u, v: m.pos[u] < k)


def _cg_inv2(c, k):
    m = c.locals["nodes_to_ios"]
    di = c.locals["disc_i"]
    return _cg_common(c) + _cg_edges(c, lambda u, v: z3.Or(m.pos[u] < m.pos[di], z3.And(u == di, m.pos[v] < k))) + [
        ("outer-target", z3.And(m.member[di], c.locals["outputs_i"].member == out_names(di)))]


# ============================================================================ __get_leaves
def no_successor(nodes, edge, a, sort=I, tag="ns"):
    b = z3.Const(f"b!{tag}", sort)
    return z3.ForAll([b], z3.Implies(nodes.member[b], z3.Not(edge[a][b])))


@register
class GetLeaves(Contract):
    """The nodes without successor, each once (here: on a condensation graph, integer nodes)."""

    targets = (DG + ".__get_leaves",)
    prop = ("C08",)
    params = {"graph": TObj(NXC)}
    returns = ILIST

    def ensures(self, c):
        g, r = c.old.graph, c.result
        n = g._nodes
        t, t2, a = z3.Ints("t!gl t2!gl a!gl")
        return [
            ("are-leaves", FA([t], z3.Implies(z3.And(0 <= t, t < r.n), z3.And(n.member[r.elems[t]], no_successor(n, g.edge, r.elems[t]))), r.elems[t])),
            # (mentions n.pos[a] so that the order view of the node set is instantiated at a)
            ("all-leaves", z3.ForAll([a], z3.Implies(z3.And(n.member[a], n.pos[a] >= 0, no_successor(n, g.edge, a)), z3.Exists([t], z3.And(0 <= t, t < r.n, r.elems[t] == a))))),
            ("each-once", z3.ForAll([t, t2], z3.Implies(z3.And(0 <= t, t < t2, t2 < r.n), r.elems[t] != r.elems[t2]))),
        ]


# ============================================================================ __get_ordered_scc
SCCS = TList(TSet(TDisc))
GROUPS = TList(GROUP)
DISC_IDX = TDict(TInt, TDisc, ordered=True)
_SS = TSet(TDisc)


def sset_member(t):
    return _SS.dt.accessor(0, 0)(t)


def sset_n(t):
    return _SS.dt.accessor(0, 1)(t)


def graph_nodes(s):
    return s._DependencyGraph__graph._nodes


def groups_are_ordered_components(N, groups, count, comps, tag):
    """For i < count: the list term groups[i] lists exactly the elements of the set term comps[i], each once, in increasing node position."""
    d = D(f"d!{tag}")
    i, p, q = z3.Ints(f"i!{tag} p!{tag} q!{tag}")
    rng = z3.And(0 <= i, i < count)
    g, cm = groups[i], sset_member(comps[i])
    return [
        ("group-sizes", FA([i], z3.Implies(rng, ln(g) == sset_n(comps[i])), groups[i])),
        ("group-members", FA([i, p], z3.Implies(z3.And(rng, 0 <= p, p < ln(g)), cm[le(g, p)]), le(g, p))),
        ("group-complete", FA([i, d], z3.Implies(z3.And(rng, cm[d]), z3.Exists([p], z3.And(0 <= p, p < ln(g), le(g, p) == d))), cm[d])),
        ("group-in-node-order", z3.ForAll([i, p, q], z3.Implies(z3.And(rng, 0 <= p, p < q, q < ln(g)), N.pos[le(g, p)] < N.pos[le(g, q)]))),
    ]


@register
class GetOrderedScc(Contract):
    """Each component is listed completely, once, in the order of the graph nodes (= caller's order)."""

    targets = (DG + ".__get_ordered_scc",)
    prop = ("C08",)
    params = {"scc": SCCS}
    returns = GROUPS
    loops = {
        0: LoopSpec(anchor="scc", inv=lambda c, k: _os_inv0(c, k), modifies=("__yield__",)),
        1: LoopSpec(anchor="components", inv=lambda c, k: _os_inv1(c, k), modifies=("disc_indexes",), local_types={"disc_indexes": DISC_IDX}),
        2: LoopSpec(anchor="sorted(disc_indexes.keys())", inv=lambda c, k: _os_inv2(c, k), local_types={"ordered_components": GROUP}),
    }

    def requires(self, c):
        N, scc = graph_nodes(c.old.self), c.old.scc
        i = z3.Int("i!osr")
        d = D("d!osr")
        return [("components-are-sets-of-nodes", z3.ForAll([i, d], z3.Implies(z3.And(0 <= i, i < scc.n, sset_member(scc.elems[i])[d]), N.member[d])))]

    def ensures(self, c):
        N, scc, r = graph_nodes(c.old.self), c.old.scc, c.result
        return [("one-list-per-component", r.n == scc.n)] + groups_are_ordered_components(N, r.elems, scc.n, scc.elems, "os")


def _os_inv0(c, k):
    N, scc, y = graph_nodes(c.old.self), c.old.scc, c.locals["__yield__"]
    return [("yielded-count", y.n == k)] + groups_are_ordered_components(N, y.elems, k, scc.elems, "os0")


def _os_inv1(c, k):
    N = graph_nodes(c.old.self)
    comp, di = c.locals["components"], c.locals["disc_indexes"]
    x = z3.Int("x!os1")
    d = D("d!os1")
    return [
        ("indexes", FA([x], di.member[x] == z3.And(0 <= x, x < N.n, comp.member[N.keys[x]], c.seq.pos[N.keys[x]] < k), di.member[x])),
        ("values", FA([x], z3.Implies(di.member[x], di.vals[x] == N.keys[x]), di.vals[x])),
        ("size", di.n == k),
        ("indexes-of-seen", FA([d], z3.Implies(z3.And(comp.member[d], c.seq.pos[d] < k), z3.And(di.member[N.pos[d]], di.vals[N.pos[d]] == d)), comp.member[d])),
    ]


def _os_inv2(c, k):
    N = graph_nodes(c.old.self)
    di, oc = c.locals["disc_indexes"], c.locals["ordered_components"]
    j = z3.Int("j!os2")
    return [
        ("length", oc.n == k),
        ("elements", FA([j], z3.Implies(z3.And(0 <= j, j < k), oc.elems[j] == N.keys[c.seq.elem(j).term]), oc.elems[j], c.seq.elem(j).term)),
    ]


# ============================================================================ __create_condensed_graph
def mem_of(cg, a):
    return cg.members[a]


def condensed_wf(N, E, cg, fresh=True):
    """What the peeling loop needs to know about the condensation `cg` of the graph (N, E)."""
    u, v = D("u!cw"), D("v!cw")
    a, b, p, q = z3.Ints("a!cw b!cw p!cw q!cw")
    n0, comp, midx, M = cg.n0, cg.comp_of, cg.member_idx, cg.members
    out = [
        ("node-of-each-discipline", FA([u], z3.Implies(N.member[u], z3.And(0 <= comp[u], comp[u] < n0, 0 <= midx[u], midx[u] < ln(M[comp[u]]), le(M[comp[u]], midx[u]) == u)), comp[u])),
        ("members-are-disciplines", FA([a, p], z3.Implies(z3.And(0 <= a, a < n0, 0 <= p, p < ln(M[a])), z3.And(N.member[le(M[a], p)], comp[le(M[a], p)] == a, midx[le(M[a], p)] == p)), le(M[a], p))),
        ("groups-are-the-classes-of-mutual-dependency", z3.ForAll([u, v], z3.Implies(z3.And(N.member[u], N.member[v]), (comp[u] == comp[v]) == z3.And(reach(E, u, v), reach(E, v, u))))),
        ("members-in-caller-order", z3.ForAll([a, p, q], z3.Implies(z3.And(0 <= a, a < n0, 0 <= p, p < q, q < ln(M[a])), N.pos[le(M[a], p)] < N.pos[le(M[a], q)]))),
        ("no-empty-group", FA([a], z3.Implies(z3.And(0 <= a, a < n0), ln(M[a]) >= 1), M[a])),
        ("crossing-edges", z3.ForAll([u, v], z3.Implies(z3.And(N.member[u], N.member[v], E[u][v], comp[u] != comp[v]), cg.edge0[comp[u]][comp[v]]))),
        ("edges-between-nodes", FA([a, b], z3.Implies(cg.edge0[a][b], z3.And(0 <= a, a < n0, 0 <= b, b < n0, a != b)), cg.edge0[a][b])),
        ("acyclic", FA([a, b], z3.Implies(cg.edge0[a][b], z3.And(cg.rank[a] > cg.rank[b], cg.rank[b] >= 0)), cg.edge0[a][b])),
    ]
    if fresh:
        cn = cg._nodes
        out += [
            ("nodes", z3.And(cn.n == n0, z3.ForAll([a], cn.member[a] == z3.And(0 <= a, a < n0)))),
            ("nothing-removed-yet", z3.And(cg.rm_count == 0, z3.ForAll([a], cg.rm_time[a] == -1), cg.edge == cg.edge0)),
        ]
    return out


@register
class CreateCondensedGraph(Contract):
    targets = (DG + ".__create_condensed_graph",)
    prop = ("C08",)
    returns = TObj(NXC)

    def ensures(self, c):
        g = c.old.self._DependencyGraph__graph
        return condensed_wf(g._nodes, g.edge, c.result)


# ============================================================================ get_execution_sequence
def seq_at(R, s, t=None, p=None):
    x = R.elems[s]
    if t is not None:
        x = le(x, t)
    if p is not None:
        x = le(x, p)
    return x


def same_group(st, sl, u, v):
    return z3.And(st[u] == st[v], sl[u] == sl[v])


def schedule_is_valid(N, E, R, st, sl, ix):
    """R (list of stages, each a list of groups, each a tuple of disciplines) is a valid schedule of the graph
    (N, E); st/sl/ix locate every discipline in R (ghost witnesses)."""
    u, v = D("u!sv"), D("v!sv")
    s, t, p = z3.Ints("s!sv t!sv p!sv")
    inrange = z3.And(0 <= s, s < R.n, 0 <= t, t < ln(seq_at(R, s)), 0 <= p, p < ln(seq_at(R, s, t)))
    d = seq_at(R, s, t, p)
    s2, t2, p2 = z3.Ints("s2!sv t2!sv p2!sv")
    inrange2 = z3.And(0 <= s2, s2 < R.n, 0 <= t2, t2 < ln(seq_at(R, s2)), 0 <= p2, p2 < ln(seq_at(R, s2, t2)))
    d2 = seq_at(R, s2, t2, p2)
    return [
        ("every-discipline-is-scheduled", FA([u], z3.Implies(N.member[u], z3.And(0 <= st[u], st[u] < R.n, 0 <= sl[u], sl[u] < ln(seq_at(R, st[u])), 0 <= ix[u], ix[u] < ln(seq_at(R, st[u], sl[u])),
                                                                                 seq_at(R, st[u], sl[u], ix[u]) == u)), st[u])),
        ("exactly-once-and-nothing-else", FA([s, t, p], z3.Implies(inrange, z3.And(N.member[d], st[d] == s, sl[d] == t, ix[d] == p)), d)),
        # the same fact without the ghost locations (no new term is created when it is instantiated: used as hypothesis by the coupling contracts)
        ("only-disciplines-are-scheduled", FA([s, t, p], z3.Implies(inrange, N.member[d]), d)),
        ("positions-hold-distinct-disciplines", FA([s, t, p, s2, t2, p2], z3.Implies(z3.And(inrange, inrange2, d == d2), z3.And(s == s2, t == t2, p == p2)), z3.MultiPattern(d, d2))),
        ("groups-are-the-classes-of-mutual-dependency", z3.ForAll([u, v], z3.Implies(z3.And(N.member[u], N.member[v]), same_group(st, sl, u, v) == z3.And(reach(E, u, v), reach(E, v, u))))),
        ("producers-strictly-before-consumers", z3.ForAll([u, v], z3.Implies(z3.And(N.member[u], N.member[v], E[u][v], z3.Not(same_group(st, sl, u, v))), st[u] < st[v]))),
        ("groups-in-caller-order", z3.ForAll([u, v], z3.Implies(z3.And(N.member[u], N.member[v], same_group(st, sl, u, v), ix[u] < ix[v]), N.pos[u] < N.pos[v]))),
        ("no-empty-stage", FA([s], z3.Implies(z3.And(0 <= s, s < R.n), ln(seq_at(R, s)) >= 1), seq_at(R, s))),
        ("no-empty-group", FA([s, t], z3.Implies(z3.And(0 <= s, s < R.n, 0 <= t, t < ln(seq_at(R, s))), ln(seq_at(R, s, t)) >= 1), seq_at(R, s, t))),
    ]


def ghosts(c, which="new"):
    g = c.new_ghost if which == "new" else c.old_ghost
    return g("c08_stage", GH), g("c08_slot", GH), g("c08_idx", GH)


def dag_has_a_sink(N, E, rank, tag="ds"):
    """Cited lemma: a non-empty DAG (edges strictly decrease a rank into the naturals) has a node without successor."""
    a, b = z3.Ints(f"a!{tag} b!{tag}")
    is_dag = z3.ForAll([a, b], z3.Implies(z3.And(N.member[a], N.member[b], E[a][b]), z3.And(rank[a] > rank[b], rank[b] >= 0)))
    return z3.Implies(z3.And(is_dag, N.n > 0), z3.Exists([a], z3.And(N.member[a], no_successor(N, E, a, tag=tag + "b"))))


@register
class GetExecutionSequence(Contract):
    targets = (DG + ".get_execution_sequence",)
    prop = ("C08",)
    returns = SEQ
    modifies = ("ghost:c08_stage", "ghost:c08_slot", "ghost:c08_idx")
    loops = {0: LoopSpec(anchor="True", inv=lambda c, k: _es_inv(c, k), modifies=("condensed_graph",), local_types={"execution_sequence": SEQ},
                         decreases=lambda c, k: c.locals["condensed_graph"]._nodes.n,
                         lemmas=lambda c: [("a non-empty finite DAG has a sink", dag_has_a_sink(c.locals["condensed_graph"]._nodes, c.locals["condensed_graph"].edge, c.locals["condensed_graph"].rank))])}

    def ghost_final(self, c):
        cg, es = c.locals["condensed_graph"], c.locals["execution_sequence"]
        d = D("d!gf")
        return {
            "c08_stage": z3.Lambda([d], es.n - 1 - cg.rm_time[cg.comp_of[d]]),
            "c08_slot": z3.Lambda([d], cg.rm_slot[cg.comp_of[d]]),
            "c08_idx": cg.member_idx,
        }

    def ensures(self, c):
        g = c.old.self._DependencyGraph__graph
        return schedule_is_valid(g._nodes, g.edge, c.result, *ghosts(c))


def _es_inv(c, k):
    cg, cg0, es = c.locals["condensed_graph"], c.pre_locals["condensed_graph"], c.locals["execution_sequence"]
    N = cg._nodes
    a, b, s, t, p = z3.Ints("a!es b!es s!es t!es p!es")
    rt, rs, batch, M, n0 = cg.rm_time, cg.rm_slot, cg.rm_batch, cg.members, cg.n0
    bt = le(batch[s], t)
    return [
        ("static-fields", z3.And(cg.members == cg0.members, cg.comp_of == cg0.comp_of, cg.member_idx == cg0.member_idx, cg.rank == cg0.rank, n0 == cg0.n0, cg.edge0 == cg0.edge0)),
        ("rounds", z3.And(cg.rm_count == k, es.n == k)),
        ("alive-xor-removed", FA([a], z3.Implies(z3.And(0 <= a, a < n0), z3.And(N.member[a] == (rt[a] == -1), -1 <= rt[a], rt[a] < k)), rt[a])),
        ("alive-are-nodes", FA([a], z3.Implies(N.member[a], z3.And(0 <= a, a < n0)), N.member[a])),
        ("edges-among-alive", FA([a, b], cg.edge[a][b] == z3.And(cg.edge0[a][b], N.member[a], N.member[b]), cg.edge[a][b])),
        ("successors-removed-earlier", FA([a, b], z3.Implies(z3.And(cg.edge0[a][b], rt[a] >= 0), z3.And(0 <= rt[b], rt[b] < rt[a])), cg.edge0[a][b])),
        ("stage-sizes", FA([s], z3.Implies(z3.And(0 <= s, s < k), ln(es.elems[s]) == ln(batch[s])), es.elems[s])),
        ("stage-content", FA([s, t], z3.Implies(z3.And(0 <= s, s < k, 0 <= t, t < ln(batch[s])),
                                                 z3.And(0 <= bt, bt < n0, rt[bt] == s, rs[bt] == t, ln(le(es.elems[s], t)) == ln(M[bt]),
                                                        z3.ForAll([p], le(le(es.elems[s], t), p) == le(M[bt], p)))), bt, le(es.elems[s], t))),
        ("non-empty-stages", FA([s], z3.Implies(z3.And(0 <= s, s < k), ln(batch[s]) >= 1), batch[s])),
        ("removed-are-in-their-batch", FA([a], z3.Implies(z3.And(0 <= a, a < n0, rt[a] >= 0), z3.And(0 <= rs[a], rs[a] < ln(batch[rt[a]]), le(batch[rt[a]], rs[a]) == a)), rs[a])),
    ]


# ============================================================================ get_disciplines_couplings
NAME_LIST = TList(TStr)
COUPLING = TTuple(TDisc, TDisc, NAME_LIST)
COUPLINGS = TList(COUPLING)


def cpl(t, i):
    return COUPLING.dt.accessor(0, i)(t)


def _couplings_prefix(R, count, io, tag):
    """For t < count: the third item of R[t] lists exactly the names of the `io` attribute of the edge (R[t][0], R[t][1])."""
    t, p = z3.Ints(f"t!{tag} p!{tag}")
    k = z3.Const(f"k!{tag}", StrS)
    e = R.elems[t]
    names = set_member(io[cpl(e, 0)][cpl(e, 1)])
    rng = z3.And(0 <= t, t < count)
    return [
        ("names-are-coupling-names", FA([t, p], z3.Implies(z3.And(rng, 0 <= p, p < ln(cpl(e, 2))), names[le(cpl(e, 2), p)]), le(cpl(e, 2), p))),
        ("all-coupling-names", FA([t, k], z3.Implies(z3.And(rng, names[k]), z3.Exists([p], z3.And(0 <= p, p < ln(cpl(e, 2)), le(cpl(e, 2), p) == k))), names[k])),
    ]


@register
class GetDisciplinesCouplings(Contract):
    """One triple per edge of the graph (each edge once), with the names stored on the edge."""

    targets = (DG + ".get_disciplines_couplings",)
    prop = ("C08",)
    returns = COUPLINGS
    loops = {0: LoopSpec(anchor="self.__graph.edges(data=self.IO)", inv=lambda c, k: _dc_inv(c, k), local_types={"couplings": COUPLINGS})}

    def ensures(self, c):
        g, R = c.old.self._DependencyGraph__graph, c.result
        t, t2 = z3.Ints("t!dc t2!dc")
        u, v = D("u!dc"), D("v!dc")
        e, e2 = R.elems[t], R.elems[t2]
        return [
            ("each-is-an-edge", FA([t], z3.Implies(z3.And(0 <= t, t < R.n), g.edge[cpl(e, 0)][cpl(e, 1)]), R.elems[t])),
            ("every-edge-is-listed", FA([u, v], z3.Implies(g.edge[u][v], z3.Exists([t], z3.And(0 <= t, t < R.n, cpl(e, 0) == u, cpl(e, 1) == v))), g.edge[u][v])),
            ("each-edge-once", z3.ForAll([t, t2], z3.Implies(z3.And(0 <= t, t < t2, t2 < R.n), z3.Or(cpl(e, 0) != cpl(e2, 0), cpl(e, 1) != cpl(e2, 1))))),
        ] + _couplings_prefix(R, R.n, g.io, "dc")


def _dc_inv(c, k):
    g, R = c.old.self._DependencyGraph__graph, c.locals["couplings"]
    t = z3.Int("t!dci")
    e = R.elems[t]
    return [
        ("count", R.n == k),
        ("edges-so-far", FA([t], z3.Implies(z3.And(0 <= t, t < k), z3.And(cpl(e, 0) == c.seq.eu[t], cpl(e, 1) == c.seq.ev[t])), R.elems[t], c.seq.eu[t])),
    ] + _couplings_prefix(R, k, g.io, "dci")


# ============================================================================ CouplingStructure
schema(CS, {
    "disciplines": DLIST,
    "graph": TObj(DG),
    "sequence": SEQ,
    "_all_couplings": NAME_LIST,
    "_strong_couplings": NAME_LIST,
    "_weak_couplings": NAME_LIST,
    "_weakly_coupled_disc": DLIST,
    "_strongly_coupled_disc": DLIST,
})


def is_state(d, k):
    r = z3.Const("r!st", StrS)
    return z3.Exists([r], z3.And(PG.rts_member(d)[r], PG.rts_vals(d)[r] == k))


self_coupled = z3.Function("self_coupled", DiscS, z3.BoolSort())
"""self_coupled(d): some output of d is also an input and not a state variable of a residual (defined by self_coupled_definition)."""


def self_coupled_definition():
    d = D("d!scd")
    k = z3.Const("k!sc", StrS)
    return [("definition-of-self-coupled", z3.ForAll([d], self_coupled(d) == z3.Exists([k], z3.And(in_names(d)[k], out_names(d)[k], z3.Not(is_state(d, k)))), patterns=[self_coupled(d)]))]


@register
class IsSelfCoupled(Contract):
    targets = (CS + ".is_self_coupled",)
    prop = ("C08",)
    params = {"discipline": TDisc}
    returns = TBool

    def axioms(self, c):
        return self_coupled_definition()

    def ensures(self, c):
        return [("value", c.result == self_coupled(c.old.discipline))]


def list_is_set(lst_n, lst_el, member, tag, sort=StrS):
    """The list holds exactly the elements of the set (order and multiplicity not specified)."""
    p = z3.Int(f"p!{tag}")
    k = z3.Const(f"k!{tag}", sort)
    return [
        ("only-members", FA([p], z3.Implies(z3.And(0 <= p, p < lst_n), member(lst_el[p])), lst_el[p])),
        ("all-members", z3.ForAll([k], z3.Implies(member(k), z3.Exists([p], z3.And(0 <= p, p < lst_n, lst_el[p] == k))))),
    ]


def any_input(L, k, upto=None, tag="ai"):
    i = z3.Int(f"i!{tag}")
    return z3.Exists([i], z3.And(0 <= i, i < (L.n if upto is None else upto), in_names(L.elems[i])[k]))


def any_output(L, k, upto=None, tag="ao"):
    i = z3.Int(f"i!{tag}")
    return z3.Exists([i], z3.And(0 <= i, i < (L.n if upto is None else upto), out_names(L.elems[i])[k]))


@register
class ComputeAllCouplings(Contract):
    """_all_couplings = the names that are an input of some discipline and an output of some discipline."""

    targets = (CS + "._compute_all_couplings",)
    prop = ("C08",)
    modifies = ("self",)
    loops = {0: LoopSpec(anchor="self.disciplines", inv=lambda c, k: _ac_inv(c, k), modifies=("inputs", "outputs"), local_types={"inputs": NAMES, "outputs": NAMES})}

    def ensures(self, c):
        s0, s1 = c.old.self, c.new.self
        L, r = s0.disciplines, s1._all_couplings
        return list_is_set(r.n, r.elems, lambda k: z3.And(any_input(L, k), any_output(L, k)), "ac") + _cs_kept(s0, s1, "_all_couplings")


def _ac_inv(c, k):
    L = c.old.self.disciplines
    x = z3.Const("x!aci", StrS)
    return [
        ("inputs", z3.ForAll([x], c.locals["inputs"].member[x] == any_input(L, x, k))),
        ("outputs", z3.ForAll([x], c.locals["outputs"].member[x] == any_output(L, x, k))),
    ]


def _cs_kept(s0, s1, *changed):
    out = []
    for f in C.class_schema(CS):
        if f in changed or f == "graph":
            continue
        a, b = getattr(s0, f), getattr(s1, f)
        i = z3.Int("i!kept")
        out.append((f"kept:{f}", z3.And(a.n == b.n, z3.ForAll([i], z3.Implies(z3.And(0 <= i, i < a.n), a.elems[i] == b.elems[i])))))
    return out


@register
class FindDiscipline(Contract):
    """The first discipline (in the caller's order) producing the output; ValueError iff there is none."""

    targets = (CS + ".find_discipline",)
    prop = ("C08",)
    params = {"output": TStr}
    returns = TDisc
    raises = {"ValueError": lambda c: z3.Not(any_output(c.old.self.disciplines, c.old.output))}
    loops = {0: LoopSpec(anchor="self.disciplines", inv=lambda c, k: [("not-before", z3.Not(any_output(c.old.self.disciplines, c.old.output, k)))])}

    def ensures(self, c):
        L, o = c.old.self.disciplines, c.old.output
        i, j = z3.Ints("i!fd j!fd")
        return [("first-producer", z3.Exists([i], z3.And(0 <= i, i < L.n, L.elems[i] == c.result, out_names(L.elems[i])[o],
                                                           z3.ForAll([j], z3.Implies(z3.And(0 <= j, j < i), z3.Not(out_names(L.elems[j])[o]))))))]


def in_name_list(lst, k, tag="nl"):
    i = z3.Int(f"i!{tag}")
    return z3.Exists([i], z3.And(0 <= i, i < lst.n, lst.elems[i] == k))


class _GetCouplings(Contract):
    """The names of the discipline's outputs (inputs) that belong to the strong (all) couplings.
    (The lazily filled lists _strong_couplings/_all_couplings are read as they are: see the _compute_* contracts.)"""

    prop = ("C08",)
    params = {"discipline": TDisc, "strong": TBool}
    returns = NAME_LIST
    names = staticmethod(out_names)

    def ensures(self, c):
        s, d, r = c.old.self, c.old.discipline, c.result
        sel = lambda k: z3.If(c.old.strong, in_name_list(s._strong_couplings, k, "gs"), in_name_list(s._all_couplings, k, "ga"))  # noqa: E731
        return list_is_set(r.n, r.elems, lambda k: z3.And(self.names(d)[k], sel(k)), "gc")


@register
class GetOutputCouplings(_GetCouplings):
    targets = (CS + ".get_output_couplings",)


@register
class GetInputCouplings(_GetCouplings):
    targets = (CS + ".get_input_couplings",)
    names = staticmethod(in_names)


# ============================================================================ MDOChain._execute
CHAIN = "gemseo.core.chains.chain.MDOChain"
IOCLS = "gemseo.core.discipline.io.IO"
DATA = TDict(TStr, TVal)
schema(IOCLS, {"_IO__data": DATA})
schema(CHAIN, {"_ProcessDiscipline__disciplines": DLIST, "io": TObj(IOCLS)})

_LS = z3.ArraySort(I, DiscS)
fold_m = z3.Function("chain_fold_member", _LS, I, PG.DataM, PG.DataV, PG.DataM)
fold_v = z3.Function("chain_fold_vals", _LS, I, PG.DataM, PG.DataV, PG.DataV)


def chain_fold_axioms(L, m0, v0):
    """Definition of the left fold  F(0) = data,  F(k+1) = F(k) updated with L[k].execute(F(k))  (keys and values)."""
    k = z3.Int("k!cf")
    x = z3.Const("k!up", StrS)
    fm, fv = fold_m(L, k, m0, v0), fold_v(L, k, m0, v0)
    em, ev = PG.exec_member(L[k], fm, fv), PG.exec_vals(L[k], fm, fv)
    return [
        ("fold-def:0", z3.And(fold_m(L, 0, m0, v0) == m0, fold_v(L, 0, m0, v0) == v0)),
        ("fold-def:member", z3.ForAll([k], z3.Implies(k >= 0, fold_m(L, k + 1, m0, v0) == z3.Lambda([x], z3.Or(fm[x], em[x]))), patterns=[fold_m(L, k + 1, m0, v0)])),
        ("fold-def:vals", z3.ForAll([k], z3.Implies(k >= 0, fold_v(L, k + 1, m0, v0) == z3.Lambda([x], z3.If(em[x], ev[x], fv[x]))), patterns=[fold_v(L, k + 1, m0, v0)])),
    ]


@register
class ChainExecute(Contract):
    """The data after the loop is the left fold, in list order, of `data.update(d.execute(data))`."""

    targets = (CHAIN + "._execute",)
    prop = ("C08",)
    modifies = ("self.io",)
    loops = {0: LoopSpec(anchor="self.disciplines", inv=lambda c, k: _ce_inv(c, k), modifies=("self.io",))}

    def requires(self, c):
        s = c.old.self
        return chain_fold_axioms(s._ProcessDiscipline__disciplines.elems, s.io._IO__data.member, s.io._IO__data.vals)

    def ensures(self, c):
        s0, s1 = c.old.self, c.new.self
        L = s0._ProcessDiscipline__disciplines
        return _ce_fold(s0, s1, L.n)


def _ce_fold(s0, s1, k):
    L = s0._ProcessDiscipline__disciplines
    d0, d1 = s0.io._IO__data, s1.io._IO__data
    x = z3.Const("x!ce", StrS)
    fm, fv = fold_m(L.elems, k, d0.member, d0.vals), fold_v(L.elems, k, d0.member, d0.vals)
    return [
        ("keys-are-the-fold", z3.ForAll([x], d1.member[x] == fm[x])),
        ("values-are-the-fold", z3.ForAll([x], z3.Implies(d1.member[x], d1.vals[x] == fv[x]))),
    ]


def _ce_inv(c, k):
    s0, s1 = c.old.self, c.new.self
    d0, d1 = s0.io._IO__data, s1.io._IO__data
    L = s0._ProcessDiscipline__disciplines
    # (array-level equality: the discipline is executed on exactly the folded data)
    return [("data-is-the-fold", z3.And(d1.member == fold_m(L.elems, k, d0.member, d0.vals), d1.vals == fold_v(L.elems, k, d0.member, d0.vals)))]
