"""Run-time contract for C03 (evaluation budget): replays the two known findings on the real code.

Scenario kinds (deterministic; the witness is the scenario):
* ``lagrange-unit``: LagrangeMultipliers(problem) with evaluation_counter.current = k > 0 - the counter must be unchanged;
* ``lagrange-run``: a gradient-based driver with a KKT tolerance and max_iter = N on an unconstrained Rosenbrock problem - at most N new
  database entries (the KKT check builds a LagrangeMultipliers object at every stored point);
* ``nodb-unit``: a preprocessed problem function without database, counter at its maximum - evaluating it at a new point must raise
  MaxIterReachedException instead of calling the original function;
* ``doe``: a CustomDOE whose first sample completes last (and with a repeated sample), with 2 and 1 processes - the database must list the
  distinct generated samples in generation order, each with the outputs of its own evaluation;
* ``nodb-run``: a driver with use_database=False and max_iter = N - the original objective must be called at no more than N distinct points.
"""
from __future__ import annotations

import logging

import numpy as np


def _problem(n=4):
    from gemseo.algos.design_space import DesignSpace
    from gemseo.algos.optimization_problem import OptimizationProblem
    from gemseo.core.mdo_functions.mdo_function import MDOFunction

    ds = DesignSpace()
    ds.add_variable("x", size=n, lower_bound=-2.0, upper_bound=2.0, value=np.full(n, -1.2))
    pb = OptimizationProblem(ds)
    points = []

    def f(x):
        points.append(tuple(np.round(x, 14)))
        return float(np.sum(100 * (x[1:] - x[:-1] ** 2) ** 2 + (1 - x[:-1]) ** 2))

    def g(x):
        gr = np.zeros_like(x)
        gr[:-1] += -400 * x[:-1] * (x[1:] - x[:-1] ** 2) - 2 * (1 - x[:-1])
        gr[1:] += 200 * (x[1:] - x[:-1] ** 2)
        return gr

    pb.objective = MDOFunction(f, "f", jac=g)
    return pb, points


def run_lagrange_unit(k):
    from gemseo.algos.lagrange_multipliers import LagrangeMultipliers

    pb, _ = _problem()
    pb.evaluation_counter.maximum = k + 5
    pb.evaluation_counter.current = k
    LagrangeMultipliers(pb)
    after = pb.evaluation_counter.current
    if after != k:
        return {"what": "LagrangeMultipliers.__init__ changed the evaluation counter of the problem", "counter_before": k, "counter_after": after}
    return None


def _execute(pb, algo, **settings):
    from gemseo.algos.opt.factory import OptimizationLibraryFactory

    logging.disable(logging.CRITICAL)
    try:
        return OptimizationLibraryFactory().execute(pb, algo_name=algo, **settings)
    finally:
        logging.disable(logging.NOTSET)


def run_lagrange_run(algo, max_iter, settings):
    pb, points = _problem()
    _execute(pb, algo, max_iter=max_iter, **settings)
    created = len(pb.database)
    if created > max_iter:
        return {"what": "more new database entries than the evaluation budget", "algorithm": algo, "settings": settings, "max_iter": max_iter,
                "new_database_entries": created, "objective_calls": len(points), "counter_at_the_end": pb.evaluation_counter.current}
    return None


def run_nodb_unit(max_iter):
    from gemseo.algos.stop_criteria import MaxIterReachedException

    pb, points = _problem()
    pb.preprocess_functions(use_database=False, is_function_input_normalized=False)
    pb.evaluation_counter.maximum = max_iter
    pb.evaluation_counter.current = max_iter
    try:
        pb.objective.evaluate(np.full(4, 0.5))
    except MaxIterReachedException:
        return None
    return {"what": "the budget is exhausted (counter == maximum) and the function is still evaluated at a new point when no database is used",
            "maximum": max_iter, "counter": pb.evaluation_counter.current, "original_function_calls": len(points)}


def run_nodb_run(algo, max_iter):
    pb, points = _problem()
    _execute(pb, algo, max_iter=max_iter, use_database=False)
    distinct = len(set(points))
    if distinct > max_iter:
        return {"what": "the original objective was called at more distinct points than the evaluation budget (use_database=False)", "algorithm": algo,
                "max_iter": max_iter, "objective_calls": len(points), "distinct_points": distinct, "counter_at_the_end": pb.evaluation_counter.current,
                "database_entries": len(pb.database)}
    return None


DOE_SAMPLES = [[1.0, 6.0], [2.0, 5.0], [3.0, 4.0], [4.0, 3.0], [2.0, 5.0], [6.0, 1.0]]  # (sample 4 repeats sample 1)


def _slow_first(x):
    """Objective of the DOE scenario: the first generated sample completes last with two processes."""
    import time

    if abs(x[0] - DOE_SAMPLES[0][0]) < 1e-6:
        time.sleep(0.6)
    return float(x[0] + 10.0 * x[1])


def _doe_problem():
    from gemseo.algos.design_space import DesignSpace
    from gemseo.algos.optimization_problem import OptimizationProblem
    from gemseo.core.mdo_functions.mdo_function import MDOFunction

    ds = DesignSpace()
    ds.add_variable("x", 2, lower_bound=0.0, upper_bound=10.0)  # NOT the unit hypercube: unit samples differ from the physical ones
    pb = OptimizationProblem(ds)
    pb.objective = MDOFunction(_slow_first, "f")
    return pb


def run_doe(n_processes):
    """A DOE records each distinct generated sample once, in generation order, with the outputs of its own evaluation."""
    from gemseo.algos.doe.factory import DOELibraryFactory

    logging.disable(logging.CRITICAL)
    try:
        pb = _doe_problem()
        DOELibraryFactory().execute(pb, algo_name="CustomDOE", samples=np.array(DOE_SAMPLES), n_processes=n_processes)
    finally:
        logging.disable(logging.NOTSET)
    expected = []
    for smp in DOE_SAMPLES:
        if smp not in expected:
            expected.append(smp)
    recorded = [[round(float(v), 9) for v in k.unwrap()] for k in pb.database]
    values = [round(float(np.ravel(v["f"])[0]), 9) if "f" in v else None for v in pb.database.values()]
    if recorded != expected or values != [round(a + 10.0 * b, 9) for a, b in expected]:
        return {"what": "the DOE does not record the distinct generated samples in generation order with their own outputs", "n_processes": n_processes,
                "generated": DOE_SAMPLES, "recorded_keys": recorded, "recorded_f": values}
    return None


def scenarios(kind):
    if kind == "doe":
        for n in (2, 1):
            yield {"kind": "doe", "n_processes": n}
    elif kind == "lagrange":
        for k in (1, 3):
            yield {"kind": "lagrange-unit", "counter": k}
        for settings in ({"kkt_tol_abs": 1e-12}, {"kkt_tol_rel": 1e-12}):
            yield {"kind": "lagrange-run", "algorithm": "L-BFGS-B", "max_iter": 5, "settings": settings}
    else:
        yield {"kind": "nodb-unit", "max_iter": 3}
        for algo in ("L-BFGS-B", "SLSQP", "NLOPT_COBYLA"):
            yield {"kind": "nodb-run", "algorithm": algo, "max_iter": 5}


def _run(s):
    try:
        if s["kind"] == "doe":
            return run_doe(s["n_processes"])
        if s["kind"] == "lagrange-unit":
            return run_lagrange_unit(s["counter"])
        if s["kind"] == "lagrange-run":
            return run_lagrange_run(s["algorithm"], s["max_iter"], s["settings"])
        if s["kind"] == "nodb-unit":
            return run_nodb_unit(s["max_iter"])
        return run_nodb_run(s["algorithm"], s["max_iter"])
    except Exception as e:  # noqa: BLE001
        return {"exception": repr(e)}


def _kind_of(ob):
    if "LagrangeMultipliers.__init__" in ob.func and "evaluation-counter" in ob.label:
        return "lagrange"
    if ob.func.endswith(("ProblemFunction._compute_output", "ProblemFunction._compute_jacobian")) and "budget:no-evaluation" in ob.label:
        return "nodb"
    if ob.func.endswith(("BaseDOELibrary._run", "BaseDOELibrary.__store_in_database", "BaseDOELibrary._evaluate_functions")):
        return "doe"
    return None


def replay(ob, seed=0):
    kind = _kind_of(ob)
    if kind is None:
        return None
    failures = []
    for s in scenarios(kind):
        r = _run(s)
        if r is not None:
            failures.append({"scenario": s, "failure": r})
            if len(failures) == 2:  # the function-level witness and one whole run are enough at check time (python -m contracts.rt_c03 runs them all)
                break
    if not failures:
        return None
    return {"scenario": failures[0]["scenario"], "failure": failures[0]["failure"], "all_failing_scenarios": failures}


def rerun(w):
    r = _run(w["scenario"])
    return {"fails": r is not None, "failure": r}


if __name__ == "__main__":
    import json

    for kind in ("doe", "lagrange", "nodb"):
        for s in scenarios(kind):
            print(json.dumps({"scenario": s, "failure": _run(s)}, default=str))
