"""C18 - transformers are lossless and their Jacobians are the derivatives of their maps; surrogate disciplines return the model's predictions.

Precise numpy model (pyvc/npmodel.py + pyvc/plug_c18.py).  A scaler is seen through its two parameters
``offset`` / ``coefficient`` (rank-1 real arrays kept in the ``parameters`` dictionary of BaseTransformer):

  transform(x)[i, j]          = x[i, j] * coef[j] + offset[j]
  inverse_transform(y)[i, j]  = (y[i, j] - offset[j]) / coef[j]            (coef[j] != 0)
  compute_jacobian(x)[i]      = diag(coef)      = d transform / d x
  compute_jacobian_inverse[i] = diag(1 / coef)  = d inverse_transform / d y

The decorator ``BaseTransformer._use_2d_array`` is dropped by extraction: the undecorated bodies are verified for 2-D data
(shape (n_samples, n_features)), which is what the decorator passes them.
"""
from __future__ import annotations

import z3

from pyvc import contract as C
from pyvc.contract import Contract, LoopSpec, register, schema
from pyvc.npmodel import TArr
from pyvc.plug_c18 import arg_max, arg_min, col_max, col_mean, col_min, col_std
from pyvc.values import TBool, TDict, TInt, TList, TReal, TStr, str_lit

T_ = "gemseo.mlearning.transformers."
BT = T_ + "base_transformer.BaseTransformer"
SC = T_ + "scaler.scaler.Scaler"
MM = T_ + "scaler.min_max_scaler.MinMaxScaler"
SS = T_ + "scaler.standard_scaler.StandardScaler"
F1, F2, F3 = TArr("f", 1), TArr("f", 2), TArr("f", 3)
PARAMS = TDict(TStr, F1)
OFF, COEF = str_lit("offset"), str_lit("coefficient")

_FIELDS = {"_BaseTransformer__parameters": PARAMS, "_BaseTransformer__is_fitted": TBool, "name": TStr}
schema(BT, _FIELDS)
schema(SC, _FIELDS)
schema(MM, _FIELDS)
schema(SS, _FIELDS)


class P:
    """Spec view of the two parameters of a scaler (embedded rank-1 arrays of the parameters dictionary)."""

    def __init__(self, s):
        d = s._BaseTransformer__parameters
        self.d = d
        self.has = z3.And(d.member[OFF], d.member[COEF])
        self.off_t, self.coef_t = d.vals[OFF], d.vals[COEF]
        self.n_off, self.n_coef = F1.dim(self.off_t), F1.dim(self.coef_t)
        self.off, self.coef = F1.els(self.off_t), F1.els(self.coef_t)


def el(a, *i):
    return z3.Select(a.obj.elems, *i)


def ln(a, j=0):
    return a.obj.shape[j]


def arr1(a):
    return F1.dt.mk(a.obj.shape[0], a.obj.elems)


def arr2(a):
    return F2.dt.mk(a.obj.shape[0], a.obj.shape[1], a.obj.elems)


def other_keys_kept(d0, d1, *keys):
    k = z3.Const("k!ok", TStr.sort())
    return z3.ForAll([k], z3.Implies(z3.And(*[k != x for x in keys]), z3.And(d1.member[k] == d0.member[k], d1.vals[k] == d0.vals[k])))


def fitted(p: P, d):
    """What fit() establishes: both parameters are present with one component per feature."""
    return [("parameters-present", p.has), ("fitted:one-coefficient-per-feature", p.n_coef == d), ("fitted:one-offset-per-feature", p.n_off == d)]


# ---------------------------------------------------------------------------- the four maps of a scaler
class _ScalerMap(Contract):
    prop = ("C18",)
    numpy = "precise"
    c18 = True
    frame_arrays = True
    params = {"data": F2}

    def requires(self, c):
        return fitted(P(c.old.self), ln(c.old.data, 1))


@register
class Transform(_ScalerMap):
    """transform(x)[i, j] = x[i, j] * coef[j] + offset[j] for every sample i and feature j; nothing is modified."""

    targets = (SC + ".transform",)
    returns = F2

    def ensures(self, c):
        p, x, r = P(c.old.self), c.old.data, c.result
        i, j = z3.Int("i!tr"), z3.Int("j!tr")
        rng = z3.And(0 <= i, i < ln(x, 0), 0 <= j, j < ln(x, 1))
        return [("shape", z3.And(ln(r, 0) == ln(x, 0), ln(r, 1) == ln(x, 1))),
                ("affine-per-feature", z3.ForAll([i, j], z3.Implies(rng, el(r, i, j) == el(x, i, j) * p.coef[j] + p.off[j]))),
                ("fresh-result", z3.BoolVal(r.ref.id != x.ref.id))]


@register
class InverseTransform(_ScalerMap):
    """inverse_transform(y)[i, j] = (y[i, j] - offset[j]) / coef[j] wherever coef[j] != 0 (stated without division)."""

    targets = (SC + ".inverse_transform",)
    returns = F2

    def ensures(self, c):
        p, y, r = P(c.old.self), c.old.data, c.result
        i, j = z3.Int("i!it"), z3.Int("j!it")
        rng = z3.And(0 <= i, i < ln(y, 0), 0 <= j, j < ln(y, 1))
        return [("shape", z3.And(ln(r, 0) == ln(y, 0), ln(r, 1) == ln(y, 1))),
                ("inverse-affine-per-feature", z3.ForAll([i, j], z3.Implies(z3.And(rng, p.coef[j] != 0), el(r, i, j) * p.coef[j] == el(y, i, j) - p.off[j]))),
                ("fresh-result", z3.BoolVal(r.ref.id != y.ref.id))]


@register
class ComputeJacobian(_ScalerMap):
    """J[i] = diag(coef) for every sample i: entry (j, k) is d transform(x)[i, j] / d x[i, k] = coef[j] if j == k else 0."""

    targets = (SC + ".compute_jacobian",)
    returns = F3

    def ensures(self, c):
        p, x, r = P(c.old.self), c.old.data, c.result
        i, j, k = z3.Int("i!cj"), z3.Int("j!cj"), z3.Int("k!cj")
        d = ln(x, 1)
        rng = z3.And(0 <= i, i < ln(x, 0), 0 <= j, j < d, 0 <= k, k < d)
        return [("shape", z3.And(ln(r, 0) == ln(x, 0), ln(r, 1) == d, ln(r, 2) == d)),
                ("diagonal-of-coefficients", z3.ForAll([i, j, k], z3.Implies(rng, el(r, i, j, k) == z3.If(j == k, p.coef[j], z3.RealVal(0)))))]


@register
class ComputeJacobianInverse(_ScalerMap):
    """J[i] = diag(1 / coef): entry (j, k) is d inverse_transform(y)[i, j] / d y[i, k] = 1 / coef[j] if j == k else 0 (coef[j] != 0)."""

    targets = (SC + ".compute_jacobian_inverse",)
    returns = F3

    def ensures(self, c):
        p, x, r = P(c.old.self), c.old.data, c.result
        i, j, k = z3.Int("i!ci"), z3.Int("j!ci"), z3.Int("k!ci")
        d = ln(x, 1)
        rng = z3.And(0 <= i, i < ln(x, 0), 0 <= j, j < d, 0 <= k, k < d)
        return [("shape", z3.And(ln(r, 0) == ln(x, 0), ln(r, 1) == d, ln(r, 2) == d)),
                ("off-diagonal-zero", z3.ForAll([i, j, k], z3.Implies(z3.And(rng, j != k), el(r, i, j, k) == 0))),
                ("diagonal-of-inverse-coefficients", z3.ForAll([i, j], z3.Implies(z3.And(0 <= i, i < ln(x, 0), 0 <= j, j < d, p.coef[j] != 0), el(r, i, j, j) * p.coef[j] == 1)))]


# ---------------------------------------------------------------------------- parameter setters
class _Setter(Contract):
    prop = ("C18",)
    numpy = "precise"
    c18 = True
    setter = True
    modifies = ("self",)
    KEY = None

    def stored(self, c):
        raise NotImplementedError

    def ensures(self, c):
        d0, d1 = c.old.self._BaseTransformer__parameters, c.new.self._BaseTransformer__parameters
        n, els = self.stored(c)
        i = z3.Int("i!set")
        v = d1.vals[self.KEY]
        return [("stored", z3.And(d1.member[self.KEY], F1.dim(v) == n)),
                ("stored-components", z3.ForAll([i], z3.Implies(z3.And(0 <= i, i < n), F1.els(v)[i] == els(i)))),
                ("other-parameters-kept", other_keys_kept(d0, d1, self.KEY)),
                ("fitted-flag-kept", c.new.self._BaseTransformer__is_fitted == c.old.self._BaseTransformer__is_fitted)]


class _ArraySetter(_Setter):
    """parameters[key] = the array passed (atleast_1d of an array of rank >= 1 is the array itself)."""

    params = {"value": F1}

    def stored(self, c):
        return ln(c.old.value), lambda i: el(c.old.value, i)


class _ScalarSetter(_Setter):
    """parameters[key] = [value] (atleast_1d of a scalar)."""

    variant = "scalar"
    params = {"value": TReal}

    def stored(self, c):
        return z3.IntVal(1), lambda i: c.old.value


@register
class SetOffset(_ArraySetter):
    targets = (SC + ".offset",)
    KEY = OFF


@register
class SetOffsetScalar(_ScalarSetter):
    targets = (SC + ".offset",)
    KEY = OFF


@register
class SetCoefficient(_ArraySetter):
    targets = (SC + ".coefficient",)
    KEY = COEF


@register
class SetCoefficientScalar(_ScalarSetter):
    targets = (SC + ".coefficient",)
    KEY = COEF


# ---------------------------------------------------------------------------- Scaler._fit
@register
class ScalerFit(Contract):
    """A parameter of size 1 is expanded to one (equal) component per feature; a parameter of another size is kept as it is."""

    targets = (SC + "._fit",)
    prop = ("C18",)
    numpy = "precise"
    c18 = True
    frame_arrays = True
    params = {"data": F2}
    modifies = ("self",)

    def requires(self, c):
        return [("parameters-present", P(c.old.self).has)]

    def ensures(self, c):
        p0, p1 = P(c.old.self), P(c.new.self)
        d = ln(c.old.data, 1)
        j = z3.Int("j!sf")
        rng = z3.And(0 <= j, j < d)
        return [("parameters-present", p1.has),
                ("coefficient:size", p1.n_coef == z3.If(p0.n_coef == 1, d, p0.n_coef)),
                ("coefficient:expanded", z3.Implies(p0.n_coef == 1, z3.ForAll([j], z3.Implies(rng, p1.coef[j] == p0.coef[0])))),
                ("coefficient:kept-otherwise", z3.Implies(p0.n_coef != 1, p1.coef_t == p0.coef_t)),
                ("offset:size", p1.n_off == z3.If(p0.n_off == 1, d, p0.n_off)),
                ("offset:expanded", z3.Implies(p0.n_off == 1, z3.ForAll([j], z3.Implies(rng, p1.off[j] == p0.off[0])))),
                ("offset:kept-otherwise", z3.Implies(p0.n_off != 1, p1.off_t == p0.off_t)),
                ("other-parameters-kept", other_keys_kept(p0.d, p1.d, OFF, COEF)),
                ("fitted-when-sizes-were-1-or-d", z3.Implies(z3.And(z3.Or(p0.n_coef == 1, p0.n_coef == d), z3.Or(p0.n_off == 1, p0.n_off == d)),
                                                             z3.And(p1.n_coef == d, p1.n_off == d)))]


# ---------------------------------------------------------------------------- MinMaxScaler._fit / StandardScaler._fit
def _col(c, f, j):
    return f(arr2(c.old.data), j)


class _StatFit(Contract):
    prop = ("C18",)
    numpy = "precise"
    c18 = True
    frame_arrays = True
    params = {"data": F2}
    modifies = ("self",)

    def requires(self, c):
        return [("parameters-present", P(c.old.self).has)]

    def cases(self, c, j, coef, off):
        """[(label, condition, facts about coef/off)] per feature j (from the class documentation)."""
        raise NotImplementedError

    def ensures(self, c):
        p0, p1 = P(c.old.self), P(c.new.self)
        d = ln(c.old.data, 1)
        j = z3.Int("j!fit")
        rng = z3.And(0 <= j, j < d)
        out = [("fitted", z3.And(p1.has, p1.n_coef == d, p1.n_off == d)),
               ("other-parameters-kept", other_keys_kept(p0.d, p1.d, OFF, COEF))]
        for label, cond, facts in self.cases(c, j, p1.coef[j], p1.off[j]):
            out.append((label, z3.ForAll([j], z3.Implies(z3.And(rng, cond), facts))))
        out.append(("lossless:coefficient-never-zero", z3.ForAll([j], z3.Implies(rng, p1.coef[j] != 0))))
        return out


@register
class MinMaxFit(_StatFit):
    """coef = 1 / (max - min), offset = -min / (max - min) per feature, so that min -> 0 and max -> 1; constant features use the
    documented fallback z / min - 0.5 (min != 0) or z + 0.5 (min == 0).  The coefficient is never zero."""

    targets = (MM + "._fit",)
    raises = {"ValueError": lambda c: ln(c.old.data, 0) == 0}  # numpy: minimum of an array without rows

    def cases(self, c, j, coef, off):
        mn, mx = _col(c, col_min, j), _col(c, col_max, j)
        return [("varying-feature:coefficient", mx > mn, coef * (mx - mn) == 1), ("varying-feature:offset", mx > mn, off * (mx - mn) == -mn),
                ("varying-feature:min-to-0", mx > mn, mn * coef + off == 0), ("varying-feature:max-to-1", mx > mn, mx * coef + off == 1),
                ("constant-nonzero-feature", z3.And(mx == mn, mn != 0), z3.And(coef * mn == 1, off == z3.Q(-1, 2))),
                ("constant-zero-feature", z3.And(mx == mn, mn == 0), z3.And(coef == 1, off == z3.Q(1, 2)))]


@register
class StandardFit(_StatFit):
    """coef = 1 / std, offset = -mean / std per feature (zero mean, unit deviation); constant features (std == 0) use the documented
    fallback z / mean - 1 (mean != 0) or z (mean == 0).  The coefficient is never zero."""

    targets = (SS + "._fit",)

    def requires(self, c):
        return super().requires(c) + [("at-least-one-sample", ln(c.old.data, 0) >= 1)]

    def cases(self, c, j, coef, off):
        mean, std = _col(c, col_mean, j), _col(c, col_std, j)
        return [("varying-feature:coefficient", std != 0, coef * std == 1), ("varying-feature:offset", std != 0, off * std == -mean),
                ("varying-feature:mean-to-0", std != 0, mean * coef + off == 0),
                ("constant-nonzero-feature", z3.And(std == 0, mean != 0), z3.And(coef * mean == 1, off == -1)),
                ("constant-zero-feature", z3.And(std == 0, mean == 0), z3.And(coef == 1, off == 0))]


# ---------------------------------------------------------------------------- lemmas over the scaler contracts (pure real arithmetic, per sample and feature)
@register
class ScalerLemmas(Contract):
    """Consequences of the postconditions of transform / inverse_transform / compute_jacobian / compute_jacobian_inverse for one
    feature with coefficient c != 0 and offset o:  t = T(x) and r = G(y) are the values the two contracts describe."""

    targets = ()
    prop = ("C18",)
    lemma = True

    def lemmas(self):
        x, y, c, o, h, t, r, r2, t2, jd, jo, gd = z3.Reals("x y c o h t r r2 t2 jd jo gd")
        T = lambda v: v * c + o  # transform postcondition: value at v  # noqa: E731,N806
        G = lambda res, v: res * c == v - o  # inverse_transform postcondition: res is the value at v  # noqa: E731,N806
        nz = c != 0
        return [
            ("inverse-undoes-transform", z3.Implies(z3.And(nz, t == T(x), G(r, t)), r == x)),
            ("transform-undoes-inverse", z3.Implies(z3.And(nz, G(r, y), t == T(r)), t == y)),
            # the Jacobian entries are the derivatives of the (affine) maps: exact difference quotients for every step h
            ("jacobian-diagonal-is-derivative", z3.Implies(jd == c, T(x + h) - T(x) == jd * h)),
            ("jacobian-off-diagonal-is-derivative", z3.Implies(jo == 0, T(x) - T(x) == jo * h)),  # feature j does not depend on x[k], k != j
            ("inverse-jacobian-diagonal-is-derivative", z3.Implies(z3.And(nz, gd * c == 1, G(r, y), G(r2, y + h)), r2 - r == gd * h)),
            ("jacobians-are-inverse-of-each-other", z3.Implies(z3.And(nz, jd == c, gd * c == 1), z3.And(gd * jd == 1, jd * gd == 1))),
            # fitted scalers: the non-zero coefficient makes the scaler lossless; min-max endpoints
            ("min-max-endpoints", z3.Implies(z3.And(y > x, c * (y - x) == 1, o * (y - x) == -x), z3.And(T(x) == 0, T(y) == 1))),
            ("min-max-range", z3.Implies(z3.And(y > x, c * (y - x) == 1, o * (y - x) == -x, x <= h, h <= y), z3.And(0 <= T(h), T(h) <= 1))),
        ]


# ---------------------------------------------------------------------------- Pipeline: composition of abstract transformers
from pyvc import gmodels as G  # noqa: E402
from pyvc.values import SV, TNd, TRec, TVal, ValS  # noqa: E402

PL = T_ + "pipeline.Pipeline"
# a member transformer is abstract: four uninterpreted maps of (transformer, data)
TRANSF = TRec("TransformerC18", {"uid": TInt}, cls=BT)
TS = TRANSF.sort()
INT = z3.IntSort()
SEQ = z3.ArraySort(INT, TS)
t_f = z3.Function("c18_member_transform", TS, ValS, ValS)
t_g = z3.Function("c18_member_inverse_transform", TS, ValS, ValS)
t_j = z3.Function("c18_member_jacobian", TS, ValS, ValS)
t_ji = z3.Function("c18_member_jacobian_inverse", TS, ValS, ValS)
for _name, _fn in (("transform", t_f), ("inverse_transform", t_g), ("compute_jacobian", t_j), ("compute_jacobian_inverse", t_ji)):
    G.RECORD_METHODS[(BT, _name)] = (lambda fn: lambda ex, recv, args, kwargs: SV(fn(recv.term, TVal.embed(ex.st, args[0])), TNd))(_fn)
schema(PL, {**_FIELDS, "transformers": TList(TRANSF)})

# the opaque numpy layer (pyvc/gmodels.py) names its uninterpreted functions after the operation: the spec uses the same symbols
MATMUL = z3.Function("np_op_MatMult_2", ValS, ValS, ValS)  # a @ b (NOT assumed commutative or associative)
EYE = z3.Function("np_numpy_eye_1", ValS, ValS)
SHAPE = z3.Function("np_attr_shape_1", ValS, ValS)
GETITEM = z3.Function("np_getitem_2", ValS, ValS, ValS)
from pyvc.values import val_of_int  # noqa: E402


def identity_for(x):
    """eye(x.shape[-1])"""
    return EYE(GETITEM(SHAPE(x), val_of_int(z3.IntVal(-1))))


# recursive ghost functions (definitions below, assumed as axioms):
#   comp(T, k, x)      = t_{k-1}(... t_0(x))                          the first k transformers, first to last
#   icomp(T, n, k, y)  = g_{n-k}(... g_{n-1}(y))                      the last k inverse transformers, last to first
#   jcomp(T, k, x)     = J_{k-1}(comp(k-1, x)) @ (... @ (J_0(x) @ I))  chain-rule product at the successive intermediate points
#   jicomp(T, n, k, y) = JI_{n-k}(icomp(k-1, y)) @ (... @ (JI_{n-1}(y) @ I))
comp = z3.Function("c18_comp", SEQ, INT, ValS, ValS)
icomp = z3.Function("c18_icomp", SEQ, INT, INT, ValS, ValS)
jcomp = z3.Function("c18_jcomp", SEQ, INT, ValS, ValS)
jicomp = z3.Function("c18_jicomp", SEQ, INT, INT, ValS, ValS)


def comp_axioms():
    T, k, n, x = z3.Const("T!cx", SEQ), z3.Int("k!cx"), z3.Int("n!cx"), z3.Const("x!cx", ValS)
    return [("def:comp(0)", z3.ForAll([T, x], comp(T, 0, x) == x, patterns=[comp(T, 0, x)])),
            ("def:comp(k+1)", z3.ForAll([T, k, x], z3.Implies(k >= 0, comp(T, k + 1, x) == t_f(T[k], comp(T, k, x))), patterns=[comp(T, k + 1, x)])),
            ("def:icomp(0)", z3.ForAll([T, n, x], icomp(T, n, 0, x) == x, patterns=[icomp(T, n, 0, x)])),
            ("def:icomp(k+1)", z3.ForAll([T, n, k, x], z3.Implies(k >= 0, icomp(T, n, k + 1, x) == t_g(T[n - 1 - k], icomp(T, n, k, x))),
                                         patterns=[icomp(T, n, k + 1, x)]))]


def jcomp_axioms():
    T, k, n, x = z3.Const("T!cx", SEQ), z3.Int("k!cx"), z3.Int("n!cx"), z3.Const("x!cx", ValS)
    return [("def:jcomp(0)", z3.ForAll([T, x], jcomp(T, 0, x) == identity_for(x), patterns=[jcomp(T, 0, x)])),
            ("def:jcomp(k+1)", z3.ForAll([T, k, x], z3.Implies(k >= 0, jcomp(T, k + 1, x) == MATMUL(t_j(T[k], comp(T, k, x)), jcomp(T, k, x))),
                                         patterns=[jcomp(T, k + 1, x)])),
            ("def:jicomp(0)", z3.ForAll([T, n, x], jicomp(T, n, 0, x) == identity_for(x), patterns=[jicomp(T, n, 0, x)])),
            ("def:jicomp(k+1)", z3.ForAll([T, n, k, x], z3.Implies(k >= 0, jicomp(T, n, k + 1, x) == MATMUL(t_ji(T[n - 1 - k], icomp(T, n, k, x)), jicomp(T, n, k, x))),
                                          patterns=[jicomp(T, n, k + 1, x)]))]


def _members(c):
    return c.old.self.transformers


class _Pipe(Contract):
    prop = ("C18",)
    c18 = True
    params = {"data": TNd}
    returns = TNd

    def axioms(self, c):
        return comp_axioms() + jcomp_axioms()


@register
class PipeTransform(_Pipe):
    """transform(x) = t_{n-1}(... t_0(x)): the member transformers are applied first to last (identity for an empty pipeline)."""

    targets = (PL + ".transform",)
    loops = {0: LoopSpec(anchor="self.transformers", inv=lambda c, k: [("data", c.locals["data"] == comp(_members(c).elems, k, c.old.data))])}

    def ensures(self, c):
        T = _members(c)
        return [("composition-first-to-last", c.result == comp(T.elems, T.n, c.old.data))]


@register
class PipeInverseTransform(_Pipe):
    """inverse_transform(y) = g_0(... g_{n-1}(y)): the inverse member transformations are applied last to first."""

    targets = (PL + ".inverse_transform",)
    loops = {0: LoopSpec(anchor="self.transformers[::-1]", inv=lambda c, k: [("data", c.locals["data"] == icomp(_members(c).elems, _members(c).n, k, c.old.data))])}

    def ensures(self, c):
        T = _members(c)
        return [("inverse-composition-last-to-first", c.result == icomp(T.elems, T.n, T.n, c.old.data))]


@register
class PipeJacobian(_Pipe):
    """compute_jacobian(x) = J_{n-1}(x_{n-1}) @ (... @ (J_0(x_0) @ I)) with x_0 = x, x_{k+1} = t_k(x_k): the chain rule, every member
    Jacobian evaluated at the successive intermediate point and multiplied on the LEFT (the matrix product is uninterpreted)."""

    targets = (PL + ".compute_jacobian",)
    loops = {0: LoopSpec(anchor="self.transformers", inv=lambda c, k: [("data", c.locals["data"] == comp(_members(c).elems, k, c.old.data)),
                                                                       ("jacobian", c.locals["jacobian"] == jcomp(_members(c).elems, k, c.old.data))])}

    def ensures(self, c):
        T = _members(c)
        return [("chain-rule-product", c.result == jcomp(T.elems, T.n, c.old.data))]


@register
class PipeJacobianInverse(_Pipe):
    """compute_jacobian_inverse(y) = JI_0(y_{n-1}) @ (... @ (JI_{n-1}(y_0) @ I)) with y_0 = y, y_{k+1} = g_{n-1-k}(y_k)."""

    targets = (PL + ".compute_jacobian_inverse",)
    loops = {0: LoopSpec(anchor="self.transformers[::-1]",
                         inv=lambda c, k: [("data", c.locals["data"] == icomp(_members(c).elems, _members(c).n, k, c.old.data)),
                                           ("jacobian", c.locals["jacobian"] == jicomp(_members(c).elems, _members(c).n, k, c.old.data))])}

    def ensures(self, c):
        T = _members(c)
        return [("chain-rule-product", c.result == jicomp(T.elems, T.n, T.n, c.old.data))]


def _ax(pairs):
    return z3.And(*[f for _, f in pairs])


@register
class PipelineLemmas(Contract):
    """A pipeline of lossless transformers is lossless, for any length n: inductions (base + step + conclusion) over the two
    postconditions  transform(x) = comp(T, n, x)  and  inverse_transform(y) = icomp(T, n, n, y).

    ASSUMED per member i < n:  g_i(t_i(x)) = x  (resp.  t_i(g_i(y)) = y  for the second lemma).
    Q(k):  icomp(T, n, k, comp(T, n, x)) = comp(T, n - k, x)        (undoing the last k members leaves the first n - k)
    R(k):  comp(T, k, icomp(T, n, n, y)) = icomp(T, n, n - k, y)
    The index n - k is carried by a second constant (j with j + 1 = n - k) so that the recursive definitions are instantiated
    by syntactic matching only."""

    targets = ()
    prop = ("C18",)
    lemma = True

    def lemmas(self):
        T = z3.Const("T", SEQ)
        n, k, j, i = z3.Ints("n k j i")
        x, y = z3.Const("x", ValS), z3.Const("y", ValS)
        AX = _ax(comp_axioms())
        rng = z3.And(0 <= i, i < n)
        left_inverse = z3.ForAll([i, x], z3.Implies(rng, t_g(T[i], t_f(T[i], x)) == x), patterns=[t_g(T[i], t_f(T[i], x))])
        right_inverse = z3.ForAll([i, y], z3.Implies(rng, t_f(T[i], t_g(T[i], y)) == y), patterns=[t_f(T[i], t_g(T[i], y))])
        Q = lambda a, b: z3.ForAll([x], icomp(T, n, a, comp(T, n, x)) == comp(T, b, x), patterns=[icomp(T, n, a, comp(T, n, x))])  # noqa: E731,N806
        R = lambda a, b: z3.ForAll([y], comp(T, a, icomp(T, n, n, y)) == icomp(T, n, b, y), patterns=[comp(T, a, icomp(T, n, n, y))])  # noqa: E731,N806
        return [
            ("inverse-undoes-transform:base", z3.Implies(z3.And(AX, n >= 0), Q(z3.IntVal(0), n))),
            ("inverse-undoes-transform:step", z3.Implies(z3.And(AX, left_inverse, 0 <= k, k < n, j == n - k - 1, Q(k, j + 1)), Q(k + 1, j))),
            ("inverse-undoes-transform:conclusion", z3.Implies(z3.And(AX, n >= 0, Q(n, z3.IntVal(0))), z3.ForAll([x], icomp(T, n, n, comp(T, n, x)) == x))),
            ("transform-undoes-inverse:base", z3.Implies(z3.And(AX, n >= 0), R(z3.IntVal(0), n))),
            ("transform-undoes-inverse:step", z3.Implies(z3.And(AX, right_inverse, 0 <= k, k < n, j == n - k - 1, R(k, j + 1)), R(k + 1, j))),
            ("transform-undoes-inverse:conclusion", z3.Implies(z3.And(AX, n >= 0, R(n, z3.IntVal(0))), z3.ForAll([y], comp(T, n, icomp(T, n, n, y)) == y))),
        ]


# ---------------------------------------------------------------------------- SurrogateDiscipline: outputs / Jacobian are the model's
from pyvc.values import TObj, declare_ghost  # noqa: E402

SD = "gemseo.disciplines.surrogate.SurrogateDiscipline"
BR = "gemseo.mlearning.regression.algos.base_regressor.BaseRegressor"
SUP = "gemseo.mlearning.core.algos.supervised.BaseMLSupervisedAlgo"
IOC = "gemseo.core.discipline.io.IO"
DISC = "gemseo.core.discipline.discipline.Discipline"
IN = TDict(TStr, TNd)  # input data: name -> array
OUT = TDict(TStr, TNd, ordered=True)  # predictions: name -> array
JAC = TDict(TStr, TDict(TStr, TNd))  # Jacobian data: output name -> input name -> array
# the regression model and the discipline's data are abstract: `c18_state` stands for everything they depend on
schema(BR + "#c18", {"c18_state": TVal})
schema(IOC + "#c18", {"c18_state": TVal})
schema(SD, {"regression_model": TObj(BR, schema_key=BR + "#c18"), "io": TObj(IOC, schema_key=IOC + "#c18"), "jac": JAC})
PRED = z3.Function("c18_model_predict", ValS, IN.sort(), OUT.sort())  # regression_model.predict(input_data)
PJAC = z3.Function("c18_model_predict_jacobian", ValS, IN.sort(), JAC.sort())  # regression_model.predict_jacobian(input_data)
INPUTS = z3.Function("c18_io_input_data", ValS, IN.sort())  # io.get_input_data()
FLAT = z3.Function("np_method_flatten_1", ValS, ValS)  # ndarray.flatten() in the opaque numpy layer
LOG = z3.ArraySort(INT, IN.sort())
declare_ghost("c18_predict_log", LOG)  # arguments of the successive calls of regression_model.predict
declare_ghost("c18_predict_n", INT)
declare_ghost("c18_predict_jacobian_log", LOG)  # ... of regression_model.predict_jacobian
declare_ghost("c18_predict_jacobian_n", INT)


def in_term(d):
    return IN.dt.mk(d.member, d.vals, d.n)


def _same_dict_as_term(d, ty, term):
    out = [d.member == ty.acc(0)(term), d.vals == ty.acc(1)(term), d.n == ty.acc(2)(term)]
    if ty.ordered:
        out += [d.keys == ty.acc(3)(term), d.pos == ty.acc(4)(term)]
    return z3.And(*out)


def _logged(c, name, arg):
    log0, n0 = c.old_ghost(f"c18_{name}_log", LOG), c.old_ghost(f"c18_{name}_n", INT)
    log1, n1 = c.new_ghost(f"c18_{name}_log", LOG), c.new_ghost(f"c18_{name}_n", INT)
    return z3.And(n1 == n0 + 1, log1 == z3.Store(log0, n0, arg))


class _Model(Contract):
    prop = ("C18",)
    trusted = True
    self_schema = BR + "#c18"
    params = {"input_data": IN}


@register
class ModelPredict(_Model):
    targets = (SUP + ".predict",)
    description = ("assumed (abstract regression model): predict(input_data) is a deterministic function c18_model_predict of the model and of the "
                   "input data, has no effect on the discipline, and the call is recorded in the ghost log c18_predict_log")
    returns = OUT
    modifies = ("ghost:c18_predict_log", "ghost:c18_predict_n")

    def ensures(self, c):
        return [("prediction", _same_dict_as_term(c.result, OUT, PRED(c.old.self.c18_state, in_term(c.old.input_data)))),
                ("logged", _logged(c, "predict", in_term(c.old.input_data)))]


@register
class ModelPredictJacobian(_Model):
    targets = (BR + ".predict_jacobian",)
    description = ("assumed (abstract regression model): predict_jacobian(input_data) is a deterministic function c18_model_predict_jacobian of the "
                   "model and of the input data, has no effect on the discipline, and the call is recorded in the ghost log c18_predict_jacobian_log")
    returns = JAC
    modifies = ("ghost:c18_predict_jacobian_log", "ghost:c18_predict_jacobian_n")

    def ensures(self, c):
        return [("prediction", _same_dict_as_term(c.result, JAC, PJAC(c.old.self.c18_state, in_term(c.old.input_data)))),
                ("logged", _logged(c, "predict_jacobian", in_term(c.old.input_data)))]


@register
class IoGetInputData(Contract):
    targets = (IOC + ".get_input_data",)
    prop = ("C18",)
    trusted = True
    description = "assumed: IO.get_input_data() returns a dictionary c18_io_input_data(io) determined by the discipline's data and grammars, without side effect"
    self_schema = IOC + "#c18"
    returns = IN

    def ensures(self, c):
        return [("input-data", _same_dict_as_term(c.result, IN, INPUTS(c.old.self.c18_state)))]


@register
class InitJacobian(Contract):
    targets = (DISC + "._init_jacobian",)
    prop = ("C18",)
    trusted = True
    description = ("assumed: Discipline._init_jacobian only (re)initialises the attribute `jac` of the discipline (no effect on the regression model, on the "
                   "discipline's data or on the ghost logs)")
    self_schema = SD
    modifies = ("self",)


def _run_inv(c, k):
    Pt = PRED(c.old.self.regression_model.c18_state, in_term(c.old.input_data))
    mem, vals, keys, pos = OUT.acc(0)(Pt), OUT.acc(1)(Pt), OUT.acc(3)(Pt), OUT.acc(4)(Pt)
    o = c.locals["output_data"]
    i, name = z3.Int("i!ri"), z3.Const("name!ri", TStr.sort())
    return [("count", o.n == k),
            ("first-k-predictions-stored", z3.ForAll([i], z3.Implies(z3.And(0 <= i, i < k), z3.And(o.member[keys[i]], o.vals[keys[i]] == FLAT(vals[keys[i]]))), patterns=[keys[i]])),
            ("nothing-else-stored", z3.ForAll([name], z3.Implies(o.member[name], z3.And(mem[name], 0 <= pos[name], pos[name] < k)), patterns=[o.member[name]])),
            ("one-call", _logged(c, "predict", in_term(c.old.input_data)))]


@register
class SurrogateRun(Contract):
    """The output data are exactly the (flattened) predictions of the regression model for the very input data passed: same names, nothing
    else; the model is called once, with these input data; the discipline, the model and the input data are left untouched."""

    targets = (SD + "._run",)
    prop = ("C18",)
    c18 = True
    params = {"input_data": IN}
    returns = OUT
    modifies = ("ghost:c18_predict_log", "ghost:c18_predict_n")
    loops = {0: LoopSpec(anchor="self.regression_model.predict(input_data).items()", inv=_run_inv, modifies=("output_data",),
                         local_types={"output_data": OUT, "name": TStr, "value": TNd})}

    def ensures(self, c):
        Pt = PRED(c.old.self.regression_model.c18_state, in_term(c.old.input_data))
        mem, vals, n = OUT.acc(0)(Pt), OUT.acc(1)(Pt), OUT.acc(2)(Pt)
        r = c.result
        name = z3.Const("name!sr", TStr.sort())
        return [("same-number-of-outputs", r.n == n),
                ("exactly-the-predicted-names", z3.ForAll([name], r.member[name] == mem[name])),
                ("values-are-the-predictions", z3.ForAll([name], z3.Implies(mem[name], r.vals[name] == FLAT(vals[name])))),
                ("model-called-once-with-the-input-data", _logged(c, "predict", in_term(c.old.input_data)))]


@register
class SurrogateComputeJacobian(Contract):
    """jac is exactly the Jacobian data the regression model predicts for the discipline's current input data (io.get_input_data()):
    the model is called once, with these data, and whatever _init_jacobian prepared is replaced."""

    targets = (SD + "._compute_jacobian",)
    prop = ("C18",)
    c18 = True
    params = {"input_names": TList(TStr), "output_names": TList(TStr)}
    modifies = ("self", "ghost:c18_predict_jacobian_log", "ghost:c18_predict_jacobian_n")

    def ensures(self, c):
        s0, s1 = c.old.self, c.new.self
        x = INPUTS(s0.io.c18_state)
        return [("jacobian-is-the-predicted-one", _same_dict_as_term(s1.jac, JAC, PJAC(s0.regression_model.c18_state, x))),
                ("model-called-once-with-the-current-input-data", _logged(c, "predict_jacobian", x)),
                ("model-untouched", s1.regression_model.c18_state == s0.regression_model.c18_state),
                ("data-untouched", s1.io.c18_state == s0.io.c18_state)]


# ---------------------------------------------------------------------------- MOERegressor (hard classification): the PUBLIC predictions of the selected local model
from pyvc.plug_c18 import arr1i_term, arr2_term, u_len, u_slot  # noqa: E402
from pyvc.values import forall_pat  # noqa: E402

MOE = "gemseo.mlearning.regression.algos.moe.MOERegressor"
CLFC = "gemseo.mlearning.classification.algos.base_classifier.BaseClassifier"
I1, I2 = TArr("i", 1), TArr("i", 2)
# local models and the classifier are abstract.  Public and raw (underscore) prediction methods are DIFFERENT uninterpreted maps
# (the public ones apply the local model's own transformers): value at sample row s of the batch X.
LM = TRec("LocalRegressorC18", {"uid": TInt, "output_dimension": TInt, "input_dimension": TInt}, cls=BR)
CLF = TRec("ClassifierC18", {"uid": TInt}, cls=CLFC)
REALS = z3.RealSort()
lm_pred = z3.Function("c18_local_predict", LM.sort(), F2.sort(), INT, INT, REALS)  # predict(X)[s, o]
lm_pred_raw = z3.Function("c18_local__predict", LM.sort(), F2.sort(), INT, INT, REALS)
lm_jac = z3.Function("c18_local_predict_jacobian", LM.sort(), F2.sort(), INT, INT, INT, REALS)  # predict_jacobian(X)[s, o, i]
lm_jac_raw = z3.Function("c18_local__predict_jacobian", LM.sort(), F2.sort(), INT, INT, INT, REALS)
clf_class = z3.Function("c18_classifier_predict", CLF.sort(), F2.sort(), INT, INT)  # classifier.predict(X)[s, 0]


def _batch(ex, arg):
    """(term of the batch the rows are taken from, row map): for a gather X[idx] the rows idx of X - ASSUMED sample-wise local models:
    the rows of a prediction on the sub-batch X[idx] are the rows idx of the prediction on X."""
    from pyvc.npmodel import _arr

    g = ex.st.ghost.get("c18_gather", {}).get(arg.id)
    if g is not None and g[0] is not None:
        ex.assumed.add("local models predict sample-wise: the rows of a prediction on the sub-batch X[idx] are the rows idx of the prediction on X")
        return g[0], g[1], _arr(ex, arg)
    A = _arr(ex, arg)
    return arr2_term(A), (lambda s: s), A


def _lm_method(fn, rank):
    def model(ex, recv, args, kwargs):
        from pyvc.npmodel import NumpyModel

        np_ = NumpyModel()
        Xt, row, A = _batch(ex, args[0])
        m = recv.term
        od, idim = LM.accessor("output_dimension")(m), LM.accessor("input_dimension")(m)
        if rank == 2:
            return np_.new(ex, "f", (A.shape[0], od), np_.lam(2, lambda s, o: fn(m, Xt, row(s), o)))
        return np_.new(ex, "f", (A.shape[0], od, idim), np_.lam(3, lambda s, o, i: fn(m, Xt, row(s), o, i)))

    return model


for _name, _fn, _rank in (("predict", lm_pred, 2), ("_predict", lm_pred_raw, 2), ("predict_jacobian", lm_jac, 3), ("_predict_jacobian", lm_jac_raw, 3)):
    G.RECORD_METHODS[(BR, _name)] = _lm_method(_fn, _rank)


def _clf_predict(ex, recv, args, kwargs):
    from pyvc.npmodel import NumpyModel, _arr

    np_ = NumpyModel()
    A = _arr(ex, args[0])
    Xt = arr2_term(A)
    return np_.new(ex, "i", (A.shape[0], z3.IntVal(1)), np_.lam(2, lambda s, z: clf_class(recv.term, Xt, s)))


G.RECORD_METHODS[(CLFC, "predict")] = _clf_predict
schema(MOE, {"hard": TBool, "classifier": CLF, "regress_models": TList(LM)})


def _moe(c):
    s = c.old.self
    M = s.regress_models
    return s, M, arr2(c.old.input_data)


def _moe_requires(c):
    s, M, Xt = _moe(c)
    k, sm = z3.Int("k!mq"), z3.Int("s!mq")
    X = z3.Const("X!mq", F2.sort())
    od, idim = LM.accessor("output_dimension"), LM.accessor("input_dimension")
    return [("at-least-one-local-model", M.n >= 1),
            # MOERegressor._fit: one local model per cluster, all trained on the same input / output variables
            ("local-models-have-the-same-dimensions", z3.ForAll([k], z3.Implies(z3.And(0 <= k, k < M.n), z3.And(od(M.elems[k]) == od(M.elems[0]), idim(M.elems[k]) == idim(M.elems[0]))),
                                                                patterns=[M.elems[k]])),
            ("dimensions-non-negative", z3.And(od(M.elems[0]) >= 0, idim(M.elems[0]) >= 0)),
            ("classifier-predicts-cluster-indices", z3.ForAll([X, sm], z3.And(0 <= clf_class(s.classifier.term, X, sm), clf_class(s.classifier.term, X, sm) < M.n),
                                                              patterns=[clf_class(s.classifier.term, X, sm)]))]


def _jh_inv(c, k):
    s, M, Xt = _moe(c)
    J, cl = c.locals["jacobians"], c.locals["classes"]
    ct = arr1i_term(cl.obj)
    i, a, b = z3.Int("i!jh"), z3.Int("a!jh"), z3.Int("b!jh")
    rng = z3.And(0 <= i, i < ln(c.old.input_data), 0 <= a, a < ln(J, 1), 0 <= b, b < ln(J, 2))
    ci = cl.obj.elems[i]
    return [("rows-of-the-processed-classes", forall_pat([i, a, b], z3.Implies(rng, el(J, i, a, b) == z3.If(u_slot(ct, ci) < k, lm_jac(M.elems[ci], Xt, i, a, b), z3.RealVal(0))),
                                                         el(J, i, a, b)))]


@register
class MoePredictJacobianHard(Contract):
    """Row s of the result is row s of the PUBLIC predict_jacobian of the local model selected by the classifier for sample s:
    J[s, o, i] = predict_jacobian_{class(s)}(X)[s, o, i]."""

    targets = (MOE + "._predict_jacobian_hard",)
    prop = ("C18",)
    numpy = "precise"
    c18 = True
    frame_arrays = True
    params = {"input_data": F2}
    returns = F3
    loops = {0: LoopSpec(anchor="unique(classes)", inv=_jh_inv, modifies=("jacobians",), local_types={"klass": TInt, "inds_kls": I1})}

    def requires(self, c):
        return _moe_requires(c)

    def ensures(self, c):
        s, M, Xt = _moe(c)
        X, J = c.old.input_data, c.result
        od, idim = LM.accessor("output_dimension"), LM.accessor("input_dimension")
        i, a, b = z3.Int("i!jp"), z3.Int("a!jp"), z3.Int("b!jp")
        rng = z3.And(0 <= i, i < ln(X), 0 <= a, a < ln(J, 1), 0 <= b, b < ln(J, 2))
        cls_i = clf_class(s.classifier.term, Xt, i)
        return [("shape", z3.And(ln(J, 0) == ln(X), ln(J, 1) == od(M.elems[0]), ln(J, 2) == idim(M.elems[0]))),
                ("rows-are-the-public-jacobians-of-the-selected-local-models",
                 forall_pat([i, a, b], z3.Implies(rng, el(J, i, a, b) == lm_jac(M.elems[cls_i], Xt, i, a, b)), el(J, i, a, b)))]


CLU = TRec("ClustererC18", {"n_clusters": TInt})
schema(MOE + "#all", {"hard": TBool, "classifier": CLF, "regress_models": TList(LM), "clusterer": CLU})


def _pa_inv(c, k):
    s, M, Xt = _moe(c)
    out = c.locals["output_data"]
    sm, q, o = z3.Int("s!pa"), z3.Int("q!pa"), z3.Int("o!pa")
    rng = z3.And(0 <= sm, sm < ln(c.old.input_data), 0 <= q, q < k, 0 <= o, o < ln(out, 2))
    return [("clusters-done", forall_pat([sm, q, o], z3.Implies(rng, el(out, sm, q, o) == lm_pred(M.elems[q], Xt, sm, o)), el(out, sm, q, o)))]


@register
class MoePredictAll(Contract):
    """out[s, k, o] = predict_k(X)[s, o]: the PUBLIC prediction of the k-th local model, for every sample, cluster and output."""

    targets = (MOE + "._predict_all",)
    prop = ("C18",)
    self_schema = MOE + "#all"
    numpy = "precise"
    c18 = True
    frame_arrays = True
    params = {"input_data": F2}
    returns = F3
    loops = {0: LoopSpec(anchor="range(self.n_clusters)", inv=_pa_inv, modifies=("output_data",), local_types={"i": TInt})}

    def requires(self, c):
        s, M, Xt = _moe(c)
        return _moe_requires(c)[:3] + [("one-local-model-per-cluster", M.n == s.clusterer.n_clusters)]

    def ensures(self, c):
        s, M, Xt = _moe(c)
        X, out = c.old.input_data, c.result
        sm, q, o = z3.Int("s!pp"), z3.Int("q!pp"), z3.Int("o!pp")
        rng = z3.And(0 <= sm, sm < ln(X), 0 <= q, q < M.n, 0 <= o, o < ln(out, 2))
        return [("shape", z3.And(ln(out, 0) == ln(X), ln(out, 1) == M.n, ln(out, 2) == LM.accessor("output_dimension")(M.elems[0]))),
                ("public-predictions-of-every-local-model", forall_pat([sm, q, o], z3.Implies(rng, el(out, sm, q, o) == lm_pred(M.elems[q], Xt, sm, o)), el(out, sm, q, o)))]
