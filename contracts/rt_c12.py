"""Run-time contract for the backup clauses (contracts/c12_backup_clauses.py), used through contracts/rt_c11.py (never counted as a proof).

A small DOE scenario (one analytic discipline, CustomDOE samples) is run on the REAL gemseo with a history backup on a REAL file in a temporary
directory.  Configuration = (pre-existing file written by an EARLIER run with other samples?, erase, load, at_each_iteration, at_each_function_call).
A checking listener registered right after the backup listener reloads the file with ``Database.from_hdf`` at every notification and compares it with
the in-memory database: "the file lists exactly the points recorded so far, in order, each with the names recorded so far" - what a crash right after the
notification would leave on disk.  (With load=True the earlier points come first: the database is updated from the file before the run.)

Witness = index of the configuration in ``CONFIGS`` (deterministic enumeration, 16 configurations + the ValueError one).
"""
from __future__ import annotations

import itertools
import os
import shutil
import tempfile
import time
from pathlib import Path

import numpy as np

EARLIER = np.array([[-2.0, -2.0], [2.0, -2.0], [-2.0, 2.0], [2.0, 2.0]])
SAMPLES = np.array([[-2.0, -2.0], [0.0, -2.0], [2.0, -2.0], [0.0, 0.0], [1.0, 0.5]])
# (pre_existing, erase, load, at_each_iteration, at_each_function_call)
CONFIGS = [c for c in itertools.product((True, False), (False, True), (False, True), (False, True), (True, False)) if not (c[1] and c[2]) and (c[3] or c[4])]


def _scenario():
    from gemseo import create_design_space, create_discipline, create_scenario

    d = create_discipline("AnalyticDiscipline", expressions={"y": "(x-1)**2+z**2", "g": "x+z"})
    ds = create_design_space()
    ds.add_variable("x", lower_bound=-2.0, upper_bound=2.0, value=0.0)
    ds.add_variable("z", lower_bound=-2.0, upper_bound=2.0, value=0.5)
    s = create_scenario([d], "y", ds, formulation_name="DisciplinaryOpt", scenario_type="DOE")
    s.add_constraint("g", constraint_type="ineq")
    return s


def _diff(db, loaded):
    a = [k.wrapped_array.tolist() for k in db.keys()]
    b = [k.wrapped_array.tolist() for k in loaded.keys()]
    if a != b:
        return {"memory_points": a, "file_points": b}
    for k in db.keys():
        na, nb = sorted(db[k]), sorted(loaded[k])
        if na != nb:
            return {"point": k.wrapped_array.tolist(), "memory_names": na, "file_names": nb}
    return None


def run(cfg, tmp=None):
    """None if the backup file agreed with the database at every notification and at the end, else a description of the first disagreement."""
    import logging

    from gemseo.algos.database import Database

    logging.disable(logging.CRITICAL)
    pre_existing, erase, load, at_iter, at_call = cfg
    own = tmp is None
    tmp = Path(tempfile.mkdtemp(prefix="rt_c12.")) if own else tmp
    path = tmp / f"backup_{abs(hash(cfg))}.h5"
    try:
        if path.exists():
            path.unlink()
        if pre_existing:
            s0 = _scenario()
            s0.set_optimization_history_backup(path)
            s0.execute(algo_name="CustomDOE", samples=EARLIER)
        s = _scenario()
        s.set_optimization_history_backup(path, at_each_iteration=at_iter, at_each_function_call=at_call, erase=erase, load=load)
        pb = s.formulation.optimization_problem
        first = []

        def check(x):
            if not first:
                d = _diff(pb.database, Database.from_hdf(path, log=False))
                if d is not None:
                    d["at_notification_of"] = np.asarray(x).tolist()
                    first.append(d)

        pb.add_listener(check, at_each_iteration=at_iter, at_each_function_call=at_call)
        s.execute(algo_name="CustomDOE", samples=SAMPLES)
        if first:
            return first[0]
        return _diff(pb.database, Database.from_hdf(path, log=False))
    finally:
        logging.disable(logging.NOTSET)
        if own:
            shutil.rmtree(tmp, ignore_errors=True)


FUNCS = ("base_scenario.BaseScenario", "OptimizationProblem.to_hdf", "database.Database.to_hdf", "database.Database.update_from_hdf", "evaluation_problem.EvaluationProblem.add_listener")


def handles(func: str) -> bool:
    return any(f in func for f in FUNCS)


def search_family(ob) -> str:
    """What the order of the enumeration depends on (key of the per-process memo of contracts/rt_c11.replay)."""
    return "backup-starts-consistent" if "backup-starts-consistent" in ob.name else "final-export" if "final-export" in ob.name else ""


def replay(ob, seed=0):
    # wall-clock budget of one search (RT_C12_BUDGET seconds, default 30; the 18 configurations take about 10 s on an idle machine, a witness of the known
    # finding is found with the first configuration tried); out of budget = no witness
    deadline = time.time() + float(os.environ.get("RT_C12_BUDGET", "30"))
    order = list(range(len(CONFIGS)))
    if "backup-starts-consistent" in ob.name:
        order.sort(key=lambda i: not (CONFIGS[i][0] and not CONFIGS[i][1] and not CONFIGS[i][2]))  # the known failing region first
    if "final-export" in ob.name:
        order.sort(key=lambda i: not (not CONFIGS[i][0] and not CONFIGS[i][4]))  # fresh file and database, backup at each iteration only
    tmp = Path(tempfile.mkdtemp(prefix="rt_c12."))
    try:
        for i in order:
            if time.time() > deadline:
                return None
            try:
                r = run(CONFIGS[i], tmp)
            except Exception as e:  # noqa: BLE001
                r = {"exception": repr(e)}
            if r is not None:
                keys = ("pre_existing_file_of_an_earlier_run", "erase", "load", "at_each_iteration", "at_each_function_call")
                return {"scenario": "DOE scenario with history backup on a real file, file reloaded at every notification", "backup_config": i,
                        "config": dict(zip(keys, CONFIGS[i])), "failure": r}
    finally:
        shutil.rmtree(tmp, ignore_errors=True)
    return None


def rerun(w):
    try:
        r = run(CONFIGS[w["backup_config"]])
    except Exception as e:  # noqa: BLE001
        r = {"exception": repr(e)}
    return {"fails": r is not None, "failure": r}


if __name__ == "__main__":
    import time

    t0 = time.time()
    bad = 0
    for i, cfg in enumerate(CONFIGS):
        try:
            r = run(cfg)
        except Exception as e:  # noqa: BLE001
            r = {"exception": repr(e)}
        bad += r is not None
        print(i, cfg, "OK" if r is None else f"FAIL {r}")
    print(f"{len(CONFIGS)} configurations, {bad} failing, {time.time() - t0:.0f}s")
