"""C09 (chains) - the request cache of MDOChain and the Jacobians of parallel / additive chains.

(A) ``MDOChain._compute_diff_in_outs``: whatever the previous request was, after the call the differentiated inputs/outputs of the
    disciplines (ghost maps c09_diff_in/out of the opaque disciplines, see c09_chain_rule.py) cover the CURRENT request as the contract
    of ``traverse_add_diff_io`` says.  History is handled by a representation invariant of the cache: ``_last_diff_inouts`` is None or a pair
    of sets (I0, O0) such that the disciplines already cover the request (I0, O0); the coverage only depends on the *sets* of names.
(B) ``MDOAdditiveChain._compute_jacobian``: the block of every summed output w.r.t. every requested input is the SUM of the blocks of the
    disciplines that have one, every other output keeps the block the parallel chain computed, and the disciplines' own Jacobian arrays
    are not modified.  The disciplines' Jacobians are a ghost dictionary of self (see pyvc/plug_c09.py); ``_c09_lin_jacs`` / ``_c09_par_jac``
    are prophecy ghosts: what the parallel linearisation will leave in the disciplines / in ``self.jac``.
"""
from __future__ import annotations

import z3

from pyvc import contract as C
from pyvc import plug_graph as PG
from pyvc.contract import Contract, LoopSpec, register, schema
from pyvc.npmodel import TArr
from pyvc.plug_c09 import ALLJAC, CS, ELS, F2, JACT, SEQ_B, SEQ_ELS, TDiscTuple, TNameTuple, cfold, cfold_axioms, some_kept
from pyvc.plug_graph import DIFF_S, DLIST, NAMES, NXG, DiscS, TDisc, in_names, is_continuous, out_names, reach, reach_axioms, set_member
from pyvc.values import StrS, TBool, TDict, TInt, TList, TNone, TObj, TOpt, TSet, TStr, TTuple

from contracts.c08_dependency import DG, FA, D, NAME_LIST, graph_is_dependency_graph, in_list
from contracts.c09_chain_rule import LSET_DEF, S

I = z3.IntSort()  # noqa: E741
CHAIN = "gemseo.core.chains.chain.MDOChain"
LAST = TOpt(TTuple(NAMES, NAMES))  # None | (set of input names, set of output names)

schema(CS + "#c09", {"graph": TObj(DG)})
schema(CHAIN + "#c09cached", {"_ProcessDiscipline__disciplines": DLIST, "_coupling_structure": TObj(CS, schema_key=CS + "#c09"), "_last_diff_inouts": LAST})
schema(CHAIN + "#c09fresh", {"_ProcessDiscipline__disciplines": DLIST, "_coupling_structure": TNone, "_last_diff_inouts": LAST})


# ============================================================================ (A) MDOChain._compute_diff_in_outs
def lset_of(lst):
    """membership array of the set of the elements of a list of names (view)"""
    return PG.lset(NAME_LIST.dt.mk(lst.n, lst.elems))


def stored_sets(last):
    """(membership of I0, membership of O0) of a non-None ``_last_diff_inouts`` (term of sort LAST)"""
    pair = LAST.dt.get(last)
    tt = LAST.inner
    return set_member(tt.dt.accessor(0, 0)(pair)), set_member(tt.dt.accessor(0, 1)(pair))


def ghost_cov(g, Xm, Om, di, do, tag):
    """Ghost-level coverage of the request (Xm, Om) [membership arrays of the requested input / output names]: every edge p -> q of the
    graph on a path from a discipline with a requested input to a discipline with a requested output has its (continuous) coupling
    names among the differentiated outputs of p and the differentiated inputs of q; a discipline with both a requested input and a
    requested output differentiates all its (continuous) requested outputs w.r.t. all its (continuous) requested inputs."""
    N, E, io = g._nodes, g.edge, g.io
    p, q, d1, dk, d = D(f"p!{tag}"), D(f"q!{tag}"), D(f"d1!{tag}"), D(f"dk!{tag}"), D(f"d!{tag}")
    k, k2 = S(f"k!{tag}"), S(f"k2!{tag}")
    T_, F_ = z3.BoolVal(True), z3.BoolVal(False)
    req_i = lambda x: z3.Exists([k2], z3.And(Xm[k2], in_names(x)[k2]))  # noqa: E731
    req_o = lambda x: z3.Exists([k2], z3.And(Om[k2], out_names(x)[k2]))  # noqa: E731
    on_path = z3.And(N.member[p], N.member[q], E[p][q], N.member[d1], req_i(d1), reach(E, d1, p), N.member[dk], req_o(dk), reach(E, q, dk))
    edge_ok = FA([k], z3.Implies(set_member(io[p][q])[k], z3.And(z3.Implies(is_continuous(p, F_, k), do[p][k]), z3.Implies(is_continuous(q, T_, k), di[q][k]))), set_member(io[p][q])[k])
    single_ok = z3.ForAll([k], z3.And(z3.Implies(z3.And(Xm[k], in_names(d)[k], is_continuous(d, T_, k)), di[d][k]),
                                      z3.Implies(z3.And(Om[k], out_names(d)[k], is_continuous(d, F_, k)), do[d][k])))
    return [
        ("edges-on-requested-paths", z3.ForAll([p, q, d1, dk], z3.Implies(on_path, edge_ok))),
        ("single-discipline", z3.ForAll([d], z3.Implies(z3.And(N.member[d], req_i(d), req_o(d)), single_ok))),
    ]


def dep_graph_ok(L, g):
    d = D("d!dgk")
    return [("nodes-are-the-disciplines", z3.ForAll([d], g._nodes.member[d] == in_list(L, d, "dgk")))] + graph_is_dependency_graph(g._nodes, g.edge, g.io)


def _ghosts(c):
    return (c.old_ghost("c09_diff_in", DIFF_S), c.old_ghost("c09_diff_out", DIFF_S), c.new_ghost("c09_diff_in", DIFF_S), c.new_ghost("c09_diff_out", DIFF_S))


def _graph_of(s):
    return s._coupling_structure.graph._DependencyGraph__graph


def cache_valid(s, g, di, do, tag):
    last = s._last_diff_inouts
    Im, Om = stored_sets(last.term)
    return [(f"cache-valid:{lb}", z3.Implies(z3.Not(last.is_none()), f)) for lb, f in ghost_cov(g, Im, Om, di, do, tag)]


class _ComputeDiffInOuts(Contract):
    """After the call the disciplines cover the CURRENT request (whatever the cached one was); nothing is ever removed; the cache stays
    valid (it names a request the disciplines cover) and the graph stays the dependency graph of the disciplines."""

    targets = (CHAIN + "._compute_diff_in_outs",)
    prop = ("C09",)
    params = {"input_names": NAME_LIST, "output_names": NAME_LIST}
    modifies = ("self", "ghost:c09_diff_in", "ghost:c09_diff_out")
    raises = {"ValueError": None}  # a selected name that is not a grammar name (from traverse_add_diff_io, not characterised)
    c09_chains = True
    c09_cs_schema = CS + "#c09"
    set_of_list_via_lset = True  # set(list of names).member is lset(list) (plug_graph), the vocabulary of traverse_add_diff_io's contract
    cached = True

    def requires(self, c):
        s = c.old.self
        out = list(LSET_DEF)
        if self.cached:
            g = _graph_of(s)
            di, do, _, _ = _ghosts(c)
            out += [(f"reach-closure{i}", a) for i, a in enumerate(reach_axioms(g.edge))]
            out += [(f"inv:{lb}", f) for lb, f in dep_graph_ok(s._ProcessDiscipline__disciplines, g)]
            out += [(f"inv:{lb}", f) for lb, f in cache_valid(s, g, di, do, "cv0")]
        else:
            # representation invariant: no coupling structure yet => no cached request (both are None after __init__, only this method sets them)
            out += [("inv:no-structure-no-cached-request", s._last_diff_inouts.is_none())]
        return out

    def axioms(self, c):
        if self.cached:
            return []
        # (fresh structure: the closure axioms of reach are stated for every edge relation)
        E = z3.Const("E!ra", PG.REL_D)
        u, v, w = z3.Consts("u!rq v!rq w!rq", DiscS)
        return [("reach-closure", z3.ForAll([E, u], reach(E, u, u), patterns=[reach(E, u, u)])),
                ("reach-closure-edge", z3.ForAll([E, u, v], z3.Implies(E[u][v], reach(E, u, v)), patterns=[reach(E, u, v)])),
                ("reach-closure-trans", z3.ForAll([E, u, v, w], z3.Implies(z3.And(reach(E, u, v), reach(E, v, w)), reach(E, u, w)), patterns=[z3.MultiPattern(reach(E, u, v), reach(E, v, w))]))]

    def ensures(self, c):
        s0, s1 = c.old.self, c.new.self
        g = _graph_of(s1)
        di0, do0, di1, do1 = _ghosts(c)
        d, k = D("d!cd"), S("k!cd")
        L0, L1 = s0._ProcessDiscipline__disciplines, s1._ProcessDiscipline__disciplines
        i = z3.Int("i!cd")
        out = [(f"current-request-covered:{lb}", f) for lb, f in ghost_cov(g, lset_of(c.old.input_names), lset_of(c.old.output_names), di1, do1, "cur")]
        out += [
            ("never-removes:inputs", FA([d, k], z3.Implies(di0[d][k], di1[d][k]), di0[d][k])),
            ("never-removes:outputs", FA([d, k], z3.Implies(do0[d][k], do1[d][k]), do0[d][k])),
        ]
        out += cache_valid(s1, g, di1, do1, "cv1")
        out += [(f"inv:{lb}", f) for lb, f in dep_graph_ok(L1, g)]
        out += [("disciplines-unchanged", z3.And(L0.n == L1.n, z3.ForAll([i], z3.Implies(z3.And(0 <= i, i < L0.n), L0.elems[i] == L1.elems[i]))))]
        return out


@register
class ComputeDiffInOutsCached(_ComputeDiffInOuts):
    self_schema = CHAIN + "#c09cached"


@register
class ComputeDiffInOutsFresh(_ComputeDiffInOuts):
    """First call: the coupling structure does not exist yet (constructor model: see pyvc/plug_c09.py)."""

    variant = "first-call"
    self_schema = CHAIN + "#c09fresh"
    cached = False


# ============================================================================ (B) parallel / additive chains
PAR = "gemseo.core.chains.parallel_chain.MDOParallelChain"
ADD = "gemseo.core.chains.additive_chain.MDOAdditiveChain"
INNER = JACT.v  # {input: block}
vsz = z3.Function("c09_var_size", StrS, I)  # size of a variable (what Discipline._check_jacobian_shape compares the block shapes with)

_GHOSTS = {"jac": JACT, "_c09_disc_jacs": ALLJAC, "_c09_lin_jacs": ALLJAC, "_c09_par_jac": JACT}
schema(ADD + "#gen", {"_ProcessDiscipline__disciplines": DLIST, "_outputs_to_sum": NAME_LIST, **_GHOSTS})
schema(ADD + "#b2", {"_ProcessDiscipline__disciplines": TDiscTuple(2), "_outputs_to_sum": TNameTuple(1), **_GHOSTS})


def j_has(jt, o):
    """output o has an entry in the Jacobian dictionary (a dict view, or a term of sort JACT)"""
    return jt.member[o] if hasattr(jt, "member") else JACT.acc(0)(jt)[o]


def j_row(jt, o):
    return jt.vals[o] if hasattr(jt, "vals") else JACT.acc(1)(jt)[o]


def r_has(rt, x):
    return INNER.acc(0)(rt)[x]


def r_blk(rt, x):
    return INNER.acc(1)(rt)[x]


def blk_els(bt):
    return F2.els(bt)


def has_block(A, d, o, x):
    """discipline d has a Jacobian block for (o, x) in the dictionary of all the disciplines' Jacobians A (array Disc -> JACT)"""
    return z3.And(j_has(A[d], o), r_has(j_row(A[d], o), x))


def block(A, d, o, x):
    return r_blk(j_row(A[d], o), x)


def jv(view):
    """a dict view of sort JACT, read through its membership / value arrays (no constructor term: usable in triggers)"""
    return view.obj


@register
class ParallelComputeJacobian(Contract):
    """ASSUMED summary of the parallel linearisation, in terms of two prophecy ghosts of self: the disciplines end up holding the
    Jacobians ``_c09_lin_jacs`` and ``self.jac`` is ``_c09_par_jac`` (nothing else of self changes)."""

    targets = (PAR + "._compute_jacobian",)
    prop = ("C09",)
    params = {"input_names": NAME_LIST, "output_names": NAME_LIST}
    modifies = ("self.jac", "self._c09_disc_jacs")
    trusted = True
    description = ("assumed: MDOParallelChain._compute_jacobian leaves in every discipline the Jacobian dictionary its linearisation produced and in self.jac the merged "
                   "dictionary (both named by prophecy ghosts _c09_lin_jacs / _c09_par_jac); the parallel execution machinery is not verified")

    def ensures(self, c):
        s0, s1 = c.old.self, c.new.self
        A1, LIN, J1, P = s1._c09_disc_jacs, s0._c09_lin_jacs, s1.jac, s0._c09_par_jac
        return [("disciplines-hold-their-linearisation", z3.And(A1.vals == LIN.vals, A1.member == LIN.member, A1.n == LIN.n)),
                ("chain-jacobian-is-the-merged-one", z3.And(J1.vals == P.vals, J1.member == P.member, J1.n == P.n))]


def seq_S(A, L, o, x):
    t = z3.Int("t!sm")
    return z3.Lambda([t], blk_els(block(A, L.elems[t], o, x)))


def seq_C(A, L, o, x):
    t = z3.Int("t!sm")
    return z3.Lambda([t], has_block(A, L.elems[t], o, x))


def summed_ok(J, A, L, o, x):
    """J[o] exists; if some discipline has a block (o, x): J[o][x] exists, has the shape (size(o), size(x)) and is the sum, in the order of the
    chain, of the blocks (o, x) of the disciplines that have one; if none has one: J[o] has no entry for x"""
    b = r_blk(j_row(J, o), x)
    some = some_kept(L.n, lambda t: has_block(A, L.elems[t], o, x))
    return z3.And(j_has(J, o), z3.If(some,
                                     z3.And(r_has(j_row(J, o), x), F2.dim(b, 0) == vsz(o), F2.dim(b, 1) == vsz(x), blk_els(b) == cfold(seq_S(A, L, o, x), seq_C(A, L, o, x), L.n)),
                                     z3.Not(r_has(j_row(J, o), x))))


def lin_shapes(A):
    d, o, x = D("d!ls"), S("o!ls"), S("x!ls")
    b = block(A, d, o, x)
    return FA([d, o, x], z3.Implies(has_block(A, d, o, x), z3.And(F2.dim(b, 0) == vsz(o), F2.dim(b, 1) == vsz(x))), r_has(j_row(A[d], o), x))


def _z3safe(fn):
    """a specification that no longer fits the sorts of the state (e.g. self.jac rebound to a dict of another type) is undecided, not a crash"""
    def wrapped(*a, **k):
        try:
            return fn(*a, **k)
        except z3.Z3Exception as e:
            raise TypeError(f"sort mismatch between the specification and the state: {e}") from e
    wrapped.__qualname__ = getattr(fn, "__qualname__", "spec")
    return wrapped


class _Additive(Contract):
    targets = (ADD + "._compute_jacobian",)
    prop = ("C09",)
    modifies = ("self.jac", "self._c09_disc_jacs")
    numpy = "precise"
    c09_chains = True


def _in_names(lst, x, upto=None, tag="inl"):
    j = z3.Int(f"j!{tag}")
    return z3.Exists([j], z3.And(0 <= j, j < (lst.n if upto is None else upto), lst.elems[j] == x))


@register
class AdditiveComputeJacobian(_Additive):
    """Any number of disciplines, summed outputs and requested inputs."""

    self_schema = ADD + "#gen"
    params = {"input_names": NAME_LIST, "output_names": NAME_LIST}
    loops = {
        0: LoopSpec(anchor="self._outputs_to_sum", inv=lambda c, k: _z3safe(_add_inv0)(c, k), modifies=("self.jac",)),
        1: LoopSpec(anchor="input_names", inv=lambda c, k: _z3safe(_add_inv1)(c, k), modifies=("self.jac",)),
    }

    def requires(self, c):
        s = c.old.self
        L, Os, X, LIN = s._ProcessDiscipline__disciplines, s._outputs_to_sum, c.old.input_names, s._c09_lin_jacs.vals
        m, j, t = z3.Ints("m!rq j!rq t!rq")
        return [
            # Discipline.linearize checks the shapes of the blocks it returns (_check_jacobian_shape)
            ("linearised-blocks-have-the-variable-sizes", lin_shapes(LIN)),
        ]

    def ensures(self, c):
        s0, s1 = c.old.self, c.new.self
        L, Os, X = s0._ProcessDiscipline__disciplines, s0._outputs_to_sum, c.old.input_names
        J, A1, LIN, P = jv(s1.jac), s1._c09_disc_jacs, s0._c09_lin_jacs, jv(s0._c09_par_jac)
        return _add_spec(J, A1.vals, L, Os, X, P, Os.n) + [
            ("frame:the-disciplines-jacobians-are-not-modified", z3.And(A1.vals == LIN.vals, A1.member == LIN.member, A1.n == LIN.n))]


def _add_spec(J, A, L, Os, X, P, k0):
    """The summed outputs Os[0..k0) are done; every other output has the entry of P."""
    m, j = z3.Ints("m!as j!as")
    o, x = S("o!as"), S("x!as")
    return [
        ("summed-blocks", FA([m, j], z3.Implies(z3.And(0 <= m, m < k0, 0 <= j, j < X.n), summed_ok(J, A, L, Os.elems[m], X.elems[j])), z3.MultiPattern(Os.elems[m], X.elems[j]))),
        # (with "summed-blocks": the summed outputs have exactly the requested inputs)
        ("summed-outputs-are-present", FA([m], z3.Implies(z3.And(0 <= m, m < k0), j_has(J, Os.elems[m])), Os.elems[m])),
        ("summed-outputs-have-only-the-requested-inputs", FA([m, x], z3.Implies(z3.And(0 <= m, m < k0, r_has(j_row(J, Os.elems[m]), x)), _in_names(X, x, tag="as")), r_has(j_row(J, Os.elems[m]), x))),
        ("other-outputs-keep-the-merged-entry", FA([o], z3.Implies(z3.Not(_in_names(Os, o, k0, "aso")), z3.And(j_has(J, o) == j_has(P, o), j_row(J, o) == j_row(P, o))), j_row(J, o))),
    ]


def _add_inv0(c, k):
    s0, s1 = c.old.self, c.new.self
    L, Os, X = s0._ProcessDiscipline__disciplines, s0._outputs_to_sum, c.old.input_names
    return _add_spec(jv(s1.jac), s1._c09_disc_jacs.vals, L, Os, X, jv(s0._c09_par_jac), k)


def _add_inv1(c, k):
    s0, s1 = c.old.self, c.new.self
    L, X = s0._ProcessDiscipline__disciplines, c.old.input_names
    J, J0, A = jv(s1.jac), jv(c.pre_locals["self"].jac), s1._c09_disc_jacs.vals
    o_ = c.locals["output_name"]
    j = z3.Int("j!a1")
    o, x = S("o!a1"), S("x!a1")
    return [
        ("current-output-is-present", j_has(J, o_)),
        ("current-output-has-only-the-first-inputs", FA([x], z3.Implies(r_has(j_row(J, o_), x), _in_names(X, x, k, "a1")), r_has(j_row(J, o_), x))),
        ("first-blocks-are-summed", FA([j], z3.Implies(z3.And(0 <= j, j < k), summed_ok(J, A, L, o_, X.elems[j])), X.elems[j])),
        # (array-level, quantifier-free: the two dictionaries agree everywhere except on the value of the current output)
        ("same-outputs-as-at-loop-entry", J.member == J0.member),
        ("other-outputs-untouched", z3.Store(J.vals, o_, j_row(J0, o_)) == J0.vals),
    ]


@register
class AdditiveComputeJacobianTwoDisciplines(_Additive):
    """Bounded stand-in (2 disciplines - possibly the same one twice -, 1 summed output, 1 requested input): no loop
    invariant, no summary of the comprehension or of ``sum``: the code is executed as it is written (also when it is rewritten), the
    blocks read from the disciplines are *the disciplines' arrays* (in-place modifications hit the frame clause)."""

    variant = "two-disciplines"
    self_schema = ADD + "#b2"
    params = {"input_names": TNameTuple(1), "output_names": NAME_LIST}

    @staticmethod
    def _parts(c):
        s = c.old.self
        return s._ProcessDiscipline__disciplines, s._outputs_to_sum[0].term, [x.term for x in c.arg("input_names")], s._c09_lin_jacs.vals

    def requires(self, c):
        ds, o, xs, LIN = self._parts(c)
        out = []
        for a, x in enumerate(xs):
            for b, d in enumerate(ds):
                blk = block(LIN, d.term, o, x)
                out.append((f"linearised-blocks-have-the-variable-sizes:{a}{b}", z3.Implies(has_block(LIN, d.term, o, x), z3.And(F2.dim(blk, 0) == vsz(o), F2.dim(blk, 1) == vsz(x)))))
        return out

    def ensures(self, c):
        ds, o, xs, LIN = self._parts(c)
        s0, s1 = c.old.self, c.new.self
        J, A1, P = jv(s1.jac), s1._c09_disc_jacs, jv(s0._c09_par_jac)
        A = A1.vals
        i, j = z3.Ints("i!b2 j!b2")
        x_, o_ = S("x!b2"), S("o!b2")
        out = [("summed-output-present", j_has(J, o))]
        some = {}
        for a, x in enumerate(xs):
            b = r_blk(j_row(J, o), x)
            some[a] = z3.Or(*[has_block(A, d.term, o, x) for d in ds])
            total = sum((z3.If(has_block(A, d.term, o, x), z3.Select(blk_els(block(A, d.term, o, x)), i, j), z3.RealVal(0)) for d in ds), z3.RealVal(0))
            out += [
                (f"block-present-iff-some-discipline-has-one:{a}", r_has(j_row(J, o), x) == some[a]),
                (f"block-shape:{a}", z3.Implies(some[a], z3.And(F2.dim(b, 0) == vsz(o), F2.dim(b, 1) == vsz(x)))),
                (f"block-is-the-sum-of-the-disciplines-blocks:{a}", z3.Implies(some[a], z3.ForAll([i, j], z3.Implies(z3.And(0 <= i, i < vsz(o), 0 <= j, j < vsz(x)), z3.Select(blk_els(b), i, j) == total)))),
            ]
        out += [
            ("summed-output-has-only-requested-inputs", z3.ForAll([x_], z3.Implies(r_has(j_row(J, o), x_), z3.Or(*[x_ == x for x in xs])))),
            ("other-outputs-keep-the-merged-entry", FA([o_], z3.Implies(o_ != o, z3.And(j_has(J, o_) == j_has(P, o_), j_row(J, o_) == j_row(P, o_))), j_row(J, o_))),
            ("frame:the-disciplines-jacobians-are-not-modified", z3.And(A1.vals == s0._c09_lin_jacs.vals, A1.member == s0._c09_lin_jacs.member, A1.n == s0._c09_lin_jacs.n)),
        ]
        return out


# ============================================================================ MDOChain.copy_jacs
from pyvc.values import TAddr, TVal, ValS  # noqa: E402

ARR = TAddr("arr", TVal)  # a Jacobian block: reference into the symbolic heap of arrays (identity matters here), as in c05_caches
JROW = TDict(TStr, ARR)
JADDR = TDict(TStr, JROW)


def a_rowmem(jt_vals, o):
    return JROW.acc(0)(jt_vals[o])


def a_rowvals(jt_vals, o):
    return JROW.acc(1)(jt_vals[o])


def _copied(J, R, member_R, h0, h, ctr0, ctr, tag):
    """R (restricted to the outputs selected by member_R) is a deep copy of J: same inputs per output, every block a FRESH array
    (allocated after entry) with the content of the source block."""
    o, x = S(f"o!{tag}"), S(f"x!{tag}")
    blk_r, blk_j = a_rowvals(R.vals, o)[x], a_rowvals(J.vals, o)[x]
    return [
        ("same-inputs", FA([o, x], z3.Implies(member_R(o), a_rowmem(R.vals, o)[x] == a_rowmem(J.vals, o)[x]), a_rowmem(R.vals, o)[x])),
        ("blocks-are-fresh-copies", FA([o, x], z3.Implies(z3.And(member_R(o), a_rowmem(J.vals, o)[x]), z3.And(h[blk_r] == h0[blk_j], blk_r > ctr0, blk_r <= ctr)), blk_r)),
    ]


def _heap_kept(h0, h, ctr0, ctr, tag):
    a = z3.Int(f"a!{tag}")
    return z3.And(ctr >= ctr0, FA([a], z3.Implies(a <= ctr0, h[a] == h0[a]), h[a]))


@register
class CopyJacs(Contract):
    """Deep copy: same outputs, same inputs per output, every block a fresh array with the same content; the argument and every
    existing array are untouched.  (Nested dictionaries of arrays; flat dictionaries / JacobianOperator blocks: not covered.)"""

    targets = (CHAIN + ".copy_jacs",)
    prop = ("C09",)
    params = {"jacobian": JADDR}
    returns = JADDR
    modifies = ("heap:arr",)
    c09_chains = True
    loops = {
        0: LoopSpec(anchor="jacobian.items()", inv=lambda c, k: _cj_inv0(c, k), modifies=("jacobian_copy", "heap:arr"), local_types={"jacobian_copy": JADDR}),
        1: LoopSpec(anchor="output_jacobian.items()", inv=lambda c, k: _cj_inv1(c, k), modifies=("jacobian_copy", "output_jacobian_copy", "heap:arr"),
                    local_types={"output_jacobian_copy": JROW}),
    }

    def requires(self, c):
        J = c.old.jacobian
        o, x = S("o!cjr"), S("x!cjr")
        return [("blocks-are-allocated", FA([o, x], z3.Implies(z3.And(J.member[o], a_rowmem(J.vals, o)[x]), a_rowvals(J.vals, o)[x] <= c.old_ctr), a_rowvals(J.vals, o)[x]))]

    def ensures(self, c):
        J, R = c.old.jacobian, c.result
        h0, h1 = c.old_sym("arr", ValS), c.new_sym("arr", ValS)
        o = S("o!cj")
        return [("same-outputs", FA([o], R.member[o] == J.member[o], R.member[o]))] + _copied(J, R, lambda t: J.member[t], h0, h1, c.old_ctr, c.new_ctr, "cj") + [
            ("existing-arrays-untouched", _heap_kept(h0, h1, c.old_ctr, c.new_ctr, "cj"))]


def _cj_inv0(c, k):
    J, R = c.old.jacobian, c.locals["jacobian_copy"]
    h0, h = c.old_sym("arr", ValS), c.new_sym("arr", ValS)
    o = S("o!c0")
    done = lambda t: z3.And(J.member[t], c.seq.pos[t] < k)  # noqa: E731
    return [("outputs-so-far", FA([o], R.member[o] == done(o), R.member[o]))] + _copied(J, R, done, h0, h, c.old_ctr, c.new_ctr, "c0") + [
        ("existing-arrays-untouched", _heap_kept(h0, h, c.old_ctr, c.new_ctr, "c0"))]


def _cj_inv1(c, k):
    R, R0 = c.locals["jacobian_copy"], c.pre_locals["jacobian_copy"]
    OJ, OC, o_ = c.locals["output_jacobian"], c.locals["output_jacobian_copy"], c.locals["output_name"]
    pre = R0._heap  # the state in which this loop was entered
    h0, h, hp = c.old_sym("arr", ValS), c.new_sym("arr", ValS), pre.sym.get("arr", c.old_sym("arr", ValS))
    x, o = S("x!c1"), S("o!c1")
    return [
        ("inputs-so-far", FA([x], OC.member[x] == z3.And(OJ.member[x], c.seq.pos[x] < k), OC.member[x])),
        ("blocks-so-far", FA([x], z3.Implies(OC.member[x], z3.And(h[OC.vals[x]] == h0[OJ.vals[x]], OC.vals[x] > c.old_ctr, OC.vals[x] <= c.new_ctr)), OC.vals[x])),
        ("the-copy-of-the-current-output-is-in-place", z3.And(R.member[o_], a_rowmem(R.vals, o_) == OC.member, a_rowvals(R.vals, o_) == OC.vals)),
        # (array-level, quantifier-free: the two dictionaries agree everywhere except on the value of the current output)
        ("same-outputs-as-at-loop-entry", R.member == R0.member),
        ("other-outputs-untouched", z3.Store(R.vals, o_, R0.vals[o_]) == R0.vals),
        ("existing-arrays-untouched", _heap_kept(h0, h, c.old_ctr, c.new_ctr, "c1")),
        ("arrays-of-the-previous-outputs-untouched", _heap_kept(hp, h, pre.ctr, c.new_ctr, "c1p")),
    ]
