"""C05 (continued) - BaseFullCache / MemoryFullCache as a refinement of a finite map.

Abstract view of a full cache: the entries ``1..max_index``; entry ``i`` has the input *content*
``cin[i]`` (ghost), optional outputs and an optional Jacobian.  ``hash_data`` is an uninterpreted
function of the input content (collisions allowed).  The storage back end is seen through the four
methods ``_initialize_entry/_has_group/_read_data/_write_data``: on ``BaseFullCache`` they are
specification-only contracts over a model field ``_store`` (index -> group -> data); every
override must satisfy the same contract over its own representation (``MemoryFullCache``: the
``__data`` dictionary) - behavioural subtyping, checked below for ``MemoryFullCache``.

Ghost state: ``fc_cin`` (index -> input content filed under that index), ``fc_slot`` (index -> its
position in its hash bucket); both are assigned by ghost code in ``__ensure_input_data_exists``.
"""
from __future__ import annotations

import z3

from pyvc import contract as C
from pyvc import plug_caches
from pyvc.contract import Contract, LoopSpec, register, schema
from pyvc.values import TBool, TDict, TInt, TList, TObj, TReal, TStr, ValS, declare_ghost, str_lit

from contracts.c05_caches import (ARR, CONTENT, DATA, ENTRY, P, allocated, cont, cont_t, contf, hashf, heap_preserved, kq,
                                  matches_c)

from pyvc.plug_c05more import TStoredDict  # noqa: E402
from pyvc.values import TStruct  # noqa: E402

# A dictionary handed out by a cache MAY BE the stored one (MemoryFullCache(is_memory_shared=False)._read_data returns the stored dict
# itself): results of the read contracts are typed DATA_S = DATA + "registered as a possible alias of the store"; writing into such a
# dictionary sets the ghost ``fc_entry_written`` (pyvc/plug_c05more.py), which no contract lists in its frame - so every verified
# function is proved not to write into a dictionary it got from the cache (unless it says so).
DATA_S = TStoredDict(DATA.k, DATA.v)
ENTRY_S = TStruct(ENTRY.cls, {"inputs": DATA, "outputs": DATA_S, "jacobian": DATA_S})
declare_ghost("fc_entry_written", z3.BoolSort())

CELL = "multiprocessing.sharedctypes.Synchronized"
schema(CELL, {"value": TInt})
GD = TDict(TStr, DATA)  # group -> data
STORE = TDict(TInt, GD)  # index -> groups
IDX = TList(TInt)  # an index array
BUCKETS = TDict(TInt, IDX)
BFC = P + "base_full_cache.BaseFullCache"
MFC = P + "memory_full_cache.MemoryFullCache"
schema(BFC, {
    "_hashes_to_indices": BUCKETS,
    "_max_index": TObj(CELL),
    "_last_accessed_index": TObj(CELL),
    "_store": STORE,  # model field: what the abstract storage methods read and write
}, bases=[P + "base_cache.BaseCache"])
schema(MFC, {"_MemoryFullCache__data": STORE, "_MemoryFullCache__is_memory_shared": TBool}, bases=[BFC])

SLOTS = z3.ArraySort(z3.IntSort(), z3.IntSort())
CINS = z3.ArraySort(z3.IntSort(), CONTENT)
declare_ghost("fc_slot", SLOTS)
declare_ghost("fc_cin", CINS)

G_IN, G_OUT, G_JAC = str_lit("inputs"), str_lit("outputs"), str_lit("jacobian")
# Jacobian data: nested <-> flat renaming of the keys, on contents (assumed inverse pair)
flatc = z3.Function("flatten_content", CONTENT, CONTENT)
nestc = z3.Function("nest_content", CONTENT, CONTENT)


def nest_axiom():
    x = z3.Const("x!nf", CONTENT)
    return z3.ForAll([x], nestc(flatc(x)) == x, patterns=[flatc(x)])


def sterm(x):
    return str_lit(x) if isinstance(x, str) else x


AXIOMS: list = []  # (axioms shared by all contracts would go here; contents are defined by a lambda, no axiom needed)


class FC:
    """Specification view of a full cache in the entry (``old``) or current/exit (``new``) state."""

    def __init__(self, c, which="old", field="_store"):
        s = getattr(c, which).self
        old = which == "old"
        self.c, self.s = c, s
        self.H = s._hashes_to_indices
        self.M = s._max_index.value
        self.L = s._last_accessed_index.value
        self.D = getattr(s, field)
        self.tol = s._tolerance
        self.heap = c.old_sym("arr", ValS) if old else c.new_sym("arr", ValS)
        self.ctr = c.old_ctr if old else c.new_ctr
        self.slot = (c.old_ghost if old else c.new_ghost)("fc_slot", SLOTS)
        self.cin = (c.old_ghost if old else c.new_ghost)("fc_cin", CINS)

    def inR(self, i):
        return z3.And(1 <= i, i <= self.M)

    def init(self, i):
        return self.D.has(i)

    def groups(self, i):
        return self.D.get(i)

    def has(self, i, g):
        return z3.And(self.D.has(i), GD.acc(0)(self.D.get(i))[g])

    def data(self, i, g):
        return GD.acc(1)(self.D.get(i))[g]

    def dmem(self, i, g):
        return DATA.acc(0)(self.data(i, g))

    def dvals(self, i, g):
        return DATA.acc(1)(self.data(i, g))

    def dn(self, i, g):
        return DATA.acc(2)(self.data(i, g))

    def content(self, i, g, heap=None):
        return cont_t(self.data(i, g), self.heap if heap is None else heap)

    def nonempty(self, i, g):
        """The entry has (non-empty) data for the group: what a reader sees as 'present'."""
        return z3.And(self.has(i, g), self.dn(i, g) != 0)

    def bucket_n(self, h):
        return IDX.dt.accessor(0, 0)(self.H.get(h))

    def bucket_el(self, h):
        return IDX.dt.accessor(0, 1)(self.H.get(h))

    def hk(self, i):
        return hashf(self.cin[i])


def ri(v, pend=None):
    """Representation invariant; ``pend``: an index that is filed but whose inputs are not written yet."""
    i, j, h, p = z3.Int("i!ri"), z3.Int("j!ri"), z3.Int("h!ri"), z3.Int("p!ri")
    g, k = z3.Const("g!ri", TStr.sort()), kq("k!ri")
    notp = (lambda x: x != pend) if pend is not None else (lambda x: z3.BoolVal(True))
    idx = v.bucket_el(h)[p]
    return [
        ("ri:range", z3.And(v.M >= 0, 0 <= v.L, v.L <= v.M, z3.Implies(v.M >= 1, v.L >= 1))),
        ("ri:initialized", z3.ForAll([i], z3.Implies(v.inR(i), v.init(i)))),
        ("ri:inputs-present", z3.ForAll([i], z3.Implies(z3.And(v.inR(i), notp(i)), v.has(i, G_IN)))),
        ("ri:view-coupling", z3.ForAll([i], z3.Implies(z3.And(v.inR(i), notp(i)), v.content(i, G_IN) == v.cin[i]))),
        ("ri:allocated", z3.ForAll([i, g, k], z3.Implies(z3.And(v.inR(i), v.has(i, g), v.dmem(i, g)[k]),
                                                         z3.And(v.dvals(i, g)[k] > 0, v.dvals(i, g)[k] <= v.ctr)))),
        # every index 1..max_index is filed in the bucket of its hash, at position slot[i] ...
        ("ri:filed", z3.ForAll([i], z3.Implies(v.inR(i), z3.And(v.H.has(v.hk(i)), 0 <= v.slot[i], v.slot[i] < v.bucket_n(v.hk(i)),
                                                                 v.bucket_el(v.hk(i))[v.slot[i]] == i)))),
        # ... and a bucket holds nothing else: exactly one occurrence of every index overall
        ("ri:buckets", z3.ForAll([h, p], z3.Implies(z3.And(v.H.has(h), 0 <= p, p < v.bucket_n(h)),
                                                    z3.And(v.inR(idx), v.hk(idx) == h, v.slot[idx] == p)))),
        ("ri:distinct-inputs", z3.ForAll([i, j], z3.Implies(z3.And(v.inR(i), v.inR(j), i != j), v.cin[i] != v.cin[j]))),
        # nothing is stored beyond max_index: what makes the no-op ``_initialize_entry`` of a file-based cache (HDF5Cache) correct
        ("ri:nothing-stored-beyond-max-index", z3.ForAll([i, g], z3.Implies(i > v.M, z3.Not(v.has(i, g))))),
    ]


def content_stable(c):
    """Lemma (consequence of heap preservation, by extensionality): a dict of arrays allocated at entry has the
    same content at exit.  Stated once per contract so that callers get it ready-made."""
    m = z3.Const("m!cs", z3.ArraySort(TStr.sort(), z3.BoolSort()))
    v = z3.Const("v!cs", z3.ArraySort(TStr.sort(), z3.IntSort()))
    k = kq("k!cs")
    h0, h1 = c.old_sym("arr", ValS), c.new_sym("arr", ValS)
    return z3.ForAll([m, v], z3.Implies(z3.ForAll([k], z3.Implies(m[k], z3.And(v[k] > 0, v[k] <= c.old_ctr))), contf(m, v, h1) == contf(m, v, h0)))


def preserved(c):
    return [("heap-preserved", heap_preserved(c)), ("content-stable", content_stable(c))]


def entries_kept(v0, v1, upto=None):
    """Entries 1..upto (default: old max_index) are stored exactly as before, ghosts included."""
    i = z3.Int("i!ek")
    rng = v0.inR(i) if upto is None else z3.And(1 <= i, i <= upto)
    return z3.ForAll([i], z3.Implies(rng, z3.And(v1.D.has(i) == v0.D.has(i), v1.D.get(i) == v0.D.get(i), v1.cin[i] == v0.cin[i], v1.slot[i] == v0.slot[i])))


def store_kept_except(v0, v1, idx):
    j = z3.Int("j!ske")
    return z3.ForAll([j], z3.Implies(j != idx, z3.And(v1.D.has(j) == v0.D.has(j), v1.D.get(j) == v0.D.get(j))))


def group_same(v0, v1, i, g):
    """Same presence, and when present same content and size (the arrays themselves may have been re-allocated)."""
    return z3.And(v1.has(i, g) == v0.has(i, g), z3.Implies(v0.has(i, g), z3.And(v1.content(i, g) == v0.content(i, g), v1.dn(i, g) == v0.dn(i, g))))


def no_alias(v0, v1):
    """Every array stored in the cache afterwards is freshly allocated or was already stored at that place:
    no array of the caller is referenced by the cache."""
    i, g, k = z3.Int("i!na"), z3.Const("g!na", TStr.sort()), kq("k!na")
    return z3.ForAll([i, g, k], z3.Implies(z3.And(v1.has(i, g), v1.dmem(i, g)[k]),
                                           z3.Or(v1.dvals(i, g)[k] > v0.ctr, z3.And(v0.has(i, g), v0.dmem(i, g)[k], v0.dvals(i, g)[k] == v1.dvals(i, g)[k]))))


def buckets_same(v0, v1):
    return z3.And(v1.H.member == v0.H.member, v1.H.vals == v0.H.vals, v1.H.n == v0.H.n)


def store_same(v0, v1):
    return z3.And(v1.D.member == v0.D.member, v1.D.vals == v0.D.vals, v1.D.n == v0.D.n)


def ghosts_same(v0, v1):
    return z3.And(v1.cin == v0.cin, v1.slot == v0.slot)


# =============================================================================== helpers (assumed)
@register
class HashData(Contract):
    targets = (P + "utils.hash_data",)
    prop = ("C05", "C13")
    params = {"data": DATA}
    returns = TInt
    trusted = True
    description = "assumed: hash_data is a deterministic function of the content of the data (names and array contents); nothing else (collisions allowed)"

    def ensures(self, c):
        return [("value", c.result == hashf(cont(c.old.data, c.old_sym("arr", ValS))))]


class _KeyRenaming(Contract):
    prop = ("C05", "C13")
    returns = DATA
    trusted = True
    fn = None
    arg = ""

    @property
    def params(self):
        return {self.arg: DATA}

    def ensures(self, c):
        h = c.old_sym("arr", ValS)
        a, r = getattr(c.old, self.arg), c.result
        return [("content", cont(r, h) == self.fn(cont(a, h))), ("allocated", z3.Implies(allocated(a, c.old_ctr), allocated(r, c.old_ctr))),
                ("empty-iff", (r.n == 0) == (a.n == 0))]


@register
class FlattenBilevel(_KeyRenaming):
    targets = ("gemseo.utils.data_conversion.flatten_nested_bilevel_dict",)
    description = ("assumed: Jacobian data are seen as a dict of arrays keyed by (output, input) pairs; flattening renames the keys "
                   "(injective separator encoding) and shares the arrays")
    fn = staticmethod(flatc)
    arg = "nested_dict"


@register
class NestBilevel(_KeyRenaming):
    targets = ("gemseo.utils.data_conversion.nest_flat_bilevel_dict",)
    description = "assumed: inverse key renaming of flatten_nested_bilevel_dict (rectangular Jacobian), sharing the arrays"
    fn = staticmethod(nestc)
    arg = "flat_dict"


# =============================================================================== storage back end
class _Storage(Contract):
    """Base of the four storage contracts; ``field`` = representation of the store."""

    prop = ("C05", "C13")
    field = "_store"
    abstract = True

    @property
    def trusted(self):
        return self.abstract

    @property
    def description(self):
        return "specification of an abstract storage method of BaseFullCache (every override must satisfy it; checked for MemoryFullCache)" if self.abstract else ""

    def v(self, c, which="old"):
        return FC(c, which, self.field)

    def others_kept(self, c, index):
        v0, v1 = self.v(c), self.v(c, "new")
        j = z3.Int("j!ok")
        return z3.ForAll([j], z3.Implies(j != index, z3.And(v1.D.has(j) == v0.D.has(j), v1.D.get(j) == v0.D.get(j))))


class _InitializeEntry(_Storage):
    params = {"index": TInt}

    @property
    def modifies(self):
        return ("self." + self.field, "heap:arr")

    def requires(self, c):
        # call site (__ensure_input_data_exists): the index is the new max_index, nothing is stored under it yet
        g = z3.Const("g!ie", TStr.sort())
        return AXIOMS + [("index-unused", z3.ForAll([g], z3.Not(self.v(c).has(c.old.index, g))))]

    def ensures(self, c):
        v1 = self.v(c, "new")
        g = z3.Const("g!ie", TStr.sort())
        idx = c.old.index
        return [("initialized", v1.init(idx)), ("empty", z3.ForAll([g], z3.Not(v1.has(idx, g)))), ("others-kept", self.others_kept(c, idx)),
                *preserved(c)]


class _HasGroup(_Storage):
    params = {"index": TInt, "group": TStr}
    returns = TBool

    def requires(self, c):
        # call site (_cache_inputs): the entry of a known input data, whose inputs are written
        return [("initialized", self.v(c).init(c.old.index)), ("inputs-present", self.v(c).has(c.old.index, G_IN))]

    def ensures(self, c):
        return [("value", c.result == self.v(c).has(c.old.index, sterm(c.old.group)))]


class _WriteData(_Storage):
    params = {"values": DATA, "group": TStr, "index": TInt}

    @property
    def modifies(self):
        return ("self." + self.field, "heap:arr")

    def requires(self, c):
        v0 = self.v(c)
        g, k, idx = z3.Const("g!wd", TStr.sort()), kq("k!wd"), c.old.index
        # call sites (_cache_inputs, cache_outputs, cache_jacobian): a group is written once, into an entry that does not have it yet
        # (the inputs of an entry - which its hash is computed from - are written first; indices start at 1)
        return AXIOMS + [("initialized", v0.init(idx)), ("group-absent", z3.Not(v0.has(idx, sterm(c.old.group)))),
                         ("inputs-first", z3.Or(sterm(c.old.group) == G_IN, v0.has(idx, G_IN))), ("index-positive", idx >= 1),
                         ("inputs-are-the-filed-content", z3.Implies(sterm(c.old.group) == G_IN, cont(c.old.values, v0.heap) == v0.cin[idx])),
                         ("values-allocated", allocated(c.old.values, c.old_ctr)),
                         ("entry-allocated", z3.ForAll([g, k], z3.Implies(z3.And(v0.has(idx, g), v0.dmem(idx, g)[k]), z3.And(v0.dvals(idx, g)[k] > 0, v0.dvals(idx, g)[k] <= v0.ctr))))]

    def ensures(self, c):
        v0, v1 = self.v(c), self.v(c, "new")
        idx, grp, vals = c.old.index, sterm(c.old.group), c.old.values
        g, k = z3.Const("g!wd", TStr.sort()), kq("k!wd")
        return [
            # the property's aliasing clause: the cache must not reference the arrays of the caller
            # (first, so that a counter-model is searched under the preconditions only)
            ("fresh:no-stored-array-is-the-callers", z3.ForAll([k], z3.Implies(v1.dmem(idx, grp)[k], z3.And(v1.dvals(idx, grp)[k] > v0.ctr, v1.dvals(idx, grp)[k] <= v1.ctr)))),
            ("written", z3.And(v1.init(idx), v1.has(idx, grp))),
            ("content", v1.content(idx, grp) == cont(vals, v0.heap)),
            ("size", v1.dn(idx, grp) == vals.n),
            ("other-groups-kept", z3.ForAll([g], z3.Implies(g != grp, group_same(v0, v1, idx, g)))),
            ("other-groups-no-alias", z3.ForAll([g, k], z3.Implies(z3.And(g != grp, v1.has(idx, g), v1.dmem(idx, g)[k]), z3.And(
                v1.dvals(idx, g)[k] > 0, v1.dvals(idx, g)[k] <= v1.ctr,
                z3.Or(v1.dvals(idx, g)[k] > v0.ctr, z3.And(v0.dmem(idx, g)[k], v0.dvals(idx, g)[k] == v1.dvals(idx, g)[k])))))),
            ("others-kept", self.others_kept(c, idx)),
            *preserved(c),
        ]


class _ReadData(_Storage):
    params = {"index": TInt, "group": TStr}
    returns = DATA_S
    modifies = ("heap:arr",)

    def requires(self, c):
        v0 = self.v(c)
        idx, k, g = c.old.index, kq("k!rd"), sterm(c.old.group)
        # call sites: entries 1..max_index whose inputs are written (ri:inputs-present)
        return AXIOMS + [("initialized", v0.init(idx)), ("inputs-present", v0.has(idx, G_IN)),
                         ("entry-allocated", z3.ForAll([k], z3.Implies(z3.And(v0.has(idx, g), v0.dmem(idx, g)[k]), z3.And(v0.dvals(idx, g)[k] > 0, v0.dvals(idx, g)[k] <= v0.ctr))))]

    def ensures(self, c):
        v0 = self.v(c)
        idx, grp, r = c.old.index, sterm(c.old.group), c.result
        h1 = c.new_sym("arr", ValS)
        present = v0.nonempty(idx, grp)
        stored = v0.content(idx, grp)
        return [
            ("content", z3.Implies(v0.has(idx, grp), z3.If(grp == G_JAC, z3.Implies(present, cont(r, h1) == nestc(stored)), cont(r, h1) == stored))),
            ("empty-iff-absent", (r.n == 0) == z3.Not(present)),
            ("result-allocated", allocated(r, c.new_ctr)),
            *preserved(c),
        ]


@register
class BfcInitializeEntry(_InitializeEntry):
    targets = (BFC + "._initialize_entry",)


@register
class BfcHasGroup(_HasGroup):
    targets = (BFC + "._has_group",)


@register
class BfcWriteData(_WriteData):
    targets = (BFC + "._write_data",)


@register
class BfcReadData(_ReadData):
    targets = (BFC + "._read_data",)


# =============================================================================== BaseFullCache
CELLS = ("self._max_index", "self._last_accessed_index")


class _Bfc(Contract):
    prop = ("C05", "C13")
    field = "_store"

    def v(self, c, which="old"):
        return FC(c, which, self.field)


def _ghost_insert(c):
    """Ghost code run when a new index is filed (right before ``_initialize_entry``): record the input
    content it stands for and its position in its bucket."""
    v = FC(c, "new")
    h = c.locals["data_hash"]
    return {"fc_slot": z3.Store(v.slot, v.M, v.bucket_n(h) - 1), "fc_cin": z3.Store(v.cin, v.M, cont(c.old.input_data, c.old_sym("arr", ValS)))}


def _ensure_inv(c, k):
    v0, vn = FC(c), FC(c, "new")
    ci = cont(c.old.input_data, v0.heap)
    p = z3.Int("p!ei")
    el = c.locals["indices"].elems
    i = z3.Int("i!ei")
    return [("heap", heap_preserved(c)),
            # lemmas: allocation does not change the content of what was allocated before
            ("input-content-stable", cont(c.old.input_data, vn.heap) == ci),
            ("view-coupling-now", z3.ForAll([i], z3.Implies(v0.inR(i), vn.content(i, G_IN) == v0.cin[i]))),
            ("no-hit-so-far", z3.ForAll([p], z3.Implies(z3.And(0 <= p, p < k), v0.cin[el[p]] != ci)))]


@register
class EnsureInputDataExists(_Bfc):
    targets = (BFC + ".__ensure_input_data_exists",)
    params = {"input_data": DATA}
    returns = TBool
    modifies = ("self._hashes_to_indices", *CELLS, "self._store", "heap:arr", "ghost:fc_slot", "ghost:fc_cin")
    loops = {0: LoopSpec(anchor="indices", modifies=("heap:arr",), inv=_ensure_inv)}
    ghost_code = {"self._initialize_entry(self._max_index.value)": _ghost_insert}

    def requires(self, c):
        return AXIOMS + ri(self.v(c)) + [("input-allocated", allocated(c.old.input_data, c.old_ctr))]

    def ensures(self, c):
        v0, v1 = self.v(c), self.v(c, "new")
        ci = cont(c.old.input_data, v0.heap)
        i, g = z3.Int("i!en"), z3.Const("g!en", TStr.sort())
        new = c.result
        known = z3.Not(c.result)
        out = [
            ("known:found", z3.Implies(known, z3.And(v1.M == v0.M, v0.inR(v1.L), v0.cin[v1.L] == ci))),
            ("known:nothing-changes", z3.Implies(known, z3.And(buckets_same(v0, v1), store_same(v0, v1), ghosts_same(v0, v1)))),
            ("new:index", z3.Implies(new, z3.And(v1.M == v0.M + 1, v1.L == v0.M + 1))),
            ("new:was-absent", z3.Implies(new, z3.ForAll([i], z3.Implies(v0.inR(i), v0.cin[i] != ci)))),
            ("new:filed-content", z3.Implies(new, v1.cin[v0.M + 1] == ci)),
            ("new:entry-is-empty", z3.Implies(new, z3.ForAll([g], z3.Not(v1.has(v0.M + 1, g))))),
            ("entries-kept", entries_kept(v0, v1)),
            ("store-kept-except-new-index", store_kept_except(v0, v1, v0.M + 1)),
            *preserved(c),
        ]
        out += [(f"known:{l}", z3.Implies(known, f)) for l, f in ri(v1)]
        out += [(f"new:{l}", z3.Implies(new, f)) for l, f in ri(v1, pend=v0.M + 1)]
        return out


@register
class CacheInputs(_Bfc):
    targets = (BFC + "._cache_inputs",)
    params = {"input_data": DATA, "group": TStr}
    returns = TBool
    modifies = EnsureInputDataExists.modifies

    def requires(self, c):
        return AXIOMS + ri(self.v(c)) + [("input-allocated", allocated(c.old.input_data, c.old_ctr))]

    def ensures(self, c):
        v0, v1 = self.v(c), self.v(c, "new")
        ci = cont(c.old.input_data, v0.heap)
        grp = sterm(c.old.group)
        i, g = z3.Int("i!ci"), z3.Const("g!ci", TStr.sort())
        new = v1.M != v0.M
        return [
            ("size", z3.Or(v1.M == v0.M, v1.M == v0.M + 1)),
            ("located", z3.And(v1.inR(v1.L), v1.cin[v1.L] == ci)),
            ("known:index", z3.Implies(z3.Not(new), v0.inR(v1.L))),
            ("known:nothing-changes", z3.Implies(z3.Not(new), z3.And(buckets_same(v0, v1), store_same(v0, v1), ghosts_same(v0, v1)))),
            ("known:value", z3.Implies(z3.Not(new), c.result == v0.has(v1.L, grp))),
            ("new:index", z3.Implies(new, z3.And(v1.M == v0.M + 1, v1.L == v0.M + 1, z3.Not(c.result)))),
            ("new:was-absent", z3.Implies(new, z3.ForAll([i], z3.Implies(v0.inR(i), v0.cin[i] != ci)))),
            ("new:only-inputs", z3.Implies(new, z3.ForAll([g], v1.has(v0.M + 1, g) == (g == G_IN)))),
            ("entries-kept", entries_kept(v0, v1)),
            ("store-kept-except-new-index", store_kept_except(v0, v1, v0.M + 1)),
            ("no-alias", no_alias(v0, v1)),
            *preserved(c),
        ] + ri(v1)


class _CacheGroup(_Bfc):
    """cache_outputs / cache_jacobian: view' = view[input |-> (group data filled if it had none)]."""

    modifies = EnsureInputDataExists.modifies
    group = G_OUT
    data_param = "output_data"

    @property
    def params(self):
        return {"input_data": DATA, self.data_param: DATA}

    def stored_content(self, c, content):
        return content

    def same_size(self, stored_n, given_n):
        return stored_n == given_n

    def requires(self, c):
        return AXIOMS + ri(self.v(c)) + [("args-allocated", z3.And(allocated(c.old.input_data, c.old_ctr), allocated(getattr(c.old, self.data_param), c.old_ctr)))]

    def ensures(self, c):
        v0, v1 = self.v(c), self.v(c, "new")
        ci = cont(c.old.input_data, v0.heap)
        given = getattr(c.old, self.data_param)
        cg = self.stored_content(c, cont(given, v0.heap))
        grp = self.group
        i, g = z3.Int("i!cg"), z3.Const("g!cg", TStr.sort())
        new = v1.M != v0.M
        hit = lambda x: v0.cin[x] == ci  # noqa: E731
        return [
            ("size", z3.Or(v1.M == v0.M, v1.M == v0.M + 1)),
            ("located", z3.And(v1.inR(v1.L), v1.cin[v1.L] == ci)),
            ("known:index", z3.Implies(z3.Not(new), v0.inR(v1.L))),
            ("new:index", z3.Implies(new, v1.L == v0.M + 1)),
            ("new:was-absent", z3.Implies(new, z3.ForAll([i], z3.Implies(v0.inR(i), v0.cin[i] != ci)))),
            ("new:entry", z3.Implies(new, z3.And(z3.ForAll([g], v1.has(v0.M + 1, g) == z3.Or(g == G_IN, g == grp)), v1.content(v0.M + 1, grp) == cg,
                                                 self.same_size(v1.dn(v0.M + 1, grp), given.n)))),
            # every entry that was there: same inputs, same other groups, same ghosts; this group is kept if it had it,
            # filled with the given data if it is the entry of input_data, still missing otherwise
            ("old:ghosts-kept", z3.ForAll([i], z3.Implies(v0.inR(i), z3.And(v1.cin[i] == v0.cin[i], v1.slot[i] == v0.slot[i])))),
            ("old:other-groups-kept", z3.ForAll([i, g], z3.Implies(z3.And(v0.inR(i), g != grp), group_same(v0, v1, i, g)))),
            ("old:group-kept", z3.ForAll([i], z3.Implies(z3.And(v0.inR(i), v0.has(i, grp)), group_same(v0, v1, i, grp)))),
            ("old:group-filled", z3.ForAll([i], z3.Implies(z3.And(v0.inR(i), z3.Not(v0.has(i, grp)), hit(i)),
                                                           z3.And(v1.has(i, grp), v1.content(i, grp) == cg, self.same_size(v1.dn(i, grp), given.n))))),
            ("old:group-still-missing", z3.ForAll([i], z3.Implies(z3.And(v0.inR(i), z3.Not(v0.has(i, grp)), z3.Not(hit(i))), z3.Not(v1.has(i, grp))))),
            ("tolerance-kept", v1.tol == v0.tol),
            ("no-alias", no_alias(v0, v1)),
            *preserved(c),
        ] + ri(v1)


@register
class BfcCacheOutputs(_CacheGroup):
    targets = (BFC + ".cache_outputs",)


@register
class BfcCacheJacobian(_CacheGroup):
    targets = (BFC + ".cache_jacobian",)
    group = G_JAC
    data_param = "jacobian_data"

    def stored_content(self, c, content):
        return flatc(content)

    def same_size(self, stored_n, given_n):
        return (stored_n == 0) == (given_n == 0)  # emptiness is what readers test


@register
class BfcLen(_Bfc):
    targets = (BFC + ".__len__",)
    returns = TInt

    def ensures(self, c):
        return [("value", c.result == self.v(c).M)]


@register
class BfcClear(_Bfc):
    """The base part of clear: no entry is left (the storage itself is cleared by the override)."""

    targets = (BFC + ".clear",)
    modifies = ("self", *CELLS)

    def ensures(self, c):
        v0, v1 = self.v(c), self.v(c, "new")
        h = z3.Int("h!cl")
        return [("no-entry", z3.And(v1.M == 0, v1.L == 0)), ("no-bucket", z3.And(v1.H.n == 0, z3.ForAll([h], z3.Not(v1.H.has(h))))),
                ("tolerance-kept", v1.tol == v0.tol), ("store-untouched", store_same(v0, v1))]


# ------------------------------------------------------------------------------- lookups
def entry_is(v0, r, e, h1):
    """The outputs / Jacobian of the cache entry ``r`` are those of the stored entry ``e`` (absent = empty)."""
    return z3.And(
        z3.Implies(v0.nonempty(e, G_OUT), cont(r.outputs, h1) == v0.content(e, G_OUT)),
        (r.outputs.n == 0) == z3.Not(v0.nonempty(e, G_OUT)),
        z3.Implies(v0.nonempty(e, G_JAC), cont(r.jacobian, h1) == nestc(v0.content(e, G_JAC))),
        (r.jacobian.n == 0) == z3.Not(v0.nonempty(e, G_JAC)))


def is_empty(r):
    return z3.And(r.outputs.n == 0, r.jacobian.n == 0)


def _scan_inv(hit):
    """Invariant of a scan ``for index in indices`` that returns at the first hit."""

    def inv(c, k):
        v0, vn = FC(c), FC(c, "new")
        ci = cont(c.old.input_data, v0.heap)
        p, i = z3.Int("p!si"), z3.Int("i!si")
        el = c.locals["indices"].elems
        return [("heap", heap_preserved(c)), ("content-stable", content_stable(c)),
                ("input-content-stable", cont(c.old.input_data, vn.heap) == ci),
                ("view-coupling-now", z3.ForAll([i], z3.Implies(v0.inR(i), vn.content(i, G_IN) == v0.cin[i]))),
                ("no-hit-so-far", z3.ForAll([p], z3.Implies(z3.And(0 <= p, p < k), z3.Not(hit(v0, ci, v0.cin[el[p]])))))]

    return inv


@register
class ReadInputOutputData(_Bfc):
    targets = (BFC + "._read_input_output_data",)
    params = {"indices": IDX, "input_data": DATA}
    returns = ENTRY_S
    modifies = ("heap:arr",)
    loops = {0: LoopSpec(anchor="indices", modifies=("heap:arr",), inv=_scan_inv(lambda v0, ci, cs: ci == cs))}

    def requires(self, c):
        v0 = self.v(c)
        p = z3.Int("p!rio")
        ix = c.old.indices
        return AXIOMS + ri(v0) + [("input-allocated", allocated(c.old.input_data, c.old_ctr)),
                                  ("indices-are-entries", z3.ForAll([p], z3.Implies(z3.And(0 <= p, p < ix.n), v0.inR(ix.elems[p]))))]

    def ensures(self, c):
        v0 = self.v(c)
        ci = cont(c.old.input_data, v0.heap)
        h1 = c.new_sym("arr", ValS)
        r, ix = c.result, c.old.indices
        p = z3.Int("p!rio")
        inl = z3.And(0 <= p, p < ix.n)
        return [
            ("inputs", cont(r.inputs, h1) == ci),
            ("hit:entry", z3.ForAll([p], z3.Implies(z3.And(inl, v0.cin[ix.elems[p]] == ci), entry_is(v0, r, ix.elems[p], h1)))),
            ("miss:empty", z3.Implies(z3.ForAll([p], z3.Implies(inl, v0.cin[ix.elems[p]] != ci)), is_empty(r))),
            ("result-allocated", z3.And(allocated(r.outputs, c.new_ctr), allocated(r.jacobian, c.new_ctr))),
            *preserved(c),
        ]


def _buckets_inv(c, k):
    """After k buckets: no entry filed in them is within the tolerance."""
    v0 = FC(c)
    ci = cont(c.old.input_data, v0.heap)
    h, p = z3.Int("h!bi"), z3.Int("p!bi")
    pos = c.seq.pos
    # keyed on the hash (not on the position in the iteration order): the trigger is the bucket element, the term pos[h]
    # then instantiates the order view of the dictionary
    return [("heap", heap_preserved(c)), ("content-stable", content_stable(c)),
            ("no-hit-in-completed-buckets", z3.ForAll([h, p], z3.Implies(z3.And(v0.H.has(h), pos[h] < k, 0 <= p, p < v0.bucket_n(h)),
                                                                     z3.Not(wtol_hit(v0, ci, v0.cin[v0.bucket_el(h)[p]]))),
                                                      patterns=[v0.bucket_el(h)[p]]))]


def wtol_hit(v0, ci, cs):
    from contracts.c05_caches import wtol

    return wtol(ci, cs, v0.tol)


@register
class BfcGetitem(_Bfc):
    targets = (BFC + ".__getitem__",)
    params = {"input_data": DATA}
    returns = ENTRY_S
    modifies = ("heap:arr",)
    loops = {0: LoopSpec(anchor="self._hashes_to_indices.values()", modifies=("heap:arr",), inv=_buckets_inv, local_types={"indices": IDX}),
             1: LoopSpec(anchor="indices", modifies=("heap:arr",), inv=_scan_inv(wtol_hit))}

    def requires(self, c):
        return AXIOMS + ri(self.v(c)) + [("input-allocated", allocated(c.old.input_data, c.old_ctr))]

    def ensures(self, c):
        v0 = self.v(c)
        ci = cont(c.old.input_data, v0.heap)
        h1 = c.new_sym("arr", ValS)
        r = c.result
        i = z3.Int("i!gi")
        exact, tol = v0.tol == 0, v0.tol
        within = lambda x: wtol_hit(v0, ci, v0.cin[x])  # noqa: E731
        return [
            ("inputs", cont(r.inputs, h1) == ci),
            ("exact:hit", z3.Implies(exact, z3.ForAll([i], z3.Implies(z3.And(v0.inR(i), v0.cin[i] == ci), entry_is(v0, r, i, h1))))),
            ("exact:miss", z3.Implies(z3.And(exact, z3.ForAll([i], z3.Implies(v0.inR(i), v0.cin[i] != ci))), is_empty(r))),
            # with a tolerance: the entry of *some* stored input within the tolerance, nothing if there is none
            ("tolerance:some-entry-within-or-none", z3.Implies(z3.Not(exact), z3.Or(
                z3.Exists([i], z3.And(v0.inR(i), within(i), entry_is(v0, r, i, h1))),
                z3.And(is_empty(r), z3.ForAll([i], z3.Implies(v0.inR(i), z3.Not(within(i)))))))),
            ("result-allocated", z3.And(allocated(r.outputs, c.new_ctr), allocated(r.jacobian, c.new_ctr))),
            *preserved(c),
        ]


@register
class BfcLastEntry(_Bfc):
    targets = (BFC + ".last_entry",)
    returns = ENTRY_S
    modifies = ("heap:arr",)

    def requires(self, c):
        return AXIOMS + ri(self.v(c))

    def ensures(self, c):
        v0 = self.v(c)
        h1 = c.new_sym("arr", ValS)
        r = c.result
        return [
            ("empty-cache", z3.Implies(v0.M == 0, z3.And(r.inputs.n == 0, is_empty(r)))),
            ("last-accessed-entry", z3.Implies(v0.M != 0, z3.And(cont(r.inputs, h1) == v0.cin[v0.L], entry_is(v0, r, v0.L, h1)))),
            *preserved(c),
        ]


# =============================================================================== MemoryFullCache
# behavioural subtyping: each override is verified against the contract of the method it overrides,
# the model field being represented by the private dictionary ``__data``.
MEM_FIELD = "_MemoryFullCache__data"


def _pickled_copy(ex, term, ty):
    """Deep copy of a ``group -> data`` value (what a manager DictProxy stores): same names, fresh arrays with
    the same contents."""
    st = ex.st
    h0 = st.symheap("arr", ValS)
    ctr0 = st.heap.ctr
    h1 = st.fresh_const("heap_arr", h0.sort())
    ctr1 = st.fresh_int("addr_ctr")
    vals1 = st.fresh_const("pickled", GD.acc(1)(term).sort())
    g, k, a = z3.Const("g!pk", TStr.sort()), kq("k!pk"), z3.Int("a!pk")
    mem, vals = GD.acc(0)(term), GD.acc(1)(term)
    st.assume(ctr1 >= ctr0)
    st.assume(z3.ForAll([a], z3.Implies(a <= ctr0, h1[a] == h0[a])))
    st.assume(z3.ForAll([g], z3.And(DATA.acc(0)(vals1[g]) == DATA.acc(0)(vals[g]), DATA.acc(2)(vals1[g]) == DATA.acc(2)(vals[g])), patterns=[vals1[g]]))
    st.assume(z3.ForAll([g, k], z3.Implies(z3.And(mem[g], DATA.acc(0)(vals[g])[k]),
                                           z3.And(DATA.acc(1)(vals1[g])[k] > ctr0, DATA.acc(1)(vals1[g])[k] <= ctr1,
                                                  h1[DATA.acc(1)(vals1[g])[k]] == h0[DATA.acc(1)(vals[g])[k]])),
                        patterns=[DATA.acc(1)(vals1[g])[k]]))
    st.heap.sym["arr"] = h1
    st.heap.ctr = ctr1
    return GD.dt.mk(mem, vals1, GD.acc(2)(term))


plug_caches.PROXY_FIELDS[(MFC, MEM_FIELD)] = ("_MemoryFullCache__is_memory_shared", _pickled_copy)


@register
class MfcInitializeEntry(_InitializeEntry):
    targets = (MFC + "._initialize_entry",)
    field, abstract = MEM_FIELD, False


@register
class MfcHasGroup(_HasGroup):
    targets = (MFC + "._has_group",)
    field, abstract = MEM_FIELD, False


@register
class MfcWriteData(_WriteData):
    targets = (MFC + "._write_data",)
    field, abstract = MEM_FIELD, False

    def finding_regions(self, c):
        # for a known_findings.json entry: the freshness clause fails exactly for the non-shared (plain dict) storage
        return {"not-shared": z3.Not(c.old.self._MemoryFullCache__is_memory_shared)}


@register
class MfcReadData(_ReadData):
    targets = (MFC + "._read_data",)
    field, abstract = MEM_FIELD, False


@register
class MfcClear(_Bfc):
    targets = (MFC + ".clear",)
    field = MEM_FIELD
    modifies = ("self", *CELLS)

    def ensures(self, c):
        v0, v1 = self.v(c), self.v(c, "new")
        h, i = z3.Int("h!mc"), z3.Int("i!mc")
        return [("no-entry", z3.And(v1.M == 0, v1.L == 0)), ("no-bucket", z3.And(v1.H.n == 0, z3.ForAll([h], z3.Not(v1.H.has(h))))),
                ("tolerance-kept", v1.tol == v0.tol), ("store-empty", z3.And(v1.D.n == 0, z3.ForAll([i], z3.Not(v1.D.has(i)))))] + ri(v1)
