"""Run-time contract for C11 (bounded stand-in + replay of failed obligations on the real code).

A short sequence of operations is run on a REAL gemseo ``Database`` and REAL h5py files in a temporary
directory (created with ``tempfile``, removed afterwards):

  ("store", p, o)   database.store(POINTS[p], OUTS[o])            (new point, or new names at an existing point)
  ("export", a)     database.to_hdf(file, append=bool(a))         (always the same file and node)

After every export the file is reloaded with ``Database.from_hdf`` and compared with the in-memory database:
same points in the same order, same output names per point, equal values (arrays: same shape and content; scalars:
equal floats).  In addition, at the end, a single non-append export of the final database to a second file must reload
to the same content as the incrementally appended file ("incremental append == single final export").

History preconditions of the property are respected by construction: the database only grows (no deletion, no
overwrite of a name already stored at a point - an output block whose names intersect the names already stored at the
point is skipped), and all exports go to one file/node.

Deterministic enumeration; witness = (node path, sequence of operation ids).
Bound (reported in the evidence as ``bounded_standins``): all sequences of length <= 4 over 3 points x 5 output
blocks + {export, export-append}, root node and a nested node: see ``sequences``.
"""
from __future__ import annotations

import itertools
import os
import shutil
import tempfile
import time
from pathlib import Path

import numpy as np

POINTS = [np.array([1.0, 2.0]), np.array([0.5, -1.0]), np.array([3.0, 3.0])]
# output blocks: scalars, arrays (rank 1 and 2), names that sort before/after the already exported ones
OUTS = [
    {"f": 1.5},
    {"g": np.array([1.0, -2.0]), "a": 0.25},
    {"@f": np.array([[1.0, 2.0]]), "z": 7.0, "b": np.array([4.0])},
    {"c": -3.0, "y": np.array([0.0])},
    {},  # a point stored without any output (still a point of the history: it must be exported at its index)
]
OPS = [("store", p, o) for p in range(len(POINTS)) for o in range(len(OUTS))] + [("export", 0, 0), ("export", 1, 0)]
NODES = ["", "node/sub"]


def sequences(max_len=4):
    n_store = len(POINTS) * len(OUTS)
    for n in range(1, max_len + 1):
        for seq in itertools.product(range(len(OPS)), repeat=n):
            # at least one export, and (to bound the enumeration) the stores use at most two distinct points
            if not any(i >= n_store for i in seq):
                continue
            if len({OPS[i][1] for i in seq if i < n_store}) > 2:
                continue
            yield seq


def _same_value(a, b):
    a_arr, b_arr = isinstance(a, (np.ndarray, list)), isinstance(b, (np.ndarray, list))
    if a_arr != b_arr and not (np.ndim(a) == 0 and np.ndim(b) == 0):
        return False
    a, b = np.asarray(a), np.asarray(b)
    return a.shape == b.shape and bool(np.array_equal(a, b))


def compare(db, loaded):
    """None if ``loaded`` equals ``db`` (points in order, names, values), else a description of the first difference."""
    k0 = [k.wrapped_array for k in db.keys()]
    k1 = [k.wrapped_array for k in loaded.keys()]
    if len(k0) != len(k1):
        return {"what": "number of points", "expected": len(k0), "got": len(k1)}
    for i, (a, b) in enumerate(zip(k0, k1)):
        if a.shape != b.shape or not np.array_equal(a, b):
            return {"what": f"point #{i}", "expected": repr(a), "got": repr(b)}
        o0, o1 = db[a], loaded[b]
        if set(o0) != set(o1):
            return {"what": f"output names of point #{i}", "expected": sorted(o0), "got": sorted(o1)}
        for nm in o0:
            if not _same_value(o0[nm], o1[nm]):
                return {"what": f"value of {nm!r} at point #{i}", "expected": repr(o0[nm]), "got": repr(o1[nm])}
    return None


def run(node, seq, tmp=None):
    from gemseo.algos.database import Database

    own = tmp is None
    tmp = Path(tempfile.mkdtemp(prefix="rt_c11.")) if own else Path(tmp)
    try:
        f_inc, f_one = tmp / "incremental.h5", tmp / "single.h5"
        for f in (f_inc, f_one):
            if f.exists():
                f.unlink()
        db = Database()
        exported = False
        for step, opi in enumerate(seq):
            op, a, b = OPS[opi]
            if op == "store":
                x, outs = POINTS[a], OUTS[b]
                cur = db.get(x)
                if cur is not None and set(cur) & set(outs):
                    continue  # would overwrite an already stored name: excluded by the history precondition
                db.store(x.copy(), {k: (v.copy() if isinstance(v, np.ndarray) else v) for k, v in outs.items()})
            else:
                db.to_hdf(f_inc, append=bool(a), hdf_node_path=node)
                exported = True
                diff = compare(db, Database.from_hdf(f_inc, hdf_node_path=node, log=False))
                if diff is not None:
                    return {"step": step, "check": "reload == in-memory database", **diff}
        if exported:
            # pending points/names stored after the last export are flushed by one more append
            db.to_hdf(f_inc, append=True, hdf_node_path=node)
            db.to_hdf(f_one, append=False, hdf_node_path=node)
            d_inc = Database.from_hdf(f_inc, hdf_node_path=node, log=False)
            d_one = Database.from_hdf(f_one, hdf_node_path=node, log=False)
            diff = compare(db, d_inc) or compare(d_one, d_inc)
            if diff is not None:
                return {"step": len(seq), "check": "incremental append == single final export", **diff}
        return None
    finally:
        if own:
            shutil.rmtree(tmp, ignore_errors=True)


def bounded_check(max_len=4, verbose=False):
    """The bounded stand-in: returns (number of scenarios, list of failures)."""
    tmp = Path(tempfile.mkdtemp(prefix="rt_c11."))
    n, fails = 0, []
    try:
        for node in NODES:
            for seq in sequences(max_len if node == "" else min(max_len, 3)):
                n += 1
                try:
                    r = run(node, seq, tmp)
                except Exception as e:  # noqa: BLE001
                    r = {"exception": repr(e)}
                if r is not None:
                    fails.append({"node": node, "sequence": [list(OPS[i]) for i in seq], "sequence_ids": list(seq), "failure": r})
                    if verbose:
                        print(fails[-1])
    finally:
        shutil.rmtree(tmp, ignore_errors=True)
    return n, fails


# ---------------------------------------------------------------------------- design-space files (text and HDF5)
# A design space is built from an ordered selection of 1..3 distinct variables of DS_VARS (mixed types, infinite bounds,
# missing current values, multi-character names, sizes 1..3), written with to_csv / to_hdf / to_file on REAL files in a
# temporary directory and read back with from_csv / from_hdf / from_file: same names in the same order, sizes, types,
# bounds, current values (None stays None), and ``reloaded == original``.
DS_VARS = [
    ("x", 1, "float", 0.0, 1.0, 0.5),
    ("alpha", 2, "float", -1.0, 2.0, [0.25, 1.5]),
    ("n_items", 1, "integer", 0, 9, 3),
    ("beta", 2, "float", -np.inf, np.inf, None),
    ("gamma", 1, "float", 0.0, np.inf, None),
    ("kk", 3, "integer", [-2, 0, 1], [5, 7, 9], [1, 2, 3]),
]
DS_FORMATS = ["csv", "file.csv", "hdf", "hdf:node/sub", "file.h5"]


def ds_scenarios(max_vars=3):
    for n in range(1, max_vars + 1):
        yield from itertools.permutations(range(len(DS_VARS)), n)


def _build_ds(ids):
    from gemseo.algos.design_space import DesignSpace

    ds = DesignSpace()
    for i in ids:
        name, size, typ, lb, ub, val = DS_VARS[i]
        ds.add_variable(name, size=size, type_=typ, lower_bound=np.asarray(lb) if isinstance(lb, list) else lb,
                        upper_bound=np.asarray(ub) if isinstance(ub, list) else ub, value=None if val is None else np.asarray(val))
    return ds


def compare_ds(ds, loaded):
    if loaded.variable_names != ds.variable_names:
        return {"what": "variable names / order", "expected": ds.variable_names, "got": loaded.variable_names}
    for name in ds.variable_names:
        if loaded.get_size(name) != ds.get_size(name):
            return {"what": f"size of {name!r}", "expected": ds.get_size(name), "got": loaded.get_size(name)}
        if str(loaded.get_type(name)) != str(ds.get_type(name)):
            return {"what": f"type of {name!r}", "expected": str(ds.get_type(name)), "got": str(loaded.get_type(name))}
        for what, get in (("lower bound", "get_lower_bound"), ("upper bound", "get_upper_bound")):
            a, b = getattr(ds, get)(name), getattr(loaded, get)(name)
            if not np.array_equal(np.asarray(a, dtype=float), np.asarray(b, dtype=float)):
                return {"what": f"{what} of {name!r}", "expected": repr(a), "got": repr(b)}
        a, b = ds._current_value.get(name), loaded._current_value.get(name)
        if (a is None) != (b is None) or (a is not None and not np.array_equal(a, b)):
            return {"what": f"current value of {name!r}", "expected": repr(a), "got": repr(b)}
    if not (loaded == ds):
        return {"what": "reloaded == original", "expected": True, "got": False}
    return None


def run_ds(fmt, ids, tmp=None):
    from gemseo.algos.design_space import DesignSpace

    own = tmp is None
    tmp = Path(tempfile.mkdtemp(prefix="rt_c11.")) if own else Path(tmp)
    try:
        ds = _build_ds(ids)
        kind, _, node = fmt.partition(":")
        path = tmp / {"csv": "ds.csv", "file.csv": "ds_file.csv", "hdf": "ds.h5", "file.h5": "ds_file.h5"}[kind]
        if path.exists():
            path.unlink()
        if kind == "csv":
            ds.to_csv(path)
            loaded = DesignSpace.from_csv(path)
        elif kind == "hdf":
            ds.to_hdf(path, hdf_node_path=node)
            loaded = DesignSpace.from_hdf(path, hdf_node_path=node)
        else:
            ds.to_file(path)
            loaded = DesignSpace.from_file(path)
        return compare_ds(ds, loaded)
    finally:
        if own:
            shutil.rmtree(tmp, ignore_errors=True)


def bounded_check_ds(max_vars=3, verbose=False):
    tmp = Path(tempfile.mkdtemp(prefix="rt_c11."))
    n, fails = 0, []
    try:
        for fmt in DS_FORMATS:
            for ids in ds_scenarios(max_vars):
                n += 1
                try:
                    r = run_ds(fmt, ids, tmp)
                except Exception as e:  # noqa: BLE001
                    r = {"exception": repr(e)}
                if r is not None:
                    fails.append({"format": fmt, "variables": [DS_VARS[i][0] for i in ids], "variable_ids": list(ids), "failure": r})
                    if verbose:
                        print(fails[-1])
    finally:
        shutil.rmtree(tmp, ignore_errors=True)
    return n, fails


def _is_ds_function(func: str) -> bool:
    return "design_space" in func


def replay_ds(ob):
    f = ob.func
    if "csv" in f or "pretty_table" in f:
        fmts = ["csv", "file.csv"]
    elif "hdf" in f:
        fmts = ["hdf", "hdf:node/sub", "file.h5"]
    else:
        fmts = DS_FORMATS
    tmp = Path(tempfile.mkdtemp(prefix="rt_c11."))
    deadline = _deadline()
    try:
        for fmt in fmts:
            for ids in ds_scenarios(3):
                if time.time() > deadline:
                    return None
                try:
                    r = run_ds(fmt, ids, tmp)
                except Exception as e:  # noqa: BLE001
                    r = {"exception": repr(e)}
                if r is not None:
                    return {"scenario": "design space written to a real file and read back", "format": fmt, "variables": [list(map(repr, DS_VARS[i])) for i in ids],
                            "variable_ids": list(ids), "failure": r}
    finally:
        shutil.rmtree(tmp, ignore_errors=True)
    return None


def _relevant(func: str, seq):
    n_store = len(POINTS) * len(OUTS)
    has_append = any(OPS[i] == ("export", 1, 0) for i in seq)
    if any(s in func for s in ("append_hdf_output", "get_missing", "add_pending")):
        return has_append
    return True


def _deadline():
    """Wall-clock budget of ONE search (the enumerations are deterministic and shortest-first: the witnesses of the known defects are found within a few
    seconds); RT_C11_BUDGET seconds, default 30 - as contracts/rt_c05.py does.  A search that runs out of budget returns None (no witness)."""
    return time.time() + float(os.environ.get("RT_C11_BUDGET", "30"))


_MEMO: dict = {}  # one search per (function, search family) and process: the searches only depend on the function, not on the single obligation


def replay(ob, seed=0):
    from contracts import rt_c12  # backup clauses (contracts/c12_backup_clauses.py): scenario-level replay with a history backup on a real file

    key = (ob.func, rt_c12.search_family(ob) if rt_c12.handles(ob.func) else "")
    if key not in _MEMO:
        _MEMO[key] = _replay(ob, seed)
    return _MEMO[key]


def _replay(ob, seed=0):
    from contracts import rt_c12

    if rt_c12.handles(ob.func):
        return rt_c12.replay(ob, seed)
    if _is_ds_function(ob.func):
        return replay_ds(ob)
    tmp = Path(tempfile.mkdtemp(prefix="rt_c11."))
    deadline = _deadline()
    try:
        for node in NODES:
            for seq in sequences(3):
                if not _relevant(ob.func, seq):
                    continue
                if time.time() > deadline:
                    return None
                try:
                    r = run(node, seq, tmp)
                except Exception as e:  # noqa: BLE001
                    r = {"exception": repr(e)}
                if r is not None:
                    return {"scenario": "store/export/reload on real h5py files", "node": node, "sequence": [list(OPS[i]) for i in seq], "sequence_ids": list(seq), "failure": r}
    finally:
        shutil.rmtree(tmp, ignore_errors=True)
    return None


def rerun(w):
    if "backup_config" in w:
        from contracts import rt_c12

        return rt_c12.rerun(w)
    try:
        r = run_ds(w["format"], tuple(w["variable_ids"])) if "variable_ids" in w else run(w["node"], tuple(w["sequence_ids"]))
    except Exception as e:  # noqa: BLE001
        r = {"exception": repr(e)}
    return {"fails": r is not None, "failure": r}


if __name__ == "__main__":
    import sys
    import time

    t0 = time.time()
    n, fails = bounded_check(int(sys.argv[1]) if len(sys.argv) > 1 else 4, verbose=True)
    print(f"{n} scenarios, {len(fails)} failures, {time.time() - t0:.0f}s")
    t0 = time.time()
    n2, fails2 = bounded_check_ds(3, verbose=True)
    print(f"design-space files: {n2} scenarios, {len(fails2)} failures, {time.time() - t0:.0f}s")
    sys.exit(1 if fails or fails2 else 0)
