"""Run-time contract for C17 (index / scaling part): small real IDF problems and real formulations.

* consistency constraints: for a two-discipline coupled system, the IDF consistency constraint must vanish exactly when the coupling
  targets of the design vector equal the coupling values computed from it (checked for several bounds of the coupling variables);
* mask / unmask: on a real formulation, mask(unmask(y)) = y and unmask(mask(x), x_full=x) = x for sub-lists of the design variables in
  the same order, against a brute-force reading of the variable layout.
* MDF couplings: on a real MDF formulation (strongly coupled pair + a weak coupling, three main MDAs) whose design space holds the
  design variable and a chosen subset of the couplings, MDF._remove_couplings_from_ds must leave no coupling of the MDA (weak or
  strong) in the design space and keep the other variables.
* construction (c17_build): real IDF on affine disciplines (declared linear or not): one consistency constraint per discipline with output
  couplings, in order, vanishing at the multidisciplinary solution; IDF requires the couplings as design variables and keeps the design space;
  real MDF: after construction the design space holds exactly the entry variables that are inputs of the MDA and no couplings.
Deterministic enumeration; witness = the scenario.
"""
from __future__ import annotations

import itertools
import warnings

import numpy as np

BOUNDS = [(-10.0, 10.0), (0.0, 4.0), (float("-inf"), float("inf")), (1.0, 1.0), (float("-inf"), 5.0)]
POINTS = [(0.5, 1.0, 1.0), (0.5, 1.5, 3.0), (0.25, 2.0, 0.0)]  # (x, y1 target, y2 target); y1 = x + y2, y2 = 2 y1


def _idf(lb, ub, normalize=True):
    from gemseo.algos.design_space import DesignSpace
    from gemseo.disciplines.analytic import AnalyticDiscipline
    from gemseo.formulations.idf import IDF

    d1 = AnalyticDiscipline({"y1": "x + y2"}, name="d1")
    d2 = AnalyticDiscipline({"y2": "2*y1", "obj": "y1+y2"}, name="d2")
    ds = DesignSpace()
    ds.add_variable("x", lower_bound=0.0, upper_bound=1.0, value=0.5)
    ds.add_variable("y1", lower_bound=lb, upper_bound=ub, value=1.0)
    ds.add_variable("y2", lower_bound=lb, upper_bound=ub, value=1.0)
    return IDF([d1, d2], "obj", ds, normalize_constraints=normalize)


def run_consistency(lb, ub, normalize, point):
    x, y1, y2 = point
    f = _idf(lb, ub, normalize)
    vec = np.array([x, y1, y2])
    computed = {"y1": x + y2, "y2": 2 * y1}
    target = {"y1": y1, "y2": y2}
    with warnings.catch_warnings():
        warnings.simplefilter("ignore")
        for c in f.optimization_problem.constraints:
            name = c.output_names[0]
            value = float(np.ravel(c.evaluate(vec))[0])
            consistent = computed[name] == target[name]
            if (value == 0.0) != consistent:
                return {"what": "the consistency constraint does not vanish exactly at consistent couplings", "constraint": name,
                        "bounds": [lb, ub], "normalize_constraints": normalize, "design_vector": list(point), "computed": computed[name],
                        "target": target[name], "value": value}
    return None


def _formulation(sizes):
    from gemseo.algos.design_space import DesignSpace
    from gemseo.disciplines.analytic import AnalyticDiscipline
    from gemseo.formulations.disciplinary_opt import DisciplinaryOpt

    ds = DesignSpace()
    for i, s in enumerate(sizes):
        ds.add_variable(f"v{i}", size=s, lower_bound=-1.0, upper_bound=1.0, value=0.0)
    disc = AnalyticDiscipline({"obj": "+".join(f"v{i}" for i in range(len(sizes)))}, name="d")
    disc.io.input_grammar.defaults.update({f"v{i}": np.zeros(s) for i, s in enumerate(sizes)})
    return DisciplinaryOpt([disc], "obj", ds)


def run_mask(sizes, subset):
    f = _formulation(sizes)
    names = [f"v{i}" for i in range(len(sizes))]
    masking = [names[i] for i in subset]
    total = sum(sizes)
    x = np.arange(1.0, total + 1.0)
    starts = np.concatenate(([0], np.cumsum(sizes)))
    expected = np.concatenate([x[starts[i]:starts[i + 1]] for i in subset]) if subset else np.zeros(0)
    got = f.mask_x_swap_order(masking, x)
    if not np.array_equal(got, expected):
        return {"what": "mask is not the gather of the variables' components", "sizes": list(sizes), "masking": masking, "got": got.tolist()}
    y = np.arange(100.0, 100.0 + len(expected))
    if f.unmask_x_swap_order(masking, y) is y:
        return {"what": "unmask_x_swap_order returns its argument itself (callers rely on a fresh array)", "sizes": list(sizes), "masking": masking}
    if not np.array_equal(f.mask_x_swap_order(masking, f.unmask_x_swap_order(masking, y)), y):
        return {"what": "mask(unmask(y)) != y", "sizes": list(sizes), "masking": masking}
    if not np.array_equal(f.unmask_x_swap_order(masking, got, x_full=x), x):
        return {"what": "unmask(mask(x), x_full=x) != x", "sizes": list(sizes), "masking": masking}
    return None


def run_mdf(mda_name, present):
    from gemseo.algos.design_space import DesignSpace
    from gemseo.disciplines.analytic import AnalyticDiscipline
    from gemseo.formulations.mdf import MDF

    d1 = AnalyticDiscipline({"y1": "0.3*y2 + x + 1"}, name="D1")
    d2 = AnalyticDiscipline({"y2": "0.2*y1 - 0.5*x + 2", "w": "x**2 + 0.1*y1"}, name="D2")
    d3 = AnalyticDiscipline({"f": "w**2 + y1 + y2 + x"}, name="D3")
    ds = DesignSpace()
    ds.add_variable("x", lower_bound=-2.0, upper_bound=2.0, value=0.5)
    with warnings.catch_warnings():
        warnings.simplefilter("ignore")
        f = MDF([d1, d2, d3], "f", ds, main_mda_name=mda_name)
        space = f.optimization_problem.design_space
        for n in present:
            if n not in space:
                space.add_variable(n, lower_bound=-10.0, upper_bound=10.0, value=1.0)
        before = list(space.variable_names)
        f._remove_couplings_from_ds()
    couplings = set(f.mda.coupling_structure.all_couplings)
    after = list(space.variable_names)
    left = [n for n in after if n in couplings]
    expected = [n for n in before if n not in couplings]
    if left or after != expected:
        return {"what": "MDF._remove_couplings_from_ds leaves coupling variables in the design space (or drops another variable)", "main_mda": mda_name,
                "couplings": sorted(couplings), "design_space_before": before, "design_space_after": after, "expected": expected}
    return None


def _coupled(linear):
    """Two strongly coupled affine disciplines + a system discipline; optionally declared linear (io.set_linear_relationships())."""
    from gemseo.disciplines.analytic import AnalyticDiscipline

    ds = [AnalyticDiscipline({"y1": "0.3*y2 + x + 1"}, name="D1"), AnalyticDiscipline({"y2": "0.2*y1 - 0.5*x + 2"}, name="D2"),
          AnalyticDiscipline({"f": "y1 + 2*y2 + x"}, name="D3")]
    if linear:
        for d in ds:
            d.io.set_linear_relationships()
    return ds


def run_idf_build(linear, normalize, order):
    """Real IDF: exactly one consistency constraint per discipline with output couplings, in the order of the disciplines, each vanishing at
    the multidisciplinary solution (also when the disciplines are declared linear and the constraints are linearised)."""
    from gemseo.algos.design_space import DesignSpace
    from gemseo.formulations.idf import IDF

    y1 = (0.3 * (0.2 * 1 - 0.25 + 2) + 0.5 + 1)  # fixed point for x = 0.5: y1 = 0.3 y2 + 1.5, y2 = 0.2 y1 + 1.75
    y1 = (0.3 * 1.75 + 1.5) / (1 - 0.06)
    y2 = 0.2 * y1 + 1.75
    sol = {"x": 0.5, "y1": y1, "y2": y2}
    space = DesignSpace()
    for n in order:
        space.add_variable(n, lower_bound=-10.0, upper_bound=10.0, value=1.0)
    discs = _coupled(linear)
    with warnings.catch_warnings():
        warnings.simplefilter("ignore")
        f = IDF(discs, "f", space, normalize_constraints=normalize)
        cs = f.coupling_structure
        expected = [cs.get_output_couplings(d, strong=False) for d in discs]
        expected = [e for e in expected if e]
        got = [c.name for c in f.optimization_problem.constraints]  # (a linearised constraint is named <couplings>_linearized)
        if len(got) != len(expected) or any(not g.startswith("_".join(e)) for e, g in zip(expected, got)):
            return {"what": "IDF does not add exactly one consistency constraint per discipline with output couplings, in order", "expected": expected, "got": got}
        vec = np.array([sol[n] for n in f.design_space.variable_names])
        off = vec.copy()
        off[list(f.design_space.variable_names).index("y1")] += 1.0
        for c, e in zip(f.optimization_problem.constraints, expected):
            v = float(np.abs(np.ravel(c.evaluate(vec))).max())
            if v > 1e-9:
                return {"what": "an IDF consistency constraint does not vanish at the multidisciplinary solution", "constraint": c.name, "type": type(c).__name__,
                        "declared_linear": linear, "normalize_constraints": normalize, "design_variables": list(order), "value": v}
            if e == ["y1"] and float(np.abs(np.ravel(c.evaluate(off))).max()) < 1e-6:
                return {"what": "the consistency constraint of y1 vanishes although the target y1 is off by 1", "constraint": c.name, "declared_linear": linear}
    return None


def run_idf_init(missing):
    """IDF requires every coupling as a design variable (ValueError otherwise) and keeps the design space as it is."""
    from gemseo.algos.design_space import DesignSpace
    from gemseo.formulations.idf import IDF

    space = DesignSpace()
    for n in ("x", "y1", "y2", "unused"):
        if n not in missing:
            space.add_variable(n, lower_bound=-10.0, upper_bound=10.0, value=1.0)
    before = list(space.variable_names)
    with warnings.catch_warnings():
        warnings.simplefilter("ignore")
        try:
            f = IDF(_coupled(False), "f", space)
        except ValueError:
            return None if set(missing) & {"y1", "y2"} else {"what": "IDF raises ValueError although every coupling is a design variable", "missing": list(missing)}
    if set(missing) & {"y1", "y2"}:
        return {"what": "IDF accepts a design space without a coupling variable", "missing": list(missing)}
    if list(f.design_space.variable_names) != before or sorted(f.all_couplings) != sorted(f.coupling_structure.all_couplings):
        return {"what": "IDF changed the design space / all_couplings differ from the coupling structure's", "before": before, "after": list(f.design_space.variable_names)}
    tops = f.get_top_level_disciplines()
    if list(tops) != list(f.disciplines):
        return {"what": "IDF.get_top_level_disciplines() is not the disciplines", "got": [d.name for d in tops]}
    return None


def run_mdf_update(mda_name, present):
    """Real MDF construction: afterwards the design space holds exactly the entry variables that are no couplings and are inputs of the MDA."""
    from gemseo.algos.design_space import DesignSpace
    from gemseo.disciplines.analytic import AnalyticDiscipline
    from gemseo.formulations.mdf import MDF

    d1 = AnalyticDiscipline({"y1": "0.3*y2 + x + 1"}, name="D1")
    d2 = AnalyticDiscipline({"y2": "0.2*y1 - 0.5*x + 2", "w": "x**2 + 0.1*y1"}, name="D2")
    d3 = AnalyticDiscipline({"f": "w**2 + y1 + y2 + x + x2"}, name="D3")
    ds = DesignSpace()
    for n in ["x", *present]:
        ds.add_variable(n, lower_bound=-10.0, upper_bound=10.0, value=0.5)
    before = list(ds.variable_names)
    with warnings.catch_warnings():
        warnings.simplefilter("ignore")
        f = MDF([d1, d2, d3], "f", ds, main_mda_name=mda_name)
    couplings = set(f.mda.coupling_structure.all_couplings)
    inputs = set(f.mda.io.input_grammar)
    after = list(f.design_space.variable_names)
    expected = [n for n in before if n not in couplings and n in inputs]
    tops = f.get_top_level_disciplines()
    if after != expected or len(tops) != 1 or tops[0] is not f.mda:
        return {"what": "after MDF construction the design space is not {entry variables that are inputs of the MDA and no couplings} (or the MDA is not the only "
                        "top-level discipline)", "main_mda": mda_name, "couplings": sorted(couplings), "before": before, "after": after, "expected": expected}
    return None


def run_cc_jac(normalize, order):
    """Real IDF consistency constraints (a scalar one: gradient path; a two-component one: matrix path): the Jacobian is the derivative of the
    value (central differences; the constraints are affine or quadratic in the design vector), i.e. (dy/dx - identity on the target
    columns) / factor; the constraint object wraps its own functions, has type 'eq' and the input names of its coupling function."""
    from gemseo.algos.design_space import DesignSpace
    from gemseo.disciplines.analytic import AnalyticDiscipline
    from gemseo.formulations.idf import IDF

    d1 = AnalyticDiscipline({"y1": "0.3*y2 + x + 1"}, name="D1")
    d2 = AnalyticDiscipline({"y2": "0.2*y1 - 0.5*x + 2", "w": "x**2 + 0.1*y1"}, name="D2")
    d3 = AnalyticDiscipline({"f": "w**2 + y1 + y2 + x"}, name="D3")
    space = DesignSpace()
    bounds = {"x": (-2.0, 2.0), "y1": (-10.0, 10.0), "y2": (0.0, 4.0), "w": (-1.0, 7.0)}
    for n in order:
        space.add_variable(n, lower_bound=bounds[n][0], upper_bound=bounds[n][1], value=0.5)
    with warnings.catch_warnings():
        warnings.simplefilter("ignore")
        f = IDF([d1, d2, d3], "f", space, normalize_constraints=normalize)
        point = np.array([0.3, 1.2, -0.7, 0.9])
        for c in f.optimization_problem.constraints:
            if c.f_type != "eq" or c._func.__self__ is not c or c._jac.__self__ is not c or list(c.input_names) != list(c.coupling_function.input_names):
                return {"what": "the consistency constraint is not an equality constraint wrapping its own value / Jacobian functions", "constraint": c.name}
            jac = np.atleast_2d(c.jac(point))
            h = 1e-6
            fd = np.zeros_like(jac)
            for p in range(len(point)):
                e = np.zeros(len(point))
                e[p] = h
                fd[:, p] = (np.atleast_1d(c.evaluate(point + e)) - np.atleast_1d(c.evaluate(point - e))) / (2 * h)
            if np.abs(jac - fd).max() > 1e-6:
                return {"what": "the Jacobian of the consistency constraint is not the derivative of its value", "constraint": c.name, "normalize_constraints": normalize,
                        "design_variables": list(order), "jacobian": jac.tolist(), "finite_differences": fd.round(8).tolist()}
    return None


def run_dopt(n_disciplines, linear, extra):
    """Real DisciplinaryOpt: the design space is restricted to the inputs of the discipline (or of the chain of the disciplines) and the
    objective is the discipline's output - also for disciplines declared linear (repaired defect: ValueError when a variable was filtered out)."""
    from gemseo.algos.design_space import DesignSpace
    from gemseo.disciplines.analytic import AnalyticDiscipline
    from gemseo.formulations.disciplinary_opt import DisciplinaryOpt

    discs = [AnalyticDiscipline({"f": "2*x + 1"}, name="D")] if n_disciplines == 1 else [
        AnalyticDiscipline({"y": "x + 1"}, name="D1"), AnalyticDiscipline({"f": "2*y + x"}, name="D2")]
    if linear:
        for d in discs:
            d.io.set_linear_relationships()
    space = DesignSpace()
    for n in ["x", *extra]:
        space.add_variable(n, lower_bound=-10.0, upper_bound=10.0, value=1.0)
    before = list(space.variable_names)
    scenario = {"disciplines": n_disciplines, "declared_linear": linear, "design_variables": before}
    with warnings.catch_warnings():
        warnings.simplefilter("ignore")
        try:
            f = DisciplinaryOpt(discs, "f", space)
        except Exception as e:  # noqa: BLE001
            return {"what": "DisciplinaryOpt cannot be constructed", **scenario, "exception": repr(e)[:200]}
        top = f.get_top_level_disciplines()
        inputs = set(top[0].io.input_grammar)
        after = list(f.design_space.variable_names)
        if len(top) != 1 or after != [n for n in before if n in inputs] or f.design_space is not space:
            return {"what": "the design space of DisciplinaryOpt is not the user's design space restricted to the inputs of the top-level discipline",
                    **scenario, "after": after, "inputs": sorted(inputs)}
        value = float(np.ravel(f.optimization_problem.objective.evaluate(np.array([0.5])))[0])
        expected = 2.0 if n_disciplines == 1 else 3.5
        if abs(value - expected) > 1e-12:
            return {"what": "the objective of DisciplinaryOpt is not the output of the (chain of) discipline(s)", **scenario, "value": value, "expected": expected}
    return None


MDF_CASES = [(m, list(p)) for m in ("MDAChain", "MDAGaussSeidel", "MDAJacobi") for r in range(4) for p in itertools.combinations(("y1", "y2", "w"), r)]


def scenarios():
    for m, p in MDF_CASES:
        yield {"kind": "mdf", "main_mda": m, "present": p}
    for linear, normalize in itertools.product((True, False), (False, True)):
        for order in (("x", "y1", "y2"), ("y2", "x", "y1")):
            yield {"kind": "idf_build", "linear": linear, "normalize": normalize, "order": list(order)}
    for missing in ((), ("y1",), ("y2",), ("unused",), ("y1", "y2")):
        yield {"kind": "idf_init", "missing": list(missing)}
    for normalize in (False, True):
        for order in (("x", "y1", "y2", "w"), ("w", "y2", "x", "y1")):
            yield {"kind": "cc_jac", "normalize": normalize, "order": list(order)}
    for n_disc, linear in itertools.product((1, 2), (True, False)):
        for extra in ((), ("unused",), ("y",)):
            yield {"kind": "dopt", "disciplines": n_disc, "linear": linear, "extra": list(extra)}
    for m in ("MDAChain", "MDAJacobi"):
        for r in range(4):
            for p in itertools.combinations(("y1", "w", "x2", "unused"), r):
                yield {"kind": "mdf_update", "main_mda": m, "present": list(p)}
    for (lb, ub), normalize, point in itertools.product(BOUNDS, (True, False), POINTS):
        yield {"kind": "consistency", "lb": lb, "ub": ub, "normalize": normalize, "point": list(point)}
    for sizes in ((1, 2, 1), (2, 1, 3)):
        for r in range(len(sizes) + 1):
            for subset in itertools.combinations(range(len(sizes)), r):
                yield {"kind": "mask", "sizes": list(sizes), "subset": list(subset)}


def _run(s):
    try:
        if s["kind"] == "consistency":
            return run_consistency(s["lb"], s["ub"], s["normalize"], tuple(s["point"]))
        if s["kind"] == "mdf":
            return run_mdf(s["main_mda"], s["present"])
        if s["kind"] == "idf_build":
            return run_idf_build(s["linear"], s["normalize"], tuple(s["order"]))
        if s["kind"] == "idf_init":
            return run_idf_init(tuple(s["missing"]))
        if s["kind"] == "cc_jac":
            return run_cc_jac(s["normalize"], tuple(s["order"]))
        if s["kind"] == "dopt":
            return run_dopt(s["disciplines"], s["linear"], tuple(s["extra"]))
        if s["kind"] == "mdf_update":
            return run_mdf_update(s["main_mda"], s["present"])
        return run_mask(tuple(s["sizes"]), tuple(s["subset"]))
    except Exception as e:  # noqa: BLE001
        return {"exception": repr(e)}


def replay(ob, seed=0):
    kind = "consistency" if "consistency_constraint" in ob.func else ("mdf" if "_remove_couplings_from_ds" in ob.func else "mask")
    kinds = (kind,)
    if "_get_normalization_factor" in ob.func:
        kinds = ("consistency",)
    if "_build_constraints" in ob.func:
        kinds = ("idf_build",)
    elif ob.func.endswith("IDF.__init__") or "IDF.get_top_level_disciplines" in ob.func:
        kinds = ("idf_init", "idf_build")
    elif "_remove_unused_variables" in ob.func or "MDF._update_design_space" in ob.func or "MDF.get_top_level_disciplines" in ob.func or ob.func.endswith("MDF.__init__"):
        kinds = ("mdf_update",)
    if "ConsistencyConstraint._jac_to_wrap" in ob.func or "ConsistencyConstraint.__init__" in ob.func:
        kinds = ("cc_jac",)
    if "DisciplinaryOpt" in ob.func or "DesignSpace.filter" in ob.func or "_build_objective_from_disc" in ob.func:
        kinds = ("dopt",)
    for s in scenarios():
        if s["kind"] not in kinds:
            continue
        r = _run(s)
        if r is not None:
            return {"scenario": s, "failure": r}
    return None


def rerun(w):
    r = _run(w["scenario"])
    return {"fails": r is not None, "failure": r}
