"""C13 - consequences of the order-preserving parallel execution for disciplines, chains and DOEs.

Built on the contract of ``CallableParallelExecution.execute`` verified in contracts/c13_parallel.py (positional results for every
delivery order and every failing subset), used here as the callee summary of ``super().execute(...)``:

* ``DiscParallelExecution.execute``: the returned list is positional, discipline i of the ORIGINAL list ends up holding the local data of
  worker result i (one discipline per input), a failed task leaves its discipline untouched (process mode), other disciplines untouched;
  one discipline for all inputs / mismatching lengths: no write-back, parent-side execution counter as coded.
* ``_Functor.__call__`` / ``DiscParallelLinearization.execute``: same for (local data, Jacobian); returned list of Jacobians positional.
* ``MDOParallelChain._execute``: ``io.data`` = the update, in list order, with the outputs of every discipline executed on the chain's data.
(The parallel branch of ``BaseDOELibrary._run`` is not under contract: see PROPS["C13"]["not_covered"].)

Disciplines are opaque values (pyvc/plug_c13d.py): local data / Jacobian / counters are ghost maps.

The invariants of the two write-back loops are ANCHOR-FREE (LoopSpec(anchor=None)): they are stated over the specification's own sequences -
discipline k of ``self._disciplines`` and task k of the positional result of ``super().execute`` (``lastw(k, d)``) -, never over the sequence the
loop happens to run over, so that a loop over a filtered / shifted / reordered sequence fails ``inv_pres`` or the write-back postconditions
(a violation with a named obligation) instead of making the check undecided.  Run-time replay: contracts/rt_c13.py.
"""
from __future__ import annotations

import z3

from contracts import c13_parallel as CP
from pyvc import plug_c13d as D
from pyvc import plug_parallel as P
from pyvc.contract import Contract, LoopSpec, register, schema
from pyvc.plug_graph import DLIST, DiscS
from pyvc.values import TBool, TInt, TList, TOpt, TVal, val_none

FA = CP.FA
CPE = CP.CPE
PE = "gemseo.core.parallel_execution."
DPE = PE + "disc_parallel_execution.DiscParallelExecution"
DPL = PE + "disc_parallel_linearization.DiscParallelLinearization"
FUN = PE + "disc_parallel_linearization._Functor"

schema(DPE, {"_disciplines": DLIST}, bases=[CPE])
schema(DPL, {"_disciplines": DLIST}, bases=[CPE])

Int = z3.IntSort()


def G0(c, name):
    return c.old_ghost(name, D.GHOSTS[name])


def G1(c, name):
    return c.new_ghost(name, D.GHOSTS[name])


def discs(c):
    return c.old.self._disciplines


def one_per_task(c):
    """The branch of the write-back: several disciplines, as many as inputs."""
    m, n = discs(c).n, CP.n_tasks(c)
    return z3.And(m != 1, m == n)


def workers_are(c, worker_of):
    """Representation invariant established by __init__: one worker per discipline, worker i is the task callable of discipline i."""
    L, w = discs(c), CP.W(c)
    i = z3.Int("i!wk")
    return [("inv:one-worker-per-discipline", w.n == L.n),
            ("inv:worker-i-runs-discipline-i", FA([i], z3.Implies(z3.And(0 <= i, i < L.n), w.elems[i] == worker_of(L.elems[i])), patterns=[w.elems[i]]))]


def task_disc(c, i):
    """The discipline task i runs on: the i-th one, or the single one."""
    L = discs(c)
    return z3.If(L.n > 1, L.elems[i], L.elems[0])


# ============================================================================ DiscParallelExecution.execute
def result_positional(c, r, proj=lambda v: v):
    n = CP.n_tasks(c)
    i = z3.Int("i!rp")
    return [("result:length", r.n == n),
            ("result:positional", FA([i], z3.Implies(z3.And(0 <= i, i < n), r.elems[i] == z3.If(CP.succeeds(c, i), proj(CP.value(c, i)), val_none)), patterns=[r.elems[i]]))]


lastw = z3.Function("c13d_last_success", Int, DiscS, Int)  # lastw(k, d): the last successful task < k run on discipline d, -1 if none


def lastw_axioms(c):
    """Definition of lastw by recursion on the number of (discipline, output) pairs considered."""
    L = discs(c)
    k = z3.Int("k!lw")
    d = z3.Const("d!lw", DiscS)
    return [
        ("lastw-def:0", FA([d], lastw(0, d) == -1, patterns=[lastw(0, d)])),
        ("lastw-def:step", FA([k, d], z3.Implies(k >= 0, lastw(k + 1, d) == z3.If(z3.And(L.elems[k] == d, CP.succeeds(c, k)), k, lastw(k, d))), patterns=[lastw(k + 1, d)])),
    ]


def distinct(c):
    L = discs(c)
    a, b = z3.Ints("a!dd b!dd")
    return FA([a, b], z3.Implies(z3.And(0 <= a, a < b, b < L.n), L.elems[a] != L.elems[b]), patterns=[z3.MultiPattern(L.elems[a], L.elems[b])])


def written_back(c, k, maps, projs):
    """After the write-back of the first k (discipline, output) pairs: every discipline holds what the LAST successful task run on it
    returned (the later write wins, as in a sequential loop) or what it held when the write-back started; `maps` = [(new, base)] ghost maps."""
    d = z3.Const("d!wb", DiscS)
    out = []
    for t, ((m1, mb), proj) in enumerate(zip(maps, projs)):
        out.append((f"write-back:last-successful-task-of-the-discipline:{t}",
                    FA([d], m1[d] == z3.If(lastw(k, d) >= 0, proj(CP.value(c, lastw(k, d))), mb[d]), patterns=[m1[d]])))
    return out


def final_state(c, maps, projs):
    """Exit state, one discipline per input: (A) a discipline with a successful task holds the result of its last successful task (both modes);
    (B) with processes, a discipline without successful task is untouched (threads: a failed task leaves the SHARED discipline in an unspecified
    state, as a failed sequential execution does); (C) only listed disciplines change."""
    L = discs(c)
    n = CP.n_tasks(c)
    d = z3.Const("d!fs", DiscS)
    i = z3.Int("i!fs")
    out = []
    for t, ((m1, m0), proj) in enumerate(zip(maps, projs)):
        out += [
            (f"write-back:last-successful-task-of-the-discipline:{t}", z3.Implies(one_per_task(c), FA([d], z3.Implies(lastw(n, d) >= 0, m1[d] == proj(CP.value(c, lastw(n, d)))), patterns=[m1[d]]))),
            (f"write-back:failed-task-leaves-its-discipline-untouched(processes):{t}", z3.Implies(z3.And(one_per_task(c), z3.Not(c.old.self.use_threading)),
                                                                                          FA([d], z3.Implies(lastw(n, d) < 0, m1[d] == m0[d]), patterns=[m1[d]]))),
            (f"frame:only-listed-disciplines-change:{t}", FA([d], z3.Implies(m1[d] != m0[d], z3.Exists([i], z3.And(0 <= i, i < L.n, L.elems[i] == d))), patterns=[m1[d]])),
        ]
    return out


def thread_effects(c, g, cur, proj):
    """ASSUMED effect of the workers on the caller's disciplines, once they are joined.  Processes work on copies: none.  Threads share the
    objects (Discipline.execute / linearize leave what they return in the discipline): with pairwise distinct disciplines, one per input (what
    _check_unicity enforces for threads), discipline i holds result i if task i succeeded (unspecified if it failed); disciplines that are not
    listed are untouched."""
    L = discs(c)
    n = CP.n_tasks(c)
    thr = c.old.self.use_threading
    d = z3.Const("d!te", DiscS)
    i = z3.Int("i!te")
    return [
        z3.Implies(z3.Not(thr), FA([d], g[d] == cur[d], patterns=[g[d]])),
        z3.Implies(z3.And(thr, distinct(c), L.n == n), FA([i], z3.Implies(z3.And(0 <= i, i < n, CP.succeeds(c, i)), g[L.elems[i]] == proj(CP.value(c, i))), patterns=[L.elems[i]])),
        FA([d], z3.Implies(g[d] != cur[d], z3.Exists([i], z3.And(0 <= i, i < L.n, L.elems[i] == d))), patterns=[g[d]]),
    ]


WRITE_BACK_HEADER = "if len(self._disciplines) == 1 or len(self._disciplines) != len(inputs):"


def loop_entry_map(c, name):
    """The ghost map when the write-back loop was entered (after the assumed thread effects)."""
    v = c.pre_locals.get("self")
    if v is None:
        return G1(c, name)
    return v._heap.sym.get(name, z3.Const(f"heap0_{name}", D.GHOSTS[name]))


def lastw_distinct(c, k):
    """With pairwise distinct disciplines: the last successful task of discipline i is i itself (if it succeeded)."""
    L = discs(c)
    n = L.n
    i = z3.Int("i!ld")
    return [
        ("distinct:done", z3.Implies(distinct(c), FA([i], z3.Implies(z3.And(0 <= i, i < k), lastw(k, L.elems[i]) == z3.If(CP.succeeds(c, i), i, -1)), patterns=[L.elems[i]]))),
        ("distinct:to-do", z3.Implies(distinct(c), FA([i], z3.Implies(z3.And(k <= i, i < n), lastw(k, L.elems[i]) == -1), patterns=[L.elems[i]]))),
    ] + lastw_facts(c, k)


def lastw_facts(c, k):
    """What the recursive definition gives (by induction on k: these are conjuncts of the loop invariant): lastw(k, d) is -1 or names a successful
    task < k of discipline d, and it is not earlier than any successful task < k of d (the later write wins)."""
    L = discs(c)
    i = z3.Int("i!lf")
    d = z3.Const("d!lf", DiscS)
    w = lastw(k, d)
    return [
        ("lastw:names-a-successful-task-of-the-discipline", FA([d], z3.And(-1 <= w, w < k, z3.Implies(w >= 0, z3.And(L.elems[w] == d, CP.succeeds(c, w)))), patterns=[lastw(k, d)])),
        ("lastw:not-earlier-than-any-successful-task", FA([i], z3.Implies(z3.And(0 <= i, i < k, CP.succeeds(c, i)), lastw(k, L.elems[i]) >= i), patterns=[L.elems[i]])),
    ]


def positional_write_back(c, maps, projs):
    """The corollary for pairwise distinct disciplines: discipline i holds result i if task i succeeded and is untouched otherwise."""
    L = discs(c)
    i = z3.Int("i!pw")
    out = []
    for t, ((m1, m0), proj) in enumerate(zip(maps, projs)):
        out.append((f"write-back:positional:{t}", z3.Implies(z3.And(one_per_task(c), distinct(c)), FA([i], z3.Implies(
            z3.And(0 <= i, i < L.n, z3.Or(CP.succeeds(c, i), z3.Not(c.old.self.use_threading))), m1[L.elems[i]] == z3.If(CP.succeeds(c, i), proj(CP.value(c, i)), m0[L.elems[i]])),
            patterns=[L.elems[i]]))))
    return out


def _ident(v):
    return v


def inv_writeback(c, k):
    return written_back(c, k, [(G1(c, "c13d_data"), loop_entry_map(c, "c13d_data"))], [_ident]) + lastw_distinct(c, k)


class _Wrapper(Contract):
    prop = ("C13",)
    c13d = True
    params = {"inputs": TList(TVal), "exec_callback": CP.CBS, "task_submitted_callback": TOpt(P.TSubmitCb)}
    raises = {
        "WorkerException": lambda c: z3.Not(CP.no_reraise_before(c, CP.n_tasks(c))),
        "AssertionError": lambda c: z3.And(P.CUR_DAEMONIC, z3.Not(c.old.self.use_threading), CP.n_tasks(c) >= 1),
    }

    def _requires(self, c):
        return CP.Execute().requires(c)


def disc_ok(c, i):
    """Task i succeeds, in the vocabulary of the disciplines (valid when there is one discipline per input)."""
    L, x = discs(c), c.old.inputs.elems[i]
    f = D.exec_of(L.elems[i])
    return z3.And(z3.Not(P.task_raises(f, x)), z3.Not(P.is_exc(P.task_value(f, x))))


def in_discipline_vocabulary(c, data1):
    """Corollaries for callers that hand the SAME input to every discipline (MDOParallelChain): no task index is left in the statement."""
    L, n, inp = discs(c), CP.n_tasks(c), c.old.inputs
    thr = c.old.self.use_threading
    i = z3.Int("i!dv")
    same_input = FA([i], z3.Implies(z3.And(0 <= i, i < n), inp.elems[i] == inp.elems[0]), patterns=[inp.elems[i]])
    written = z3.Or(one_per_task(c), z3.And(thr, L.n == 1, n == 1))
    return [
        ("success:in-discipline-vocabulary", z3.Implies(L.n == n, FA([i], z3.Implies(z3.And(0 <= i, i < n), CP.succeeds(c, i) == disc_ok(c, i)), patterns=[L.elems[i]]))),
        ("write-back:same-input-for-every-discipline", z3.Implies(z3.And(same_input, written), FA([i], z3.Implies(
            z3.And(0 <= i, i < n, disc_ok(c, i)), data1[L.elems[i]] == P.task_value(D.exec_of(L.elems[i]), inp.elems[0])), patterns=[L.elems[i]]))),
    ]


def returns_data():
    """Discipline.execute returns the discipline's DisciplineData, never None (so that a None slot means a failed task)."""
    d = z3.Const("d!rd", DiscS)
    x = z3.Const("x!rd", P.ValS)
    return ("discipline-execute-returns-its-data", FA([d, x], P.task_value(D.exec_of(d), x) != val_none, patterns=[P.task_value(D.exec_of(d), x)]))


def spawn_counted(c):
    return z3.And(z3.Not(c.old.self.use_threading), D.START_METHOD == P.str_lit("spawn"), D.STATS_ENABLED)


@register
class DiscExecute(_Wrapper):
    """Positional results; with one discipline per input, discipline i holds the data of result i (later task of the same discipline wins,
    failed task: untouched); otherwise no write-back and the parent-side counter of the first discipline is increased by the number of
    inputs exactly under the spawn start method (workers do not share the counters then)."""

    targets = (DPE + ".execute",)
    returns = TList(TVal)
    modifies = CP.EXEC_GHOSTS + ("ghost:c13d_data", "ghost:c13d_nexec")
    loops = {0: LoopSpec(anchor=None, inv=inv_writeback, modifies=("ghost:c13d_data",),
                         local_types={"disc": D.TDisc, "output": TVal})}
    raises = {**_Wrapper.raises,
              "IndexError": lambda c: z3.And(discs(c).n == 0, CP.n_tasks(c) != 0, spawn_counted(c))}

    def requires(self, c):
        return self._requires(c) + workers_are(c, D.exec_of)

    def axioms(self, c):
        return lastw_axioms(c) + [returns_data()]

    ghost_defs = {WRITE_BACK_HEADER: lambda c: {"c13d_data": lambda g: thread_effects(c, g, G1(c, "c13d_data"), _ident)}}

    def ensures(self, c):
        n = CP.n_tasks(c)
        L = discs(c)
        d = z3.Const("d!de", DiscS)
        data0, data1 = G0(c, "c13d_data"), G1(c, "c13d_data")
        ne0, ne1 = G0(c, "c13d_nexec"), G1(c, "c13d_nexec")
        out = result_positional(c, c.result)
        maps = [(data1, data0)]
        thr = c.old.self.use_threading
        out += final_state(c, maps, [_ident])
        out += positional_write_back(c, maps, [_ident])
        out += [(l, z3.Implies(one_per_task(c), f)) for l, f in lastw_facts(c, n)]
        out += [
            # (one discipline AND one input, processes: deliberately left unspecified - the code does not write back, see the finding on MDOParallelChain._execute)
            ("no-write-back:one-discipline-for-several-inputs-or-mismatch(processes)", z3.Implies(z3.And(z3.Not(one_per_task(c)), z3.Not(z3.And(L.n == 1, n == 1)), z3.Not(thr)),
                                                                                                  FA([d], data1[d] == data0[d], patterns=[data1[d]]))),
            ("one-discipline-one-input(threads):shared-discipline-holds-the-result", z3.Implies(z3.And(thr, L.n == 1, n == 1, CP.succeeds(c, 0)), data1[L.elems[0]] == CP.value(c, 0))),
        ] + in_discipline_vocabulary(c, data1) + [
            ("counter:first-discipline-under-spawn", FA([d], ne1[d] == ne0[d] + z3.If(z3.And(z3.Not(one_per_task(c)), spawn_counted(c), d == L.elems[0]), n, 0),
                                                         patterns=[ne1[d]])),
        ]
        return out


# ============================================================================ _Functor.__call__ / DiscParallelLinearization.execute
schema(FUN, {"_Functor__disc": D.TDisc, "_Functor__execute": TBool})


@register
class FunctorCall(Contract):
    """The task of the parallel linearization: linearize the discipline (Discipline.linearize: assumed deterministic) and return the pair
    (local data, Jacobian) the discipline holds afterwards."""

    targets = (FUN + ".__call__",)
    prop = ("C13",)
    c13d = True
    params = {"inputs": TVal}
    returns = TVal
    modifies = ("ghost:c13d_data", "ghost:c13d_jac")
    raises = {"BaseException": lambda c: D.lin_raises(c.old.self._Functor__disc, c.old.inputs, c.old.self._Functor__execute)}

    def ensures(self, c):
        d, x, e = c.old.self._Functor__disc, c.old.inputs, c.old.self._Functor__execute
        dd = z3.Const("d!fc", DiscS)
        return [
            ("returns-the-data-and-the-jacobian-of-this-linearization", c.result == D.wd_mk(D.lin_data(d, x, e), D.lin_jac(d, x, e))),
            ("discipline-holds-them", z3.And(G1(c, "c13d_data")[d] == D.lin_data(d, x, e), G1(c, "c13d_jac")[d] == D.lin_jac(d, x, e))),
            ("other-disciplines-untouched", FA([dd], z3.Implies(dd != d, z3.And(G1(c, "c13d_data")[dd] == G0(c, "c13d_data")[dd], G1(c, "c13d_jac")[dd] == G0(c, "c13d_jac")[dd])),
                                               patterns=[G1(c, "c13d_data")[dd]])),
        ]


LIN_EXECUTE = z3.Bool("c13d_linearization_executes_first")  # the `execute` flag given to DiscParallelLinearization.__init__ (held by the functors)


def functor_semantics():
    """The verified contract of _Functor.__call__ as the meaning of the task callable functor_of(d, e) (outcome of the task: task_raises /
    task_value of plug_parallel)."""
    d = z3.Const("d!fs", DiscS)
    x = z3.Const("x!fs", P.ValS)
    e = z3.Bool("e!fs")
    f = D.functor_of(d, e)
    return [("functor:raises-iff-the-linearization-does", FA([d, x, e], P.task_raises(f, x) == D.lin_raises(d, x, e), patterns=[P.task_raises(f, x)])),
            ("functor:returns-data-and-jacobian", FA([d, x, e], P.task_value(f, x) == D.wd_mk(D.lin_data(d, x, e), D.lin_jac(d, x, e)), patterns=[P.task_value(f, x)])),
            ("worker-data:projections", D.wd_axioms()[0]),
            ("worker-data:is-not-an-exception", FA([d, x, e], z3.Not(P.is_exc(D.wd_mk(D.lin_data(d, x, e), D.lin_jac(d, x, e)))), patterns=[D.wd_mk(D.lin_data(d, x, e), D.lin_jac(d, x, e))]))]


def inv_writeback_lin(c, k):
    maps = [(G1(c, "c13d_data"), loop_entry_map(c, "c13d_data")), (G1(c, "c13d_jac"), loop_entry_map(c, "c13d_jac"))]
    return written_back(c, k, maps, [D.wd_io, D.wd_jac]) + lastw_distinct(c, k)


def _bound(c, name):
    from pyvc.values import UNBOUND

    return c.locals.get(name, UNBOUND) is not UNBOUND


def some_task_fails(c):
    i = z3.Int("i!sf")
    return z3.Exists([i], z3.And(0 <= i, i < CP.n_tasks(c), z3.Not(CP.succeeds(c, i))))


@register
class LinExecute(_Wrapper):
    """Returned list of Jacobians positional (None for a failed task); with one discipline per input, discipline i holds the local data and the
    Jacobian of result i (later task of the same discipline wins, failed task: untouched); a single discipline holds those of result 0 (as
    coded); mismatching lengths: no write-back; parent-side counters of the first discipline under spawn as coded."""

    targets = (DPL + ".execute",)
    returns = TList(TVal)
    c13d_truth = True
    modifies = CP.EXEC_GHOSTS + ("ghost:c13d_data", "ghost:c13d_jac", "ghost:c13d_nexec", "ghost:c13d_nlin")
    loops = {0: LoopSpec(anchor=None, inv=inv_writeback_lin, modifies=("ghost:c13d_data", "ghost:c13d_jac"),
                         local_types={"disc": D.TDisc, "output": TVal})}
    raises = {**_Wrapper.raises,
              # ordered_outputs[0] of an empty list (one discipline or mismatching lengths, no input); without any discipline every task fails and
              # self._disciplines[0] is not reached
              "IndexError": lambda c: z3.And(z3.Not(one_per_task(c)), CP.n_tasks(c) == 0)}

    def requires(self, c):
        return self._requires(c) + workers_are(c, lambda d: D.functor_of(d, LIN_EXECUTE))

    def axioms(self, c):
        return lastw_axioms(c) + functor_semantics()

    def finding_regions(self, c):
        return {"some-task-fails": some_task_fails(c)}

    ghost_defs = {WRITE_BACK_HEADER: lambda c: {"c13d_data": lambda g: thread_effects(c, g, G1(c, "c13d_data"), D.wd_io),
                                                "c13d_jac": lambda g: thread_effects(c, g, G1(c, "c13d_jac"), D.wd_jac)}}

    def ensures(self, c):
        n = CP.n_tasks(c)
        L = discs(c)
        d = z3.Const("d!le", DiscS)
        maps = [(G1(c, "c13d_data"), G0(c, "c13d_data")), (G1(c, "c13d_jac"), G0(c, "c13d_jac"))]
        projs = [D.wd_io, D.wd_jac]
        ne0, ne1, nl0, nl1 = G0(c, "c13d_nexec"), G1(c, "c13d_nexec"), G0(c, "c13d_nlin"), G1(c, "c13d_nlin")
        v0 = CP.value(c, 0)
        ok0 = CP.succeeds(c, 0)
        single = L.n == 1
        thr = c.old.self.use_threading
        # the positional-result clause, split at the known finding (failed tasks are dropped from the returned list): proved whenever no task
        # fails; the residual `with failed tasks` is the finding (known_findings.json) - it is generated on the paths of the write-back loop
        # only (the return statement is the same on every path; the residual cannot be decided by the solvers and costs a time-out per path)
        fails = some_task_fails(c)
        pos = result_positional(c, c.result, D.wd_jac)
        out = [(l, z3.Implies(z3.Not(fails), f)) for l, f in pos]
        if _bound(c, "disc") or not _bound(c, "output_0"):
            # (stated without the guard: the check proves it outside the finding's region; a proved-false-looking guard would only slow later proofs down)
            out.append(("result:failed-tasks-keep-their-slot", z3.And(*[f for _, f in pos])))
        out += final_state(c, maps, projs)
        out += positional_write_back(c, maps, projs)
        out += [(l, z3.Implies(one_per_task(c), f)) for l, f in lastw_facts(c, n)]
        for t, ((m1, m0), proj) in enumerate(zip(maps, projs)):
            out.append((f"single-discipline:holds-result-0(processes):{t}", z3.Implies(z3.And(z3.Not(one_per_task(c)), z3.Not(thr)),
                                                                                          FA([d], m1[d] == z3.If(z3.And(single, ok0, d == L.elems[0]), proj(v0), m0[d]), patterns=[m1[d]]))))
            out.append((f"single-discipline:holds-result-0:{t}", z3.Implies(z3.And(z3.Not(one_per_task(c)), single, ok0), m1[L.elems[0]] == proj(v0))))
        counted = z3.And(z3.Not(one_per_task(c)), ok0, spawn_counted(c), D.val_truth(D.wd_io(v0)))
        out += [
            ("counter:executions-of-first-discipline-under-spawn", FA([d], ne1[d] == ne0[d] + z3.If(z3.And(counted, d == L.elems[0]), n, 0), patterns=[ne1[d]])),
            ("counter:linearizations-of-first-discipline-under-spawn", FA([d], nl1[d] == nl0[d] + z3.If(z3.And(counted, d == L.elems[0]), n, 0), patterns=[nl1[d]])),
        ]
        return out


# ============================================================================ MDOParallelChain._execute
from pyvc.plug_graph import out_names  # noqa: E402
from pyvc.values import StrS, TDict, TObj, TStr  # noqa: E402

PAR = "gemseo.core.chains.parallel_chain.MDOParallelChain"
IOCLS = "gemseo.core.discipline.io.IO"
DATA = TDict(TStr, TVal)
schema(IOCLS + "#c13d", {"_IO__data": DATA})
schema(PAR + "#c13d", {"_ProcessDiscipline__disciplines": DLIST, "io": TObj(IOCLS, schema_key=IOCLS + "#c13d"), "parallel_execution": TObj(DPE), "_use_deep_copy": TBool})

pm = z3.Function("c13d_chain_member", Int, StrS, z3.BoolSort())  # keys / values of the chain's data after the outputs of the first k disciplines
pv = z3.Function("c13d_chain_value", Int, StrS, P.ValS)


def chain_pack(s0):
    d0 = s0.io._IO__data
    return D.data_pack(d0.member, d0.vals)


def chain_res(s0, k):
    """What discipline k returns when executed on the chain's data."""
    L = s0._ProcessDiscipline__disciplines
    return P.task_value(D.exec_of(L.elems[k]), chain_pack(s0))


def chain_axioms(s0):
    """Definition of the sequential update: F(0) = data, F(k+1) = F(k) updated with the OUTPUTS of discipline k executed on the chain's
    data (a later discipline wins on a clash)."""
    L = s0._ProcessDiscipline__disciplines
    d0 = s0.io._IO__data
    k = z3.Int("k!ca")
    x = z3.Const("x!ca", StrS)
    o = out_names(L.elems[k])[x]
    return [
        ("update-def:0", FA([x], z3.And(pm(0, x) == d0.member[x], pv(0, x) == d0.vals[x]), patterns=[pm(0, x)])),
        ("update-def:keys", FA([k, x], z3.Implies(k >= 0, pm(k + 1, x) == z3.Or(pm(k, x), o)), patterns=[pm(k + 1, x)])),
        ("update-def:values", FA([k, x], z3.Implies(k >= 0, pv(k + 1, x) == z3.If(o, D.data_get(chain_res(s0, k), x), pv(k, x))), patterns=[pv(k + 1, x)])),
    ]


def execute_returns_outputs():
    """Discipline.execute validates its output data: the returned data has every name of the output grammar."""
    d = z3.Const("d!ro", DiscS)
    x = z3.Const("x!ro", P.ValS)
    k = z3.Const("k!ro", StrS)
    v = P.task_value(D.exec_of(d), x)
    return ("discipline-execute-returns-every-output", FA([d, x, k], z3.Implies(out_names(d)[k], D.data_has(v, k)), patterns=[D.data_has(v, k)]))


def chain_data_is(s0, s1, k):
    d1 = s1.io._IO__data
    x = z3.Const("x!cd", StrS)
    return [
        ("data:keys-are-the-sequential-update", FA([x], d1.member[x] == pm(k, x), patterns=[d1.member[x]])),
        ("data:values-are-the-sequential-update", FA([x], z3.Implies(d1.member[x], d1.vals[x] == pv(k, x)), patterns=[d1.vals[x]])),
    ]


def _chain_inv(c, k):
    return chain_data_is(c.old.self, c.new.self, k)


@register
class GetInputDataCopies(Contract):
    targets = (PAR + "._get_input_data_copies",)
    prop = ("C13",)
    self_schema = PAR + "#c13d"
    returns = TList(TVal)
    trusted = True
    description = ("assumed: returns one mapping per discipline, each with the content of the chain's data (the very object, its arrays made read-only, or deep "
                   "copies): as ONE task input value data_pack(keys, values); the chain's data itself is not modified (numpy flags / deepcopy: out of reach)")

    def ensures(self, c):
        s0 = c.old.self
        i = z3.Int("i!gi")
        r = c.result
        return [("one-copy-per-discipline", r.n == s0._ProcessDiscipline__disciplines.n),
                ("copies-have-the-content-of-the-data", FA([i], z3.Implies(z3.And(0 <= i, i < r.n), r.elems[i] == chain_pack(s0)), patterns=[r.elems[i]]))]


class _PEView:
    """`c` as seen by the specification functions of the parallel execution: self = the chain's parallel execution object."""

    def __init__(self, c, inputs_n, pack):
        self._c = c
        pe_old = c.old.self.parallel_execution

        class _Inputs:
            n = inputs_n
            elems = z3.K(Int, pack)

        class _Old:
            self = pe_old
            inputs = _Inputs

        self.old = _Old

    def __getattr__(self, name):
        return getattr(self._c, name)


def some_discipline_fails(c):
    s0 = c.old.self
    L = s0._ProcessDiscipline__disciplines
    i = z3.Int("i!df")
    x = chain_pack(s0)
    f = D.exec_of(L.elems[i])
    return z3.Exists([i], z3.And(0 <= i, i < L.n, z3.Or(P.task_raises(f, x), P.is_exc(P.task_value(f, x)))))


@register
class ParallelChainExecute(Contract):
    """``io.data`` after the call = the chain's data updated, in list order, with the outputs of every discipline executed on the chain's (initial)
    data - the update a sequential loop over the disciplines performs (a later discipline wins on a common output name)."""

    targets = (PAR + "._execute",)
    prop = ("C13",)
    c13d = True
    c13d_data_items = True
    self_schema = PAR + "#c13d"
    modifies = ("self.io",) + CP.EXEC_GHOSTS + ("ghost:c13d_data", "ghost:c13d_nexec")
    loops = {0: LoopSpec(anchor="self.disciplines", inv=_chain_inv, modifies=("self.io",))}
    raises = {"AssertionError": lambda c: z3.And(P.CUR_DAEMONIC, z3.Not(c.old.self.parallel_execution.use_threading), c.old.self._ProcessDiscipline__disciplines.n >= 1)}

    def _pe(self, c):
        s0 = c.old.self
        return _PEView(c, s0._ProcessDiscipline__disciplines.n, chain_pack(s0))

    def requires(self, c):
        s0 = c.old.self
        pe = s0.parallel_execution
        L, L2 = s0._ProcessDiscipline__disciplines, pe._disciplines
        i = z3.Int("i!pc")
        v = z3.Const("v!pc", P.ValS)
        cc = self._pe(c)
        out = [(f"parallel-execution:{l}", f) for l, f in CP.Execute().requires(cc) + workers_are(cc, D.exec_of)]
        out += [
            # __init__: DiscParallelExecution(self.disciplines, n_processes, use_threading=use_threading)
            ("inv:the-parallel-execution-runs-the-chain-disciplines", z3.And(L2.n == L.n, FA([i], z3.Implies(z3.And(0 <= i, i < L.n), L2.elems[i] == L.elems[i]), patterns=[L2.elems[i]]))),
            # ... with the default exceptions_to_re_raise=()
            ("inv:no-exception-class-is-re-raised", FA([v], z3.Not(P.inst_of(v, pe._CallableParallelExecution__exceptions_to_re_raise)),
                                                        patterns=[P.inst_of(v, pe._CallableParallelExecution__exceptions_to_re_raise)])),
        ]
        return out

    def axioms(self, c):
        return chain_axioms(c.old.self) + [returns_data(), execute_returns_outputs()]

    def finding_regions(self, c):
        s0 = c.old.self
        single_in_processes = z3.And(s0._ProcessDiscipline__disciplines.n == 1, z3.Not(s0.parallel_execution.use_threading))
        return {"a-discipline-fails-or-single-discipline-in-processes": z3.Or(some_discipline_fails(c), single_in_processes)}

    def ensures(self, c):
        s0, s1 = c.old.self, c.new.self
        return chain_data_is(s0, s1, s0._ProcessDiscipline__disciplines.n)

