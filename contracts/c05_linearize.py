"""C05 (continued) - the LINEARIZE side of the discipline cache protocol (Discipline.linearize and helpers).

(imported by contracts/c05_more.py, which is the module registered in PROPS["C05"]["modules"])

A ``Discipline`` holding a SimpleCache (the default policy), seen through the SimpleCache contracts of c05_caches.py and the
execution protocol of c05_discipline.py.  ``Discipline.jac`` is a nested dictionary ``{output: {input: array address}}``; the cache
sees Jacobian data as a flat dictionary of arrays keyed by ``jac_pair_key(output, input)`` (assumed key renaming, pyvc/plug_c05lin.py).

Environment (assumed contracts, counted by ghosts): ``_execute_monitored`` (``_run``, ghost ``disc_runs``; a run may provide a Jacobian:
``run_sets_jacobian(run number)``), ``_compute_jacobian`` / ``DisciplineJacApprox.compute_approx_jac`` (ghost ``disc_linearizations``
counts the calls, ghost ``disc_lin_jac`` holds the Jacobian dictionary the last call produced), ``_check_jacobian_shape``,
``ExecutionStatus.handle`` (calls its callable exactly once).
"""
from __future__ import annotations

import z3

from pyvc import contract as C
from pyvc.contract import Contract, LoopSpec, register, schema
from pyvc.plug_c05lin import ISPAIR, JAC, JROW, PAIR, no_empty_row, pair_axioms, rowm, rown, rows_wf, rowv
from pyvc.values import StrS, TBool, forall_pat, TList, TObj, TStr, TTuple, ValS, declare_ghost

from contracts.c05_caches import DATA, ENTRY, allocated, cont, content_eq, heap_preserved, kq, matches_c, sc, sc_wf
from contracts.c05_discipline import (DISC, GR, INT, IOC, SC, Prepared, _Cview, cache_same, hit_with_outputs, merged, restricted,
                                      same_dict_obj)
from contracts.c05_full_cache import content_stable

DCLS = "gemseo.core.discipline.discipline.Discipline"
LIN = DCLS + "#lin"
APPROX = "gemseo.utils.derivatives.derivatives_approx.DisciplineJacApprox"
STATUS = "gemseo.core.execution_status.ExecutionStatus"
STATS = "gemseo.core.execution_statistics.ExecutionStatistics"
NAMES = TList(TStr)
schema(APPROX, {})
schema(STATUS, {})
schema(STATS, {})
schema(LIN, {
    "jac": JAC, "_has_jacobian": TBool,
    "_differentiated_input_names": NAMES, "_differentiated_output_names": NAMES,
    "_linearization_mode": TStr, "_jac_approx": TObj(APPROX),
    "_Discipline__input_names": NAMES, "_Discipline__output_names": NAMES,
    "execution_status": TObj(STATUS), "execution_statistics": TObj(STATS),
}, bases=[DISC])
declare_ghost("disc_linearizations", INT)
declare_ghost("disc_lin_jac", JAC.sort())
# proof ghosts of linearize (set by ghost code of the Linearize contract): the prepared input data, and the input data of the cache entry when the
# computation starts; the contracts of the steps in between export "the content of these data is unchanged" as ONE ready-made equality each
declare_ghost("lin_input", DATA.sort())
declare_ghost("lin_cache_in", DATA.sort())
run_sets_jac = z3.Function("run_sets_jacobian", INT, z3.BoolSort())  # whether the n-th run of the body provides a Jacobian (sets _has_jacobian)
realpart = z3.Function("real_part", ValS, ValS)  # content of ``array.real``
APPROX_MODES = ("complex_step", "finite_differences", "centered_differences")
EXEC_MON = "gemseo.core._base_monitored_process.BaseMonitoredProcess._execute_monitored"


def S(name):
    return z3.Const(name, StrS)


def FA(vs, body, patterns=()):
    """ForAll with explicit alternative triggers where z3 accepts them (a Store / beta-reduced lambda is not a valid trigger)."""
    return forall_pat(vs, body, *patterns)


class JT:
    """View-like access to a Jacobian dictionary given as a term of sort JAC (a ghost)."""

    def __init__(self, term):
        self.member, self.vals, self.n = JAC.acc(0)(term), JAC.acc(1)(term), JAC.acc(2)(term)


def has(J, o, x):
    return z3.And(J.member[o], rowm(J, o)[x])


def blk(J, o, x):
    return rowv(J, o)[x]


def same_jac(a, b):
    """The same dictionary (same outputs bound to the same rows)."""
    return z3.And(a.member == b.member, a.vals == b.vals, a.n == b.n)


def allocated_j(J, ctr, tag="aj"):
    o, x = S(f"o!{tag}"), S(f"x!{tag}")
    return FA([o, x], z3.Implies(has(J, o, x), z3.And(blk(J, o, x) > 0, blk(J, o, x) <= ctr)), patterns=[rowv(J, o)[x]])


def jac_wf(J, ctr):
    return z3.And(allocated_j(J, ctr), rows_wf(J))


def inl(L, x):
    """x occurs in the list L (the very formula the engine builds for ``x in L``)."""
    i = z3.Int("i!in")
    return z3.Exists([i], z3.And(0 <= i, i < L.n, L.elems[i] == x))


def same_list(a, b):
    return z3.And(a.n == b.n, a.elems == b.elems)


def jac_is_flat(J, F, hJ, hF, tag="jf"):
    """The nested dictionary J (read in heap hJ) has the blocks of the flat Jacobian data F (read in hF), with equal contents."""
    o, x = S(f"o!{tag}"), S(f"x!{tag}")
    return FA([o, x], z3.And(has(J, o, x) == F.member[PAIR(o, x)], z3.Implies(has(J, o, x), hJ[blk(J, o, x)] == hF[F.vals[PAIR(o, x)]])),
                     patterns=[PAIR(o, x), rowm(J, o)[x]])


def pair_keys_only(F):
    k = kq("k!pk")
    return FA([k], z3.Implies(F.member[k], ISPAIR(k)), patterns=[F.member[k]])


def self_kept(c, jac=False, flag=False):
    """The fields of the discipline itself that are not named are unchanged."""
    s0, s1 = c.old.self, c.new.self
    out = [same_list(s1._differentiated_input_names, s0._differentiated_input_names), same_list(s1._differentiated_output_names, s0._differentiated_output_names),
           s1._linearization_mode == s0._linearization_mode, s1.name == s0.name]
    if jac:
        out.append(same_jac(s1.jac, s0.jac))
    if flag:
        out.append(s1._has_jacobian == s0._has_jacobian)
    return z3.And(*out)


def stable_t(c, term, tag):
    """If the dictionary of arrays ``term`` was allocated at entry, its content at exit is its content at entry (one equality of content terms)."""
    from contracts.c05_caches import contf
    m, v = DATA.acc(0)(term), DATA.acc(1)(term)
    k = kq(f"k!{tag}")
    h0, h1 = c.old_sym("arr", ValS), c.new_sym("arr", ValS)
    return z3.Implies(FA([k], z3.Implies(m[k], z3.And(v[k] > 0, v[k] <= c.old_ctr))), contf(m, v, h1) == contf(m, v, h0))


def ghost_stable(c):
    return [("linearize-input-content-stable", stable_t(c, c.old_ghost("lin_input", DATA.sort()), "gs1")),
            ("linearize-cache-inputs-content-stable", stable_t(c, c.old_ghost("lin_cache_in", DATA.sort()), "gs2"))]


def cache_wf(c, which="old"):
    """The SimpleCache is well formed (c05_caches) and its Jacobian data only have pair keys."""
    cc = _Cview(c, None)
    _, _, j = sc(cc, which)
    return z3.And(sc_wf(cc, which), pair_keys_only(j))


class _Lin(Contract):
    prop = ("C05",)
    c05lin = True
    self_schema = LIN

    def axioms(self, c):
        return pair_axioms()


# ------------------------------------------------------------------------------- _get_differentiated_io
def _pairs(c):
    r = c.result_value
    return C.View(c._new_heap, r[0], c.st), C.View(c._new_heap, r[1], c.st)


def diff_io_spec(s, X, O, all_):
    """(X, O) are the names to differentiate with respect to / to differentiate: all the grammar names, or the declared ones."""
    x, i = S("x!di"), z3.Int("i!di")
    gi, go = s.io.input_grammar._names, s.io.output_grammar._names
    di, do = s._differentiated_input_names, s._differentiated_output_names
    return [
        ("all:every-input-name", z3.Implies(all_, FA([x], z3.Implies(gi.member[x], inl(X, x)), patterns=[gi.member[x]]))),
        ("all:only-input-names", z3.Implies(all_, forall_pat([i], z3.Implies(z3.And(0 <= i, i < X.n), gi.member[X.elems[i]]), X.elems[i]))),
        ("all:every-output-name", z3.Implies(all_, FA([x], z3.Implies(go.member[x], inl(O, x)), patterns=[go.member[x]]))),
        ("all:only-output-names", z3.Implies(all_, forall_pat([i], z3.Implies(z3.And(0 <= i, i < O.n), go.member[O.elems[i]]), O.elems[i]))),
        ("all:sizes", z3.Implies(all_, z3.And(X.n == gi.n, O.n == go.n))),
        ("declared:inputs", z3.Implies(z3.Not(all_), z3.And(X.n == di.n, forall_pat([i], z3.Implies(z3.And(0 <= i, i < X.n), X.elems[i] == di.elems[i]), X.elems[i])))),
        ("declared:outputs", z3.Implies(z3.Not(all_), z3.And(O.n == do.n, forall_pat([i], z3.Implies(z3.And(0 <= i, i < O.n), O.elems[i] == do.elems[i]), O.elems[i])))),
    ]


@register
class GetDifferentiatedIO(_Lin):
    targets = (DCLS + "._get_differentiated_io",)
    params = {"compute_all_jacobians": TBool}
    returns = TTuple(NAMES, NAMES)

    def ensures(self, c):
        X, O = _pairs(c)
        return diff_io_spec(c.old.self, X, O, c.old.compute_all_jacobians)


# ------------------------------------------------------------------------------- assumed environment
def refl_axiom():
    """compare_dict_of_arrays(d, d, tolerance) holds (NaN aside): needed to know that data just stored are found again."""
    from contracts.c05_caches import CONTENT, wtol
    x, t = z3.Const("x!rf", CONTENT), z3.Real("t!rf")
    return [("assumed:closeness-is-reflexive", FA([x, t], wtol(x, x, t), patterns=[wtol(x, x, t)]))]


@register
class ExecuteMonitoredLin(_Lin):
    targets = (EXEC_MON,)
    variant = "lin"
    self_class = DCLS
    modifies = ("self", "self.io", "heap:arr", "ghost:disc_runs")
    trusted = True
    description = ("assumed (Discipline): one run of the discipline body (_run), as for BaseDiscipline; in addition the run number n may provide a Jacobian "
                   "(run_sets_jacobian(n)): it then sets _has_jacobian and binds self.jac to allocated Jacobian data without empty row; otherwise "
                   "_has_jacobian and self.jac are untouched; existing arrays are not modified in place")

    def ensures(self, c):
        runs0 = c.old_ghost("disc_runs", INT)
        s0, s1 = c.old.self, c.new.self
        sets = run_sets_jac(runs0)
        return [("counted", c.new_ghost("disc_runs", INT) == runs0 + 1),
                ("allocated", allocated(s1.io._IO__data, c.new_ctr)), ("heap-preserved", heap_preserved(c)), ("content-stable", content_stable(c)),
                ("flag", s1._has_jacobian == z3.Or(s0._has_jacobian, sets)),
                ("no-jacobian:untouched", z3.Implies(z3.Not(sets), same_jac(s1.jac, s0.jac))),
                ("jacobian:wf", z3.Implies(sets, z3.And(jac_wf(s1.jac, c.new_ctr), no_empty_row(s1.jac)))),
                ("self-kept", self_kept(c))]


# ------------------------------------------------------------------------------- the cache protocol of a Discipline
@register
class SetDataFromCacheLin(_Lin):
    targets = (DCLS + "._set_data_from_cache",)
    params = {"cache_entry": ENTRY}
    modifies = ("self", "self.io")

    def requires(self, c):
        return [("entry-jacobian-has-pair-keys", pair_keys_only(c.old.cache_entry.jacobian))]

    def ensures(self, c):
        e, d1 = c.old.cache_entry, c.new.self.io._IO__data
        k, o, x = kq("k!sd"), S("o!sd"), S("x!sd")
        J1, F = c.new.self.jac, e.jacobian
        return [("names", FA([k], d1.has(k) == z3.Or(e.inputs.has(k), e.outputs.has(k)))),
                ("outputs-override-inputs", FA([k], z3.Implies(d1.has(k), d1.get(k) == z3.If(e.outputs.has(k), e.outputs.get(k), e.inputs.get(k))))),
                ("entry-untouched", z3.And(same_dict_obj(c.new.cache_entry.inputs, e.inputs), same_dict_obj(c.new.cache_entry.outputs, e.outputs),
                                           same_dict_obj(c.new.cache_entry.jacobian, e.jacobian))),
                # the Jacobian is flagged valid for the loaded data, and is the entry's one (the very arrays), or empty when the entry has none
                ("jacobian-flagged", c.new.self._has_jacobian),
                ("jacobian-is-the-entry's", FA([o, x], z3.And(has(J1, o, x) == F.member[PAIR(o, x)], z3.Implies(has(J1, o, x), blk(J1, o, x) == F.vals[PAIR(o, x)])),
                                                      patterns=[PAIR(o, x), rowm(J1, o)[x], rowv(J1, o)[x]])),
                ("jacobian-empty-iff-the-entry-has-none", (J1.n == 0) == (F.n == 0)),
                ("jacobian-rows", z3.And(no_empty_row(J1), rows_wf(J1))),
                ("self-kept", self_kept(c))]


def stored_after_lin(c, inp, h_inp, produced, h_prod, hasj, J, hJ):
    """SimpleCache state after Discipline._store_cache(inp): the outputs as for BaseDiscipline (c05_discipline.stored_after), and, when a Jacobian
    is flagged valid (hasj), the Jacobian J cached under the same input data unless the entry found already holds one."""
    from contracts.c05_discipline import stored_after
    cc = _Cview(c, inp)
    i0, o0, j0 = sc(cc)
    i1, o1, j1 = sc(cc, "new")
    h0, h1 = c.old_sym("arr", ValS), c.new_sym("arr", ValS)
    s = c.old.self
    names = s.io.output_grammar._names
    hit = z3.And(i0.n != 0, matches_c(cont(inp, h_inp), cont(i0, h0), s.cache._tolerance))
    nog = names.n == 0
    out = [(f"no-jacobian:{l}", z3.Implies(z3.Not(hasj), f)) for l, f in stored_after(c, inp, h_inp, produced, h_prod) if l != "cache-wf"]
    out += [
        ("jacobian:hit:inputs-kept", z3.Implies(z3.And(hasj, hit), content_eq(i1, i0, h1, h0))),
        ("jacobian:miss:inputs-stored", z3.Implies(z3.And(hasj, z3.Not(hit)), content_eq(i1, inp, h1, h_inp))),
        ("jacobian:hit-with-outputs:outputs-kept", z3.Implies(z3.And(hasj, hit, o0.n != 0), content_eq(o1, o0, h1, h0))),
        ("jacobian:hit-without-outputs:outputs-filled", z3.Implies(z3.And(hasj, hit, o0.n == 0, z3.Not(nog)), restricted(o1, produced, names, h1, h_prod))),
        ("jacobian:hit-without-outputs:no-output-grammar:no-outputs-stored", z3.Implies(z3.And(hasj, hit, o0.n == 0, nog), o1.n == 0)),
        ("jacobian:miss:outputs-stored", z3.Implies(z3.And(hasj, z3.Not(hit), z3.Not(nog), inp.n != 0), restricted(o1, produced, names, h1, h_prod))),
        # (a SimpleCache never finds empty input data again: caching the Jacobian of a discipline without inputs drops the outputs just stored)
        ("jacobian:miss:no-output-grammar-or-no-input:no-outputs-stored", z3.Implies(z3.And(hasj, z3.Not(hit), z3.Or(nog, inp.n == 0)), o1.n == 0)),
        # the Jacobian flagged valid is cached under these inputs, unless the entry found already holds a Jacobian (which is then kept)
        ("jacobian:hit-with-jacobian:kept", z3.Implies(z3.And(hasj, hit, j0.n != 0), content_eq(j1, j0, h1, h0))),
        ("jacobian:otherwise:stored", z3.Implies(z3.And(hasj, z3.Not(z3.And(hit, j0.n != 0))), jac_is_flat(J, j1, hJ, h1))),
        ("cache-wf", cache_wf(c, "new")),
        ("tolerance-kept", c.new.self.cache._tolerance == s.cache._tolerance),
        # the content of the entry's inputs afterwards as one term (array extensionality done once, here, for the callers)
        ("inputs-content:hit", z3.Implies(z3.And(z3.Or(hasj, z3.Not(nog)), hit), z3.And(cont(i1, h1) == cont(i0, h0), i1.n != 0))),
        ("inputs-content:miss", z3.Implies(z3.And(z3.Or(hasj, z3.Not(nog)), z3.Not(hit)), z3.And(cont(i1, h1) == cont(inp, h_inp), (i1.n == 0) == (inp.n == 0)))),
        ("inputs-content:nothing-stored", z3.Implies(z3.And(z3.Not(hasj), nog), z3.And(cont(i1, h1) == cont(i0, h0), i1.n == i0.n))),
    ]
    return out


def inputs_content(c, inp, h_inp, cond):
    """cond => the content of the entry's inputs afterwards, as ONE term (array extensionality done once, here, for the callers): that of the
    entry found, or that of the input data."""
    cc = _Cview(c, inp)
    i0, _, _ = sc(cc)
    i1, _, _ = sc(cc, "new")
    h0, h1 = c.old_sym("arr", ValS), c.new_sym("arr", ValS)
    hit = z3.And(i0.n != 0, matches_c(cont(inp, h_inp), cont(i0, h0), c.old.self.cache._tolerance))
    return [("inputs-content:hit", z3.Implies(z3.And(cond, hit), z3.And(cont(i1, h1) == cont(i0, h0), i1.n != 0))),
            ("inputs-content:miss", z3.Implies(z3.And(cond, z3.Not(hit)), z3.And(cont(i1, h1) == cont(inp, h_inp), (i1.n == 0) == (inp.n == 0)))),
            ("inputs-content:stable", cont(inp, h1) == cont(inp, h0))]


from contracts.c05_caches import SimpleCacheCacheJacobian as _CacheJacobian, SimpleCacheCacheOutputs as _CacheOutputs  # noqa: E402
from contracts.c05_discipline import StoreCache as _BaseStoreCache  # noqa: E402

CACHE_OUT, CACHE_JAC = SC + ".cache_outputs", SC + ".cache_jacobian"


@register
class CacheOutputsLin(_CacheOutputs):
    """SimpleCache.cache_outputs once more: the tolerance is kept (needed to compose two cache operations)."""

    variant = "lin"

    def ensures(self, c):
        return super().ensures(c) + [("tolerance-kept", c.new.self._tolerance == c.old.self._tolerance)]


@register
class CacheJacobianLin(_CacheJacobian):
    """SimpleCache.cache_jacobian once more: the tolerance is kept.  The clause ``no-alias-jacobian`` of the variant-less contract (a known finding:
    the caller's dictionary is stored by reference) is NOT part of this summary, so the linearize contracts do not rely on it."""

    variant = "lin"

    def finding_regions(self, c):
        return {}

    def ensures(self, c):
        return [(l, f) for l, f in super().ensures(c) if l != "no-alias-jacobian"] + [("tolerance-kept", c.new.self._tolerance == c.old.self._tolerance)]


@register
class StoreCacheBaseLin(_BaseStoreCache):
    """BaseDiscipline._store_cache once more, with the content of the stored inputs exported as one term (used by Discipline._store_cache)."""

    variant = "lin"
    callee_variants = {CACHE_OUT: "lin"}

    def ensures(self, c):
        names = c.old.self.io.output_grammar._names
        cc = _Cview(c, None)
        i0, _, _ = sc(cc)
        i1, _, _ = sc(cc, "new")
        h0, h1 = c.old_sym("arr", ValS), c.new_sym("arr", ValS)
        return super().ensures(c) + inputs_content(c, c.old.input_data, h0, names.n != 0) + [
            ("inputs-content:no-output-grammar", z3.Implies(names.n == 0, z3.And(cont(i1, h1) == cont(i0, h0), i1.n == i0.n))),
            ("tolerance-kept", c.new.self.cache._tolerance == c.old.self.cache._tolerance)]


@register
class StoreCacheLin(_Lin):
    callee_variants = {DISC + "._store_cache": "lin", CACHE_JAC: "lin"}
    targets = (DCLS + "._store_cache",)
    params = {"input_data": DATA}
    modifies = ("self.cache", "heap:arr")

    def axioms(self, c):
        return pair_axioms() + refl_axiom()

    def requires(self, c):
        s = c.old.self
        return [("cache-wf", cache_wf(c)), ("allocated", z3.And(allocated(c.old.input_data, c.old_ctr), allocated(s.io._IO__data, c.old_ctr))),
                ("a-valid-jacobian-is-allocated-without-empty-row", z3.Implies(s._has_jacobian, z3.And(jac_wf(s.jac, c.old_ctr), no_empty_row(s.jac))))]

    def ensures(self, c):
        h0 = c.old_sym("arr", ValS)
        s = c.old.self
        return stored_after_lin(c, c.old.input_data, h0, s.io._IO__data, h0, s._has_jacobian, s.jac, h0) + [
            ("heap-preserved", heap_preserved(c)), ("content-stable", content_stable(c))]


def rep_inv(s, ctr):
    """A Jacobian flagged valid is made of allocated arrays and has no empty row."""
    return z3.Implies(s._has_jacobian, z3.And(jac_wf(s.jac, ctr), no_empty_row(s.jac)))


from contracts.c05_discipline import CanLoadCache as _BaseCanLoad, Execute as _BaseExecute  # noqa: E402

CAN_LOAD = DISC + ".__can_load_cache"


@register
class CanLoadCacheLin(_BaseCanLoad):
    """BaseDiscipline.__can_load_cache for a Discipline: ``_set_data_from_cache`` is the override, which also loads the Jacobian of the entry."""

    variant = "lin"
    c05lin = True
    self_class = DCLS
    self_schema = LIN
    modifies = ("self", "self.io")

    def axioms(self, c):
        return pair_axioms()

    def requires(self, c):
        return super().requires(c) + [("cache-jacobian-has-pair-keys", cache_wf(c))]

    def ensures(self, c):
        inp = c.old.input_data
        hit = hit_with_outputs(c, inp)
        _, _, j0 = sc(_Cview(c, inp))
        h = c.old_sym("arr", ValS)
        s0, s1 = c.old.self, c.new.self
        return super().ensures(c) + [
            ("hit:jacobian-flagged", z3.Implies(hit, s1._has_jacobian)),
            ("hit:jacobian-is-the-cached-one", z3.Implies(hit, jac_is_flat(s1.jac, j0, h, h))),
            ("hit:jacobian-empty-iff-none-cached", z3.Implies(hit, (s1.jac.n == 0) == (j0.n == 0))),
            ("hit:jacobian-wf", z3.Implies(hit, z3.And(jac_wf(s1.jac, c.old_ctr), no_empty_row(s1.jac)))),
            ("miss:jacobian-untouched", z3.Implies(z3.Not(hit), z3.And(same_jac(s1.jac, s0.jac), s1._has_jacobian == s0._has_jacobian))),
            ("self-kept", self_kept(c)),
        ]


def hit_entry(c, inp):
    """The lookup of ``inp`` in the discipline's cache finds the entry (whatever it holds)."""
    s = c.old.self.cache
    i = s._SimpleCache__inputs
    return z3.And(i.n != 0, matches_c(cont(inp, c.old_sym("arr", ValS)), cont(i, c.old_sym("arr", ValS)), s._tolerance))


def exec_spec(c, has0):
    """Discipline.execute / BaseDiscipline.execute on a Discipline whose flag is ``has0`` when the lookup is made."""
    p = Prepared(c.old.input_data)
    hit = hit_with_outputs(c, p)
    hit_e = hit_entry(c, p)
    i0, o0, j0 = sc(_Cview(c, p))
    i1, _, _ = sc(_Cview(c, p), "new")
    h0, h1 = c.old_sym("arr", ValS), c.new_sym("arr", ValS)
    r = c.result
    s0, s1 = c.old.self, c.new.self
    runs0, runs1 = c.old_ghost("disc_runs", INT), c.new_ghost("disc_runs", INT)
    sets = run_sets_jac(runs0)
    has_after = z3.Or(has0, sets)
    out = [
        ("body-runs-iff-the-lookup-returned-no-outputs", runs1 == runs0 + z3.If(hit, 0, 1)),
        ("hit:returns-the-inputs-merged-with-the-cached-outputs", z3.Implies(hit, merged(r, p, o0, h1, h0))),
        ("hit:cache-unchanged", z3.Implies(hit, cache_same(c))),
        ("returns-the-local-data", same_dict_obj(r, s1.io._IO__data)),
        ("heap-preserved", heap_preserved(c)), ("content-stable", content_stable(c)),
        # (e) the flag: a Jacobian is valid afterwards iff it was loaded with the entry or provided by this very run
        ("hit:jacobian-flagged", z3.Implies(hit, s1._has_jacobian)),
        ("hit:jacobian-is-the-cached-one", z3.Implies(hit, jac_is_flat(s1.jac, j0, h1, h0))),
        ("hit:jacobian-empty-iff-none-cached", z3.Implies(hit, (s1.jac.n == 0) == (j0.n == 0))),
        ("miss:jacobian-flagged-iff-provided-by-the-run", z3.Implies(z3.Not(hit), s1._has_jacobian == has_after)),
        ("miss:jacobian-untouched-unless-provided-by-the-run", z3.Implies(z3.And(z3.Not(hit), z3.Not(sets)), same_jac(s1.jac, s0.jac))),
        ("jacobian-wf", rep_inv(s1, c.new_ctr)),
        ("self-kept", self_kept(c)),
        ("local-data-allocated", allocated(s1.io._IO__data, c.new_ctr)),
        ghost_stable(c)[0],
        ("hit:inputs-content", z3.Implies(hit, cont(i1, h1) == cont(i0, h0))),
        # (for a caller passing data that are already prepared: the two contents as one equality)
        ("prepared-input-content", z3.Implies(same_dict_obj(p, c.old.input_data), cont(p, h0) == cont(c.old.input_data, h0))),
        ("prepared-input-lookup", z3.Implies(same_dict_obj(p, c.old.input_data), z3.And(hit == hit_with_outputs(c, c.old.input_data), hit_e == hit_entry(c, c.old.input_data)))),
    ]
    # miss: the pair stored is (the prepared inputs as they were at the call, the outputs in the returned data), with the Jacobian the run provided
    out += [(f"miss:{l}", z3.Implies(z3.Not(hit), f)) for l, f in stored_after_lin(c, p, h0, r, h1, has_after, s1.jac, h1) if l not in ("cache-wf", "tolerance-kept")]
    out += [("cache-wf", cache_wf(c, "new")), ("tolerance-kept", s1.cache._tolerance == s0.cache._tolerance)]
    return out


@register
class ExecuteBaseLin(_BaseExecute):
    """BaseDiscipline.execute for a Discipline (``_store_cache`` / ``_set_data_from_cache`` are the overrides)."""

    variant = "lin"
    c05lin = True
    self_class = DCLS
    self_schema = LIN
    modifies = ("self", "self.io", "self.cache", "heap:arr", "ghost:disc_runs")
    callee_variants = {CAN_LOAD: "lin", EXEC_MON: "lin"}

    def axioms(self, c):
        return pair_axioms() + refl_axiom()

    def requires(self, c):
        return super().requires(c) + [("cache-jacobian-has-pair-keys", cache_wf(c)), ("jacobian-wf", rep_inv(c.old.self, c.old_ctr))]

    def ensures(self, c):
        return exec_spec(c, c.old.self._has_jacobian)


@register
class ExecuteLin(_Lin):
    targets = (DCLS + ".execute",)
    params = {"input_data": DATA}
    returns = DATA
    modifies = ("self", "self.io", "self.cache", "heap:arr", "ghost:disc_runs")
    callee_variants = {DISC + ".execute": "lin"}

    def axioms(self, c):
        return pair_axioms() + refl_axiom()

    def requires(self, c):
        cc = _Cview(c, c.old.input_data)
        return [("cache-wf", cache_wf(c)), ("input-allocated", allocated(c.old.input_data, c.old_ctr))]

    def ensures(self, c):
        # the flag is reset before the lookup: a Jacobian valid for OLD input data is never kept for NEW data
        return exec_spec(c, z3.BoolVal(False))


# ------------------------------------------------------------------------------- the computation of the Jacobian (environment)
def lin_count(c, which="old"):
    return (c.old_ghost if which == "old" else c.new_ghost)("disc_linearizations", INT)


def lin_jac(c, which="old"):
    return JT((c.old_ghost if which == "old" else c.new_ghost)("disc_lin_jac", JAC.sort()))


def computed(c, J1):
    """One more computation; its product (ghost disc_lin_jac) is what self.jac now is: allocated Jacobian data without empty row."""
    G = lin_jac(c, "new")
    return [("counted", lin_count(c, "new") == lin_count(c) + 1),
            ("product", same_jac(J1, G)),
            ("product-wf", z3.And(jac_wf(J1, c.new_ctr), no_empty_row(J1))),
            ("heap-preserved", heap_preserved(c)), ("content-stable", content_stable(c))] + ghost_stable(c)


@register
class UserComputeJacobian(_Lin):
    targets = (DCLS + "._compute_jacobian",)
    params = {"input_names": NAMES, "output_names": NAMES}
    modifies = ("self", "heap:arr", "ghost:disc_linearizations", "ghost:disc_lin_jac")
    trusted = True
    description = ("assumed: one call of the user's _compute_jacobian (counted by the ghost disc_linearizations): self.jac is bound to arbitrary allocated "
                   "Jacobian data without empty row (recorded in the ghost disc_lin_jac); existing arrays are not modified in place; nothing else changes")

    def ensures(self, c):
        return computed(c, c.new.self.jac) + [("self-kept", self_kept(c, flag=True)), ("private-names-kept", private_kept(c))]


def private_kept(c):
    s0, s1 = c.old.self, c.new.self
    return z3.And(same_list(s1._Discipline__input_names, s0._Discipline__input_names), same_list(s1._Discipline__output_names, s0._Discipline__output_names))


@register
class ComputeApproxJac(_Lin):
    targets = (APPROX + ".compute_approx_jac",)
    params = {"output_names": NAMES, "input_names": NAMES}
    returns = JAC
    self_schema = None
    modifies = ("heap:arr", "ghost:disc_linearizations", "ghost:disc_lin_jac")
    trusted = True
    description = ("assumed: one call of DisciplineJacApprox.compute_approx_jac (counted by the ghost disc_linearizations): returns arbitrary allocated Jacobian data "
                   "without empty row (recorded in the ghost disc_lin_jac); existing arrays are not modified in place; the discipline and its cache are "
                   "left as they were (the perturbed executions of the approximation are not modelled)")

    def ensures(self, c):
        return computed(c, c.result)


def approx_mode(m):
    from pyvc.values import str_lit
    return z3.Or(*[m == str_lit(v) for v in APPROX_MODES])


@register
class PrivateComputeJacobian(_Lin):
    targets = (DCLS + ".__compute_jacobian",)
    modifies = ("self", "heap:arr", "ghost:disc_linearizations", "ghost:disc_lin_jac")

    def ensures(self, c):
        # exactly one computation, by the approximation or by the user's method; self.jac is its product
        return computed(c, c.new.self.jac) + [("self-kept", self_kept(c, flag=True)), ("private-names-kept", private_kept(c))]


def covers(J, X, O, tag="cv"):
    """Every requested output has a row holding every requested input."""
    o, x = S(f"o!{tag}"), S(f"x!{tag}")
    return FA([o, x], z3.Implies(z3.And(inl(O, o), inl(X, x)), has(J, o, x)), patterns=[rowm(J, o)[x]])


def real_parts(J1, J0, h1, h0, tag="rp"):
    """J1 has the outputs / inputs of J0 and the real parts of its blocks."""
    o, x = S(f"o!{tag}"), S(f"x!{tag}")
    return z3.And(J1.member == J0.member, J1.n == J0.n,
                  FA([o, x], z3.And(has(J1, o, x) == has(J0, o, x), z3.Implies(has(J0, o, x), h1[blk(J1, o, x)] == realpart(h0[blk(J0, o, x)]))),
                            patterns=[rowm(J1, o)[x], rowv(J1, o)[x]]))


@register
class CheckJacobianShape(_Lin):
    targets = (DCLS + "._check_jacobian_shape",)
    params = {"input_names": NAMES, "output_names": NAMES}
    modifies = ("self", "heap:arr")
    trusted = True
    raises = {"KeyError": lambda c: z3.And(c.old.self.jac.n != 0, z3.Not(covers(c.old.self.jac, c.old.input_names, c.old.output_names))), "ValueError": None}
    description = ("assumed (array shapes are not modelled): raises KeyError only when self.jac is not empty and a requested output has no row / a row of a requested "
                   "output lacks a requested input; ValueError when self.jac is empty or a block has the wrong shape (unconstrained); otherwise every requested "
                   "(output, input) block is present and the only effect is that every block of self.jac is replaced by its real part (an allocated array)")

    def ensures(self, c):
        s0, s1 = c.old.self, c.new.self
        h0, h1 = c.old_sym("arr", ValS), c.new_sym("arr", ValS)
        X, O = c.old.input_names, c.old.output_names
        o = S("o!cs")
        return [("linearized", s0.jac.n != 0), ("covers", covers(s0.jac, X, O)),
                # (consequences of the above, stated for the callers: same blocks afterwards; a requested row holds the requested inputs, so it is not empty)
                ("covers-after", covers(s1.jac, X, O)),
                ("requested-rows-not-empty", z3.Implies(X.n != 0, FA([o], z3.Implies(z3.And(s1.jac.member[o], inl(O, o)), rown(s1.jac, o) >= 1), patterns=[s1.jac.member[o]]))),
                ("real-parts", real_parts(s1.jac, s0.jac, h1, h0)), ("wf", z3.And(jac_wf(s1.jac, c.new_ctr), z3.Implies(no_empty_row(s0.jac), no_empty_row(s1.jac)))),
                ("heap-preserved", heap_preserved(c)), ("content-stable", content_stable(c)),
                ("self-kept", self_kept(c, flag=True)), ("private-names-kept", private_kept(c))] + ghost_stable(c)

    def raise_ensures(self, c, exc):
        # every raise precedes the only mutation (the final real-part loop): nothing has changed
        h0, h1 = c.old_sym("arr", ValS), c.new_sym("arr", ValS)
        return [("nothing-changed", z3.And(same_jac(c.new.self.jac, c.old.self.jac), self_kept(c, flag=True), private_kept(c), h1 == h0, c.new_ctr == c.old_ctr))]


# ------------------------------------------------------------------------------- linearize
def covers_flat(F, X, O, tag="cf"):
    o, x = S(f"o!{tag}"), S(f"x!{tag}")
    return FA([o, x], z3.Implies(z3.And(inl(O, o), inl(X, x)), F.member[PAIR(o, x)]), patterns=[PAIR(o, x)])


def restricted_jac(R, G, X, O, all_, h1, tag="rj"):
    """R = the Jacobian G restricted to the outputs O and the inputs X (everything when ``all_``), with the real parts of its blocks."""
    o, x = S(f"o!{tag}"), S(f"x!{tag}")
    keep_o = z3.Or(all_, inl(O, o))
    keep = z3.Or(all_, z3.And(inl(O, o), inl(X, x)))
    return [("rows", FA([o], R.member[o] == z3.And(G.member[o], keep_o), patterns=[R.member[o]])),
            ("blocks", FA([o, x], z3.And(has(R, o, x) == z3.And(has(G, o, x), keep), z3.Implies(has(R, o, x), h1[blk(R, o, x)] == realpart(h1[blk(G, o, x)]))),
                                 patterns=[rowm(R, o)[x], rowv(R, o)[x]]))]


def _restrict_outer(c, k):
    """After k outputs of the computed Jacobian: the rows of the outputs not requested are deleted, the kept ones are restricted to the requested inputs."""
    Jp, J = c.pre_locals["self"].jac, c.locals["self"].jac
    X, O = c.locals["input_names"], c.locals["output_names"]
    pos = Jp.pos
    o, x = S("o!r0"), S("x!r0")
    return [
        ("rows", FA([o], J.member[o] == z3.And(Jp.member[o], z3.Or(pos[o] >= k, inl(O, o))), patterns=[J.member[o], Jp.member[o]])),
        ("rows-to-come-untouched", FA([o], z3.Implies(z3.And(Jp.member[o], pos[o] >= k), J.vals[o] == Jp.vals[o]), patterns=[J.vals[o], Jp.vals[o]])),
        ("rows-done-restricted", FA([o, x], z3.Implies(z3.And(J.member[o], pos[o] < k), z3.And(rowm(J, o)[x] == z3.And(rowm(Jp, o)[x], inl(X, x)),
                                                                                                   rowv(J, o)[x] == rowv(Jp, o)[x])),
                                           patterns=[rowm(J, o)[x], rowv(J, o)[x], rowm(Jp, o)[x], rowv(Jp, o)[x]])),
    ]


def _restrict_inner(c, k):
    """After k inputs of the current row: the inputs not requested are deleted; the row is in place in self.jac, whose other rows are untouched."""
    Rp, R = c.pre_locals["jac"], c.locals["jac"]
    Jq, J = c.pre_locals["self"].jac, c.locals["self"].jac
    X = c.locals["input_names"]
    o_ = c.locals["output_name"]
    pos = Rp.pos
    x, o = S("x!r1"), S("o!r1")
    return [
        ("inputs", FA([x], R.member[x] == z3.And(Rp.member[x], z3.Or(pos[x] >= k, inl(X, x))), patterns=[R.member[x], Rp.member[x]])),
        ("blocks-untouched", R.vals == Rp.vals),
        ("same-outputs", z3.And(J.member == Jq.member, J.n == Jq.n)),
        ("the-row-is-in-place", z3.And(rowm(J, o_) == R.member, rowv(J, o_) == R.vals)),
        ("other-rows-untouched", z3.Store(J.vals, o_, Jq.vals[o_]) == Jq.vals),
        ("other-rows-untouched-pointwise", FA([o], z3.Implies(o != o_, J.vals[o] == Jq.vals[o]), patterns=[J.vals[o], Jq.vals[o]])),
    ]


def _dt(d):
    return DATA.dt.mk(d.member, d.vals, d.n)


@register
class Linearize(_Lin):
    targets = (DCLS + ".linearize",)
    params = {"input_data": DATA, "compute_all_jacobians": TBool, "execute": TBool}
    returns = JAC
    modifies = ("self", "self.io", "self.cache", "heap:arr", "ghost:disc_runs", "ghost:disc_linearizations", "ghost:disc_lin_jac", "ghost:lin_input", "ghost:lin_cache_in")
    ghost_code = {
        "input_names, output_names = self._get_differentiated_io(compute_all_jacobians)": lambda c: {"lin_input": _dt(c.locals["input_data"])},
        "self.__input_names = input_names": lambda c: {"lin_cache_in": _dt(c.locals["self"].cache._SimpleCache__inputs)},
    }
    raises = {"ValueError": None, "KeyError": None}  # from _check_jacobian_shape (shapes are not modelled; a computed Jacobian lacking a requested block)
    callee_variants = {CACHE_JAC: "lin"}
    loops = {
        0: LoopSpec(anchor="tuple(self.jac.keys())", inv=lambda c, k: _restrict_outer(c, k), modifies=("self.jac",), local_types={"jac": JROW}),
        1: LoopSpec(anchor="list(jac.keys())", inv=lambda c, k: _restrict_inner(c, k), modifies=("self.jac", "jac")),
    }

    def axioms(self, c):
        from contracts.c05_discipline import prep_m, prep_n, prep_v
        from contracts.c05_caches import dict_term
        t = dict_term(c.old.input_data)
        t2 = DATA.dt.mk(prep_m(t), prep_v(t), prep_n(t))
        return pair_axioms() + refl_axiom() + [
            ("assumed:prepare-input-data-is-idempotent", z3.And(prep_m(t2) == prep_m(t), prep_v(t2) == prep_v(t), prep_n(t2) == prep_n(t)))]

    def requires(self, c):
        return [("cache-wf", cache_wf(c)), ("input-allocated", allocated(c.old.input_data, c.old_ctr)), ("jacobian-wf", rep_inv(c.old.self, c.old_ctr)),
                ("local-data-allocated", allocated(c.old.self.io._IO__data, c.old_ctr))]

    def ensures(self, c):
        p = c.locals["input_data"]  # the prepared input data (the local is rebound by the first statement)
        X, O = c.locals["input_names"], c.locals["output_names"]
        all_, ex = c.old.compute_all_jacobians, c.old.execute
        cc = _Cview(c, p)
        i0, o0, j0 = sc(cc)
        i1, o1, j1 = sc(cc, "new")
        h0, h1 = c.old_sym("arr", ValS), c.new_sym("arr", ValS)
        s0, s1 = c.old.self, c.new.self
        tol = s0.cache._tolerance
        R = c.result
        hit_i = z3.And(i0.n != 0, matches_c(cont(p, h0), cont(i0, h0), tol))
        hit_o = z3.And(hit_i, o0.n != 0)
        usable = z3.And(j0.n != 0, covers_flat(j0, X, O))
        early = z3.Or(X.n == 0, O.n == 0)
        runs0, runs1 = c.old_ghost("disc_runs", INT), c.new_ghost("disc_runs", INT)
        n0, n1 = lin_count(c), lin_count(c, "new")
        G = lin_jac(c, "new")
        sets = run_sets_jac(runs0)
        reuse_state = z3.And(s0._has_jacobian, s0.jac.n != 0, covers(s0.jac, X, O))
        o, x = S("o!ln"), S("x!ln")
        stored_real = FA([o, x], z3.And(has(R, o, x) == j0.member[PAIR(o, x)], z3.Implies(has(R, o, x), h1[blk(R, o, x)] == realpart(h0[j0.vals[PAIR(o, x)]]))),
                                patterns=[PAIR(o, x), rowm(R, o)[x]])
        computed_ = n1 == n0 + 1
        main = z3.And(z3.Not(early), ex)
        out = diff_io_spec(s0, X, O, all_)
        out = [(f"requested:{l}", f) for l, f in out]
        out += [
            ("the-lookups-use-the-prepared-input-data", same_dict_obj(p, Prepared(c.old.input_data))),
            ("returns-self.jac", same_jac(R, s1.jac)),
            # (d) nothing requested: the cached Jacobian of the lookup (possibly none), nothing computed, nothing run, cache untouched
            ("nothing-requested:returns-the-cached-jacobian", z3.Implies(z3.And(early, hit_i), jac_is_flat(R, j0, h1, h0))),
            ("nothing-requested:empty-iff-none-cached", z3.Implies(early, (R.n == 0) == z3.Not(z3.And(hit_i, j0.n != 0)))),
            ("nothing-requested:nothing-computed-nor-run", z3.Implies(early, z3.And(n1 == n0, runs1 == runs0, cache_same(c), same_dict_obj(s1.io._IO__data, s0.io._IO__data),
                                                                                    s1._has_jacobian == s0._has_jacobian))),
            # (a) hit with outputs and a Jacobian covering the request: the stored Jacobian (real parts), nothing computed, nothing run
            ("hit-with-usable-jacobian:not-computed", z3.Implies(z3.And(main, hit_o, usable), z3.And(n1 == n0, runs1 == runs0))),
            ("hit-with-usable-jacobian:returns-the-stored-jacobian", z3.Implies(z3.And(main, hit_o, usable), stored_real)),
            ("hit-with-usable-jacobian:cache-unchanged", z3.Implies(z3.And(main, hit_o, usable), cache_same(c))),
            # (b) otherwise computed exactly once (the body runs iff the lookup returned no outputs)
            ("hit-without-jacobian:computed-once", z3.Implies(z3.And(main, hit_o, j0.n == 0), z3.And(computed_, runs1 == runs0))),
            ("hit-with-jacobian-not-covering-the-request:computed-once", z3.Implies(z3.And(main, hit_o, j0.n != 0, z3.Not(covers_flat(j0, X, O))), z3.And(computed_, runs1 == runs0))),
            ("miss:computed-once-unless-the-run-provides-the-jacobian", z3.Implies(z3.And(main, z3.Not(hit_o), z3.Not(sets)), z3.And(computed_, runs1 == runs0 + 1))),
            ("miss:run-once", z3.Implies(z3.And(main, z3.Not(hit_o)), runs1 == runs0 + 1)),
            ("at-most-one-computation", z3.And(n0 <= n1, n1 <= n0 + 1)),
            # execute=False: the state of the discipline is trusted
            ("no-execution:reuse", z3.Implies(z3.And(z3.Not(early), z3.Not(ex), reuse_state), z3.And(n1 == n0, real_parts(R, s0.jac, h1, h0)))),
            ("no-execution:computed-once", z3.Implies(z3.And(z3.Not(early), z3.Not(ex), z3.Not(reuse_state)), computed_)),
            ("no-execution:not-run", z3.Implies(z3.Not(ex), runs1 == runs0)),
            # (c) a computed Jacobian is restricted to the requested outputs x inputs (all of the grammars when compute_all_jacobians) and covers them
            *[(f"computed:{l}", z3.Implies(computed_, f)) for l, f in restricted_jac(R, G, X, O, all_, h1)],
            ("computed:covers-the-request", z3.Implies(computed_, covers(R, X, O))),
            # (b) ... and cached under the CURRENT prepared input data, unless the entry found already holds a Jacobian
            ("computed:miss:cached-under-the-current-inputs", z3.Implies(z3.And(computed_, ex, z3.Not(hit_i), z3.Not(sets), p.n != 0),
                                                                          z3.And(content_eq(i1, p, h1, h0), jac_is_flat(R, j1, h1, h1)))),
            ("computed:hit-without-jacobian:cached-with-the-entry", z3.Implies(z3.And(computed_, ex, hit_i, j0.n == 0, z3.Or(o0.n != 0, z3.Not(sets))),
                                                                                z3.And(content_eq(i1, i0, h1, h0), jac_is_flat(R, j1, h1, h1)))),
            ("computed:hit-with-jacobian:entry-kept", z3.Implies(z3.And(computed_, ex, hit_i, j0.n != 0), z3.And(content_eq(i1, i0, h1, h0), content_eq(j1, j0, h1, h0)))),
            ("hit-with-outputs:outputs-kept", z3.Implies(z3.And(main, hit_o), content_eq(o1, o0, h1, h0))),
            # frame
            ("heap-preserved", heap_preserved(c)), ("self-kept", self_kept(c)), ("cache-wf", cache_wf(c, "new")),
            ("tolerance-kept", s1.cache._tolerance == tol), ("jacobian-wf", z3.Implies(z3.Not(early), rep_inv(s1, c.new_ctr))),
        ]
        return out
