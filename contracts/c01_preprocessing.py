"""C01 - composition of the evaluation sequences (EvaluationProblem._preprocess_function / preprocess_functions) and
normalisation of linear functions (MDOLinearFunction.normalize).

Part B (MDOLinearFunction.normalize, precise numpy model + abstract CSR matrices of pyvc/plug_c01.py):
  * dense coefficients: result.A[i, j] = A[i, j] * s[j], result.b[i] = sum_k A[i, k] * shift[k] + b[i] computed from the ORIGINAL coefficients,
    with s = ub - lb on normalised components / 1 elsewhere and shift = lb on normalised components / 0 elsewhere; hence (lemma, by induction
    on the prefix sums) result.func(xn) = self.func(U(xn)) for every xn and result.jac = self.jac * diag(s);
  * sparse (CSR) coefficients: result.data[p] = data[p] * s[indices[p]] in FRESH arrays, same indices / indptr / shape, offset computed by the
    matrix-vector product of the ORIGINAL arrays;
  * frame: the coefficients of ``self`` (dense array, or the three CSR arrays), its offset and every other attribute but ``last_eval`` / ``dim``
    (written by ``evaluate``) are unchanged, the design space is unchanged.
Part A: see the second half of this file.
"""
from __future__ import annotations

import z3

from pyvc import gmodels as G
from pyvc.contract import Contract, LoopSpec, register, schema
from pyvc.npmodel import TArr
from pyvc.plug_c01 import CsrObj, SelfMethod, SelfRef, TCsr, csr_matvec
from pyvc.plug_np_c10 import psum_fn
from pyvc.values import forall_pat as fa
from pyvc.values import (BoundMethod, PyObj, Ref, SV, TBool, TCallable, TDict, TInt, TList, TNd, TObj, TOpt, TReal, TRec, TStr, TVal, ValS,
                         str_lit, val_none)

A = "gemseo.algos."
DS = A + "design_space.DesignSpace"
MDOF = "gemseo.core.mdo_functions.mdo_function.MDOFunction"
LIN = "gemseo.core.mdo_functions.mdo_linear_function.MDOLinearFunction"
F1, F2, I1, B1 = TArr("f", 1), TArr("f", 2), TArr("i", 1), TArr("b", 1)
psum = psum_fn("f")

# ---------------------------------------------------------------------------- abstract view of the design space
# lower / upper bound vectors and the normalisation policy of every component (= convert_dict_to_array(normalize))
schema(DS + "#c01", {
    "dimension": TInt,
    "_DesignSpace__lower_bounds_array": F1,
    "_DesignSpace__upper_bounds_array": F1,
    "ghost_norm_policies": B1,
    "normalize": TVal,
})


def el(a, *i):
    return a.obj.at(*i)


def ln(a, ax=0):
    return a.obj.shape[ax]


def ds_view(s):
    class _:  # noqa: N801
        dim = s.dimension
        lb, ub, pol = s._DesignSpace__lower_bounds_array, s._DesignSpace__upper_bounds_array, s.ghost_norm_policies
    return _


def ds_wf(s):
    d = ds_view(s)
    return [("space-lengths", z3.And(d.dim >= 0, ln(d.lb) == d.dim, ln(d.ub) == d.dim, ln(d.pol) == d.dim))]


def scale_at(d, j):
    """s[j] = ub[j] - lb[j] on normalised components, 1 elsewhere."""
    return z3.If(el(d.pol, j), el(d.ub, j) - el(d.lb, j), z3.RealVal(1))


def shift_at(d, j):
    """shift[j] = lb[j] on normalised components, 0 elsewhere."""
    return z3.If(el(d.pol, j), el(d.lb, j), z3.RealVal(0))


class _SpaceGetter(Contract):
    prop = ("C01",)
    self_schema = DS + "#c01"
    numpy = "precise"
    returns = F1
    trusted = True
    field = ""

    def requires(self, c):
        return ds_wf(c.old.self) + [("all-the-variables", z3.BoolVal(c.arg("variable_names") == () and c.arg("as_dict") is False))]

    def ensures(self, c):
        a = getattr(c.old.self, self.field)
        j = z3.Int("j!sg")
        return [("length", ln(c.result) == ln(a)),
                ("values", fa([j], z3.Implies(z3.And(0 <= j, j < ln(a)), el(c.result, j) == el(a, j)), el(c.result, j)))]


@register
class GetLowerBounds(_SpaceGetter):
    targets = (DS + ".get_lower_bounds",)
    field = "_DesignSpace__lower_bounds_array"
    description = "assumed (design-space bookkeeping, C02 domain): get_lower_bounds() is the vector of the lower bounds of all the components"


@register
class GetUpperBounds(_SpaceGetter):
    targets = (DS + ".get_upper_bounds",)
    field = "_DesignSpace__upper_bounds_array"
    description = "assumed (design-space bookkeeping, C02 domain): get_upper_bounds() is the vector of the upper bounds of all the components"


@register
class ConvertNormalizeToArray(Contract):
    targets = (DS + ".convert_dict_to_array",)
    prop = ("C01",)
    self_schema = DS + "#c01"
    numpy = "precise"
    params = {"design_values": TVal}
    returns = B1
    trusted = True
    description = ("assumed (design-space bookkeeping, C02 domain): convert_dict_to_array(self.normalize) is the boolean vector telling, component by "
                   "component, whether the variable is normalised (the abstract view `ghost_norm_policies` of the design space)")

    def requires(self, c):
        return ds_wf(c.old.self) + [("argument-is-the-normalisation-policies", c.old.design_values == c.old.self.normalize),
                                    ("all-the-variables", z3.BoolVal(c.arg("variable_names") == ()))]

    def ensures(self, c):
        a = c.old.self.ghost_norm_policies
        j = z3.Int("j!cn")
        return [("length", ln(c.result) == ln(a)),
                ("values", fa([j], z3.Implies(z3.And(0 <= j, j < ln(a)), el(c.result, j) == el(a, j)), el(c.result, j)))]


# ---------------------------------------------------------------------------- linear functions
def _lin_fields(coeff_type):
    return {
        "_coefficients": coeff_type,
        "_value_at_zero": F1,
        "name": TStr,
        "f_type": TStr,
        "expr": TStr,
        "_input_names": TList(TStr),
        "_output_names": TList(TStr),
        "_func": SelfMethod(LIN, "_func_to_wrap"),
        "_jac": SelfMethod(LIN, "_jac_to_wrap"),
        "dim": TInt,
        "last_eval": TVal,
        "force_real": TBool,
        "special_repr": TStr,
        "has_default_name": TBool,
        "_MDOFunction__original_name": TStr,
        "_MDOFunction__expects_normalized_inputs": TBool,
        "_MDOLinearFunction__initial_expression": TOpt(TStr),
        "original": SelfRef(LIN),
    }


schema(LIN + "#dense", _lin_fields(F2))
schema(LIN + "#sparse", _lin_fields(TCsr))
# fields of ``self`` that normalize must leave alone (``last_eval`` and ``dim`` are written by ``evaluate``)
KEPT_SCALARS = ("name", "f_type", "expr", "force_real", "special_repr", "has_default_name", "_MDOFunction__original_name",
                "_MDOFunction__expects_normalized_inputs", "_MDOLinearFunction__initial_expression")


class _StringGlue(Contract):
    prop = ("C01",)
    trusted = True
    description = "assumed: builds the textual expression / input names of a linear function (strings only, no effect on the state)"


@register
class Generate1dExpr(_StringGlue):
    targets = (LIN + "._generate_1d_expr",)
    params = {"input_names": TList(TStr)}
    returns = TStr


@register
class GenerateNdExpr(_StringGlue):
    targets = (LIN + "._generate_nd_expr",)
    params = {"input_names": TList(TStr)}
    returns = TStr


@register
class GenerateInputNames(_StringGlue):
    targets = (MDOF + ".generate_input_names",)
    params = {"input_dim": TInt, "input_names": TList(TStr)}
    returns = TList(TStr)


def same_list(a, b):
    j = z3.Int("j!sl")
    return z3.And(a.n == b.n, z3.ForAll([j], z3.Implies(z3.And(0 <= j, j < a.n), a.elems[j] == b.elems[j])))


def is_own_method(v, owner_ref, method):
    return isinstance(v, BoundMethod) and isinstance(v.recv, Ref) and v.recv.id == owner_ref.id and v.finfo is not None and \
        v.finfo.qualname == f"{LIN}.{method}"


def shift_witness(c):
    """The vector `shift` of the code: the local of the verified function, a fresh witness at call sites."""
    loc = getattr(c, "locals", None)
    if loc is not None and "shift" in loc:
        return loc["shift"].obj.elems
    return z3.FreshConst(z3.ArraySort(z3.IntSort(), z3.RealSort()), "shift")


class _Normalize(Contract):
    targets = (LIN + ".normalize",)
    prop = ("C01",)
    numpy = "precise"
    c01 = True
    frame_arrays = True
    modifies = ("self",)
    returns = None

    def _common_requires(self, c):
        s = c.old.self
        return ds_wf(c.old.input_space) + [
            ("offset-length", ln(s._value_at_zero) == self.rows(c)),  # class invariant (value_at_zero setter)
            ("defined-over-the-space", self.cols(c) == c.old.input_space.dimension),
        ]

    def _kept(self, c):
        """Frame of ``self``: everything but last_eval / dim (and the coefficients, stated by the subclasses)."""
        s0, s1 = c.old.self, c.new.self
        j = z3.Int("j!kp")
        out = [(f"self-kept:{f}", getattr(s1, f) == getattr(s0, f) if not isinstance(getattr(s0, f), View_) else getattr(s1, f).term == getattr(s0, f).term)
               for f in KEPT_SCALARS]
        out += [
            ("self-kept:offset-array", z3.BoolVal(s1._value_at_zero.ref.id == s0._value_at_zero.ref.id)),
            ("self-kept:offset", z3.And(ln(s1._value_at_zero) == ln(s0._value_at_zero),
                                        z3.ForAll([j], z3.Implies(z3.And(0 <= j, j < ln(s0._value_at_zero)), el(s1._value_at_zero, j) == el(s0._value_at_zero, j))))),
            ("self-kept:coefficients-object", z3.BoolVal(s1._coefficients.ref.id == s0._coefficients.ref.id)),
            ("self-kept:input-names", same_list(s1._input_names, s0._input_names)),
            ("self-kept:output-names", same_list(s1._output_names, s0._output_names)),
            ("self-kept:func", z3.BoolVal(is_own_method(c.new.self.obj.fields["_func"], c.arg("self"), "_func_to_wrap"))),
            ("self-kept:jac", z3.BoolVal(is_own_method(c.new.self.obj.fields["_jac"], c.arg("self"), "_jac_to_wrap"))),
            ("self-kept:original", z3.BoolVal(c.new.self.obj.fields["original"] == c.arg("self"))),
            ("self-kept:dim", z3.Implies(s0.dim != 0, s1.dim == s0.dim)),
        ]
        return out

    def _result_common(self, c):
        s0, r = c.old.self, c.result
        rref = c.result_value
        return [
            ("result:is-a-new-linear-function", z3.BoolVal(isinstance(rref, Ref) and rref.id != c.arg("self").id and c.result.obj.cls == LIN)),
            ("result:expects-normalized-inputs", r._MDOFunction__expects_normalized_inputs),
            ("result:name", r.name == s0.name),
            ("result:f_type", r.f_type == s0.f_type),
            ("result:func-is-its-own-linear-map", z3.BoolVal(is_own_method(c.result.obj.fields["_func"], rref, "_func_to_wrap"))),
            ("result:jac-is-its-own-coefficients", z3.BoolVal(is_own_method(c.result.obj.fields["_jac"], rref, "_jac_to_wrap"))),
            ("result:original-is-itself", z3.BoolVal(c.result.obj.fields["original"] == rref)),
            ("result:output-dimension", r.dim == self.rows(c)),
        ]


from pyvc.contract import View as View_  # noqa: E402


@register
class NormalizeDense(_Normalize):
    """Dense coefficients (rank-2 array)."""

    self_schema = LIN + "#dense"
    params = {"input_space": TObj(DS, schema_key=DS + "#c01")}
    returns = TObj(LIN, schema_key=LIN + "#dense")
    c01_construct = {LIN: LIN + "#dense"}

    def rows(self, c):
        return ln(c.old.self._coefficients, 0)

    def cols(self, c):
        return ln(c.old.self._coefficients, 1)

    def requires(self, c):
        return self._common_requires(c)

    def ensures(self, c):
        s0, s1, r = c.old.self, c.new.self, c.result
        d = ds_view(c.old.input_space)
        A0, A1, RA = s0._coefficients, s1._coefficients, r._coefficients
        b0, Rb = s0._value_at_zero, r._value_at_zero
        m, n = self.rows(c), self.cols(c)
        i, j, k = z3.Int("i!nd"), z3.Int("j!nd"), z3.Int("k!nd")
        inr = z3.And(0 <= i, i < m, 0 <= j, j < n)
        sh = shift_witness(c)
        return self._result_common(c) + [
            ("result:coefficients-shape", z3.And(ln(RA, 0) == m, ln(RA, 1) == n)),
            ("result:coefficients-scaled", fa([i, j], z3.Implies(inr, el(RA, i, j) == el(A0, i, j) * scale_at(d, j)), el(RA, i, j))),
            ("result:coefficients-are-fresh", z3.BoolVal(r._coefficients.ref.id != s0._coefficients.ref.id)),
            ("result:offset-length", ln(Rb) == m),
            # the offset is A0 @ shift + b0 for the vector `shift` of the code (a witness at call sites), which is the spec vector point-wise
            ("shift-vector", fa([k], z3.Implies(z3.And(0 <= k, k < n), sh[k] == shift_at(d, k)), sh[k])),
            ("result:offset-from-the-original-coefficients",
             fa([i], z3.Implies(z3.And(0 <= i, i < m), el(Rb, i) == psum(z3.Lambda([k], el(A0, i, k) * sh[k]), n) + el(b0, i)), el(Rb, i))),
            ("self-kept:coefficients", z3.And(ln(A1, 0) == m, ln(A1, 1) == n, fa([i, j], z3.Implies(inr, el(A1, i, j) == el(A0, i, j)), el(A1, i, j)))),
        ] + self._kept(c)
